"""C14 — a claimed allocator is inert until the claim ends, then resumes."""
import re
from ..ir import show, phi_alts, walk_expr, expr_mentions, Site, RET, UNW
from .common import *
from .poswrite import *

EXPLANATION = (
    "Static rules over polymorphic MIR. C14.R1: claim tests is_claimed with a diverging arm and then Cell::replace-s the "
    "chunk with the CLAIMED constant, moving the old chunk into the guard's RawBump; the guard's Drop reaches reclaim, "
    "which stores the claimant's *current* chunk back; the guard is built only in BumpClaimGuard::new and is not Clone. "
    "C14.R2: every consumer of the chunk classifier treats Claimed separately from NonDummy: reserve, in_another_chunk "
    "and make_allocated return Err(E::claimed()) before any effect, allocator()/stats give None/zero, manually_drop frees "
    "nothing, align_to and the align guard skip. C14.R3: geometry of the four dummy headers as read from the statics' "
    "MIR: upward pos = end + 16, downward end = pos + 16 (capacity -16), prev = next = None, both pointers inside the "
    "static itself; the CLAIMED/UNALLOCATED constants point at them. C14.R4: scopes opened through the guard are undone "
    "(guard derefs to BumpScope, so C03.R2 applies). C14.R5: E::allocation (abort under the panicking API) reports a "
    "handle's failure only after is_claimed() was false; otherwise E::claimed. Not decided: that is_last is false for the dummy position for "
    "every user pointer (argued from the provenance of statics, not computed).")


def never_returns(P, fid):
    b = P.body(fid)
    return b is not None and not b.return_blocks()


def r1_swap(ctx, P):
    R = "C14.R1"
    ctx.rule(R, "claim: is_claimed test with diverging arm, then replace(CLAIMED) into the guard; reclaim stores the "
                "claimant's current chunk; guard built only in BumpClaimGuard::new, not Clone")
    b = P.find_body("raw_bump::RawBump::<A, S>::claim")
    if ctx.need(b is not None, R, "RawBump::claim"):
        reps = [(s, t) for s, t in b.calls() if t["f"].get("path") == "core::cell::Cell::<T>::replace"]
        if ctx.need(len(reps) == 1, R, "one Cell::replace in claim"):
            s, t = reps[0]
            v = b.prov_operand(t["args"][1], s)
            okv = v[0] == "const_item" and v[1].endswith("::CLAIMED")
            recv = b.prov_operand(t["args"][0], s)
            okr = expr_mentions(recv, lambda x: x[0] == "field" and x[2] == "chunk" and mentions_param(x, 1))
            ctx.inst(R, b.path, okv and okr, f"{show(recv)}.replace({show(v)})", where=b.where(s), site="replace with CLAIMED")
            # returned guard state holds the replaced (old) chunk
            for rb in b.return_blocks():
                rv = b.prov_place({"l": 0, "p": []}, b.term_site(rb))
                ok = expr_mentions(rv, lambda x: x[0] == "call" and x[1] == "core::cell::Cell::<T>::replace")
                ctx.inst(R, b.path, ok, f"claim returns {show(rv)} (the chunk that was current before the claim)", where=b.where(), site="returns old chunk")
            # already-claimed test with diverging arm dominates the replace
            te, fe = b.cond_edges(lambda e: True if (e[0] == "call" and e[1].split("::")[-1] == "is_claimed") else None)
            ok = bool(te)
            for (bb, tgt, lab) in te:
                div = [cs.bb for cs, ct in b.calls() if ct["f"].get("local") and never_returns(P, ct["f"]["id"])]
                reach = b.reach([tgt], removed_blocks=div, cleanup=False)
                ok = ok and s.bb not in reach and bool(div)
            ctx.inst(R, b.path, ok, "when already claimed, every path to the replace passes a diverging call (second claim panics)" if ok else
                     "a second claim can replace the chunk again: the first claimant's chunk would be overwritten by CLAIMED and lost",
                     where=b.where(s), site="second claim diverges")
    b = P.find_body("raw_bump::RawBump::<A, S>::reclaim")
    if ctx.need(b is not None, R, "RawBump::reclaim"):
        sets = [(s, t) for s, t in b.calls() if t["f"].get("path") == "core::cell::Cell::<T>::set"]
        if ctx.need(len(sets) == 1, R, "one Cell::set in reclaim"):
            s, t = sets[0]
            v = b.prov_operand(t["args"][1], s)
            recv = b.prov_operand(t["args"][0], s)
            ok = expr_mentions(v, lambda x: x[0] == "field" and x[2] == "chunk" and mentions_param(x, 2)) and \
                expr_mentions(recv, lambda x: x[0] == "field" and x[2] == "chunk" and mentions_param(x, 1)) and \
                any(tt["f"].get("path") == "core::cell::Cell::<T>::get" for _, tt in b.calls())
            ctx.inst(R, b.path, ok, f"{show(recv)}.set({show(v)}): the claimant's current chunk is written back", where=b.where(s), site="reclaim current chunk")
            oku = b.must_pass(None, [s.bb], exits=(RET,), cleanup=False, from_edge=0)[0]
            ctx.inst(R, b.path, oku, "the write-back happens on every path (also when the claimant never left a dummy chunk)" if oku else
                     "reclaim can return without writing the chunk back: the original handle stays claimed for ever after the guard "
                     "is gone", where=b.where(s), site="reclaim unconditional")
    d = [x for x in P.fn_bodies() if x.item["name"] == "drop" and "BumpClaimGuard" in x.path]
    if ctx.need(len(d) == 1, R, "Drop for BumpClaimGuard"):
        b = d[0]
        rc = b.calls_to(lambda f: f.get("name") == "reclaim")
        ok = len(rc) == 1 and b.must_pass(None, [rc[0][0].bb], exits=(RET,), cleanup=False, from_edge=0)[0]
        if ok:
            s, t = rc[0]
            a0, a1 = b.prov_operand(t["args"][0], s), b.prov_operand(t["args"][1], s)
            ok = expr_mentions(a0, lambda x: x[0] == "field" and x[2] == "original") and \
                expr_mentions(a1, lambda x: x[0] == "field" and x[2] == "claimant")
        ctx.inst(R, b.path, ok, "guard drop calls original.reclaim(&claimant) on every path" if ok else
                 "guard drop does not hand the claimant's state back to the original handle", where=b.where(), site="drop -> reclaim")
    # guard construction
    n = 0
    for b in P.fn_bodies():
        for s, st in b.assigns():
            r = st["r"]
            if r["k"] == "agg" and r.get("adt") == "bump_claim_guard::BumpClaimGuard":
                n += 1
                ok = b.item["name"] == "new" and "BumpClaimGuard" in b.path
                fn = r["fnames"]
                cl = b.prov_operand(r["fields"][fn.index("claimant")], s)
                og = b.prov_operand(r["fields"][fn.index("original")], s)
                ok = ok and expr_mentions(cl, lambda x: x[0] == "call" and x[1].split("::")[-1] == "claim") and mentions_param(og, 1)
                ctx.inst(R, b.path, ok, f"guard = {{ original: {show(og)}, claimant: {show(cl)} }}", where=b.where(s), site="guard construction")
    ctx.floor(R, "BumpClaimGuard constructions", n, 1)
    bad = [im for im in P.facts["impls"] if im["self_ty"].startswith("bump_claim_guard::BumpClaimGuard<") and
           im.get("trait") in ("core::clone::Clone", "core::marker::Copy")]
    ctx.inst(R, "BumpClaimGuard", not bad, "BumpClaimGuard has no Clone/Copy impl", site="no Clone")


def r2_classifier_consumers(ctx, P, D):
    R = "C14.R2"
    ctx.rule(R, "every consumer of classify() separates Claimed from NonDummy; fallible consumers return E::claimed() before "
                "any effect")
    n = 0
    for b in P.fn_bodies():
        ve = b.variant_edges(lambda e: e[0] == "call" and e[1].split("::")[-1] == "classify" and "RawChunk" in e[1])
        if not ve:
            continue
        # compiler generated `matches!` in debug assertions: only in bodies that never act on Claimed specially
        cl = ve.get("Claimed", [])
        nd = ve.get("NonDummy", [])
        if not cl and not nd:
            continue
        n += 1
        cl_t = {tgt for _, tgt, _ in cl}
        nd_t = {tgt for _, tgt, _ in nd}
        shared = cl_t & nd_t
        ok = not shared and bool(cl)
        ctx.inst(R, b.path, ok, "Claimed and NonDummy take different arms" if ok else
                 "the Claimed state is handled by the same arm as a real chunk: a claimed allocator would not be inert",
                 where=b.where(), site="separate arms")
        if not ok:
            continue
        # what happens on the Claimed arm
        reach = set()
        for tgt in cl_t:
            reach |= b.reach([tgt], cleanup=False)
        calls_cl = [(s, t) for s, t in b.calls() if s.bb in reach]
        # effects: position writes, chunk sets, chunk creation, frees
        eff = [t["f"].get("path") for s, t in calls_cl if t["f"].get("id") in D.family or
               t["f"].get("path") in ("core::cell::Cell::<T>::set", "core::cell::Cell::<T>::replace") or
               t["f"].get("name") in ("append_for", "deallocate", "reset") and "NonDummyChunk" in t["f"].get("path", "") or
               (t["f"].get("name") == "new" and "NonDummyChunk" in t["f"].get("path", ""))]
        # effects reachable from the Claimed arm but only via blocks also dominated by other arms are not attributable;
        # restrict to blocks controlled by the Claimed edges
        eff_only = []
        for s, t in calls_cl:
            p = t["f"].get("path", "")
            is_eff = t["f"].get("id") in D.family or p in ("core::cell::Cell::<T>::set", "core::cell::Cell::<T>::replace") or \
                (t["f"].get("name") in ("append_for", "deallocate", "reset", "new") and "NonDummyChunk" in p)
            if is_eff and b.controlled_by(s, cl, cleanup=False):
                eff_only.append(p)
        fallible = b.item.get("output", "").startswith("core::result::Result<") and \
            any(g["name"] in ("E", "B") for g in b.item.get("generics", []))
        if fallible:
            cc = [s for s, t in calls_cl if t["f"].get("name") == "claimed" and (t["f"].get("trait") or "").endswith("ErrorBehavior")]
            okc = bool(cc) and all(b.must_pass(None, [s.bb for s in cc], exits=(RET,), cleanup=False, from_edge=tgt)[0] for tgt in cl_t)
            ctx.inst(R, b.path, okc and not eff_only, "Claimed arm: every returning path constructs E::claimed() and performs no effect"
                     if okc and not eff_only else f"Claimed arm can return without E::claimed() or performs {eff_only}",
                     where=b.where(), site="Claimed -> Err(claimed)")
        else:
            ctx.inst(R, b.path, not eff_only, "Claimed arm performs no effect (no position/chunk write, no free)" if not eff_only else
                     f"Claimed arm performs {eff_only}", where=b.where(), site="Claimed arm inert")
    ctx.floor(R, "consumers of the chunk classifier", n, 6)
    # classify itself: Claimed is tested first, via the CLAIMABLE-gated comparison with the claimed dummy
    b = P.find_body("raw_bump::RawChunk::<A, S>::is_claimed")
    if ctx.need(b is not None, R, "RawChunk::is_claimed"):
        rv = [b.prov_place({"l": 0, "p": []}, b.term_site(rb)) for rb in b.return_blocks()]
        ok = any(expr_mentions(r, lambda x: x[0] == "call" and x[1] == "core::cmp::PartialEq::eq" and
                               expr_mentions(x, lambda y: y[0] == "call" and y[1].endswith("ChunkHeader::claimed"))) for r in rv)
        ctx.inst(R, b.path, ok, "is_claimed compares the header pointer with ChunkHeader::claimed()", where=b.where(), site="is_claimed")


def r3_dummy_geometry(ctx, P):
    R = "C14.R3"
    ctx.rule(R, "dummy headers encode capacity -16 inside themselves: up pos = end + 16, down end = pos + 16, no links")
    n = 0
    for it in P.facts["items"]:
        if not it["kind"].startswith("Static") or not it["path"].startswith("chunk::header::ChunkHeader::"):
            continue
        b = P.body(it["id"])
        up = it["name"] == "UP_CHUNK"
        for s, st in b.assigns():
            r = st["r"]
            if r["k"] == "agg" and r.get("adt") == "chunk::header::ChunkHeader":
                n += 1
                fn = r["fnames"]
                pos = b.prov_operand(r["fields"][fn.index("pos")], s)
                end = b.prov_operand(r["fields"][fn.index("end")], s)
                prev = b.prov_operand(r["fields"][fn.index("prev")], s)
                nxt = b.prov_operand(r["fields"][fn.index("next")], s)
                ptr_name = "UP_CHUNK_PTR" if up else "DOWN_CHUNK_PTR"

                def is_ptr(e):
                    e = strip_casts(e)
                    while e[0] == "call" and e[1].split("::")[-1] in ("new",):
                        e = strip_casts(e[2][0])
                    return e[0] == "const_item" and e[1].endswith("::" + ptr_name) and \
                        e[1].rsplit("::", 1)[0] == it["path"].rsplit("::", 1)[0]

                def is_ptr_plus16(e):
                    e = strip_casts(e)
                    while e[0] == "call" and e[1].split("::")[-1] in ("new",):
                        e = strip_casts(e[2][0])
                    return e[0] == "call" and e[1].split("::")[-1] == "byte_add" and is_ptr(e[2][0]) and \
                        strip_casts(e[2][1]) == ("int", 16, "usize")
                ok = (is_ptr_plus16(pos) and is_ptr(end)) if up else (is_ptr(pos) and is_ptr_plus16(end))
                none = lambda e: expr_mentions(e, lambda x: x[0] == "agg" and x[2] == "None")
                ok = ok and none(prev) and none(nxt)
                ctx.inst(R, it["path"], ok, f"pos = {show(pos)}, end = {show(end)}, prev = {show(prev)}, next = {show(nxt)}" +
                         ("" if ok else " — not the capacity -16 encoding"), where=b.where(s), site="geometry")
    ctx.floor(R, "dummy header statics", n, 4)
    # the *_PTR constants point into their own static
    m = 0
    for it in P.facts["items"]:
        if it["kind"].startswith("Const") and it["path"].startswith("chunk::header::ChunkHeader::") and it["name"].endswith("_CHUNK_PTR"):
            b = P.body(it["id"])
            for rb in b.return_blocks():
                rv = b.prov_place({"l": 0, "p": []}, b.term_site(rb))
                want = it["path"][:-4]
                ok = expr_mentions(rv, lambda x: x[0] == "static_ref" and x[1] == want and x[2] == 0)
                m += 1
                ctx.inst(R, it["path"], ok, f"{it['name']} = {show(rv)} points at its own static {want.split('::')[-1]}", where=b.where(), site="self pointer")
    ctx.floor(R, "dummy pointer constants", m, 4)
    # CLAIMED / UNALLOCATED constants
    for nm, fn in (("CLAIMED", "claimed"), ("UNALLOCATED", "unallocated")):
        its = [i for i in P.facts["items"] if i["kind"].startswith("AssocConst") and i["name"] == nm and "RawChunk" in i["path"]]
        if ctx.need(len(its) == 1, R, f"RawChunk::{nm}"):
            b = P.body(its[0]["id"])
            rv = [b.prov_place({"l": 0, "p": []}, b.term_site(rb)) for rb in b.return_blocks()]
            ok = all(expr_mentions(r, lambda x: x[0] == "call" and x[1].endswith("ChunkHeader::" + fn)) for r in rv) and bool(rv)
            ctx.inst(R, its[0]["path"], ok, f"{nm} = {show(rv[0]) if rv else '?'}", where=b.where(), site="dummy constant")
    for fn in ("claimed", "unallocated"):
        b = P.find_body("chunk::header::ChunkHeader::" + fn)
        if ctx.need(b is not None, R, f"ChunkHeader::{fn}"):
            te, fe = b.cond_edges(lambda e: True if (e[0] == "assoc_const" and e[2] == "UP") else None)
            ok = bool(te) and bool(fe)
            for rb in b.return_blocks():
                rv = b.prov_place({"l": 0, "p": []}, b.term_site(rb))
                alts = phi_alts(rv)
                ok = ok and len(alts) == 2 and {a[1].split("::")[-1] for a in alts if a[0] == "const_item"} == {"UP_CHUNK_PTR", "DOWN_CHUNK_PTR"}
            # each alternative under the right arm
            for s, st in b.assigns():
                r = st["r"]
                if r["k"] == "use" and r["o"].get("k") == "c" and r["o"]["c"].get("path", "").endswith("UP_CHUNK_PTR") and st["p"]["l"] == 0:
                    ok = ok and b.controlled_by(s, te, cleanup=False)
                if r["k"] == "use" and r["o"].get("k") == "c" and r["o"]["c"].get("path", "").endswith("DOWN_CHUNK_PTR") and st["p"]["l"] == 0:
                    ok = ok and b.controlled_by(s, fe, cleanup=False)
            ctx.inst(R, b.path, ok, "returns the UP dummy when S::UP, the DOWN dummy otherwise", where=b.where(), site="direction")


def r4_scopes_through_guard(ctx, P):
    R = "C14.R4"
    ctx.rule(R, "the guard derefs (mutably) to its own claimant BumpScope, so scopes opened through it follow C03.R2")
    for nm in ("deref", "deref_mut"):
        bs = [b for b in P.fn_bodies() if b.item["name"] == nm and "BumpClaimGuard" in b.path]
        if ctx.need(len(bs) == 1, R, f"{nm} for BumpClaimGuard"):
            b = bs[0]
            rv = [b.prov_place({"l": 0, "p": []}, b.term_site(rb)) for rb in b.return_blocks()]
            ok = all(strip_ref(r)[0] == "field" and strip_ref(r)[2] == "claimant" for r in rv) and bool(rv)
            ctx.inst(R, b.path, ok, f"returns {show(rv[0]) if rv else '?'}", where=b.where(), site="target")


def r6_non_dummy_witness(ctx, P):
    R = "C14.R6"
    ctx.rule(R, "NonDummyChunk is the witness type for 'neither claimed nor unallocated': it is constructed from an existing "
                "RawChunk only after is_claimed() and is_unallocated() both returned false (classify), in the unsafe "
                "unchecked constructor, or from a freshly allocated block / a prev-next link")
    n = 0
    for b in P.fn_bodies():
        for s, st in b.assigns():
            r = st["r"]
            if not (r["k"] == "agg" and r.get("adt", "").endswith("NonDummyChunk")):
                continue
            n += 1
            v = b.prov_operand(r["fields"][0], s)
            k = f"construction of NonDummyChunk"
            if b.item.get("unsafe"):
                ctx.inst(R, b.path, True, "unsafe constructor: the caller vouches for the class", where=b.where(s), site=k + " (unsafe fn)")
                continue
            fresh = expr_mentions(v, lambda x: x[0] == "call" and x[1].endswith("Allocator::allocate"))
            link = expr_mentions(v, lambda x: x[0] == "field" and x[2] in ("prev", "next")) and \
                expr_mentions(v, lambda x: x[0] == "field" and x[2] == "header")
            if fresh or link:
                ctx.inst(R, b.path, True, "built from " + ("a freshly allocated block" if fresh else "a prev/next link of a real chunk"),
                         where=b.where(s), site=k + (" (fresh)" if fresh else " (link)"))
                continue
            oks = []
            for nm in ("is_claimed", "is_unallocated"):
                te, fe = b.cond_edges(lambda e, nm=nm: True if (e[0] == "call" and e[1].split("::")[-1] == nm) else None)
                oks.append(b.controlled_by(s, fe, cleanup=False))
            if not oks[1]:
                # a guaranteed-allocated arena is never unallocated (it can still be claimed)
                ga, _ = b.cond_edges(lambda e: True if (e[0] == "assoc_const" and e[2] == "GUARANTEED_ALLOCATED") else None)
                oks[1] = b.controlled_by(s, ga, cleanup=False)
            ok = all(oks)
            ctx.inst(R, b.path, ok, "constructed only after is_claimed() and is_unallocated() were both false" if ok else
                     f"NonDummyChunk {{ raw: {show(v)[:50]} }} is constructed without both dummy tests (is_claimed false: {oks[0]}, "
                     f"is_unallocated false: {oks[1]}): the CLAIMED / UNALLOCATED dummy header is then treated as a real chunk "
                     "(stats of a claimed handle report a chunk, position writes go to a static)", where=b.where(s), site=k)
    ctx.floor(R, "NonDummyChunk constructions", n, 5)


UNCHECKED_CALLERS = {
    # outermost function name -> why the chunk cannot be a dummy there
    "allocate_prepared": "a successful prepare_allocation precedes (safety contract of the commit)",
    "allocate_prepared_rev": "a successful prepare_allocation precedes (safety contract of the commit)",
    "allocate_prepared_slice": "a successful prepare precedes (safety contract of the commit)",
    "allocate_prepared_slice_rev": "a successful prepare precedes (safety contract of the commit)",
    "shrink_slice": "under is_last == true: the block lies in the current, real chunk",
    "deallocate_assume_last": "callers established is_last",
    "grow": "under is_last == true",
    "shrink": "under is_last == true",
    "generic_alloc_try_with": "after the allocation of the Result slot succeeded",
    "generic_alloc_try_with_mut": "after the preparation of the Result slot succeeded",
    "reset_to": "the checkpoint's chunk: unallocated checkpoints returned earlier, claimed ones are excluded by the contract",
    "alloc": "under a successful bump (the dummy geometry makes every bump fail)",
    "prepare_allocation": "under a successful bump (the dummy geometry makes every bump fail)",
    "prepare_allocation_range": "under a successful bump (the dummy geometry makes every bump fail)",
}


def r7_unchecked_witness_callers(ctx, P, R="C14.R7"):
    ctx.rule(R, "who may skip the dummy test: as_non_dummy_unchecked is called only from the tabled functions (each with the reason "
                "the chunk is real there); a new caller - e.g. a 'guaranteed allocated, so no dummy' shortcut, which forgets the "
                "CLAIMED dummy - is reported")
    n = 0
    for b in P.fn_bodies():
        cs = b.calls_to(lambda f: f.get("name") == "as_non_dummy_unchecked")
        if not cs:
            continue
        outer = P.outermost_fn(b.item)["name"]
        for k, (s_, t) in enumerate(cs):
            n += 1
            why = UNCHECKED_CALLERS.get(outer)
            ctx.inst(R, b.path, why is not None, f"tabled: {why}" if why else
                     "calls as_non_dummy_unchecked without being on the list of functions for which the chunk is known to be real: "
                     "on a claimed handle the CLAIMED dummy header is treated as a chunk (stats report a chunk, positions are read from a "
                     "static)", where=b.where(s_), site=f"unchecked witness #{k}")
    ctx.floor(R, "calls of as_non_dummy_unchecked", n, 12)


EB_TRAIT = "error_behavior::ErrorBehavior"


def r5_claimed_is_not_alloc_failure(ctx, P, R="C14.R5"):
    ctx.rule(R, "a refused request on a claimed handle is reported as claimed (unwinding panic for the panicking API), never "
                "as an allocation failure (alloc::handle_alloc_error aborts): every E::allocation(..) that reports the "
                "failure of a call on a bump-allocator handle is control dependent on the false edge of is_claimed(); the "
                "only other origin is the base allocator's refusal in NonDummyChunk::new")
    n = nbase = 0
    for b in P.fn_bodies():
        sites = [(s, t) for s, t in b.calls() if t["f"].get("trait") == EB_TRAIT and t["f"].get("name") == "allocation"]
        if not sites:
            continue
        te, fe = b.cond_edges(lambda e: True if (e[0] == "call" and e[1].split("::")[-1] == "is_claimed") else None)
        for k, (s, t) in enumerate(sites):
            if b.path.startswith("raw_bump::NonDummyChunk::<A, S>::new"):
                ve = b.variant_edges(lambda e: e[0] == "call" and e[1].endswith("Allocator::allocate"))
                ok = b.controlled_by(s, ve.get("Err", []), cleanup=False)
                nbase += 1
                ctx.inst(R, b.path, ok, "E::allocation reports the base allocator's refusal (Err edge of A::allocate)" if ok else
                         "E::allocation in NonDummyChunk::new is not tied to the Err edge of the base allocator's allocate",
                         where=b.where(s), site=f"base refusal #{k}")
                continue
            n += 1
            ok = b.controlled_by(s, fe, cleanup=False)
            ctx.inst(R, b.path, ok, "E::allocation is reached only after is_claimed() returned false" if ok else
                     "a failed call on a bump-allocator handle is turned into E::allocation without asking is_claimed(): on a "
                     "claimed handle the panicking API calls handle_alloc_error (process abort) instead of unwinding with "
                     "'bump allocator is claimed'", where=b.where(s), site=f"E::allocation #{k}")
    ctx.floor(R, "E::allocation sites reporting a handle's failure", n, 1)
    ctx.floor(R, "E::allocation sites reporting the base allocator's refusal", nbase, 1)


def run(ctx, progs):
    ctx.assume("rustc nightly's type checker and MIR construction (incl. const/static initialisers via mir_for_ctfe) are correct")
    for lab, P in progs:
        ctx.config = lab
        D = PosDiscipline(P)
        r1_swap(ctx, P)
        r2_classifier_consumers(ctx, P, D)
        r3_dummy_geometry(ctx, P)
        r4_scopes_through_guard(ctx, P)
        r5_claimed_is_not_alloc_failure(ctx, P)
        r6_non_dummy_witness(ctx, P)
        r7_unchecked_witness_callers(ctx, P)
        from . import c17, c18
        c17.r8_reserve_keeps_current_chunk(ctx, P, R="C14.R8", sizing=False)
        c18.r4_conversions(ctx, P, R="C14.R9")
    ctx.config = None
