"""C09 — string types always hold valid UTF-8 (claimed narrowly: boundary checks, validated reinterpretation, NUL handling)."""
import collections, re
from ..ir import show, phi_alts, walk_expr, expr_mentions, Site, RET, UNW
from .common import *
from . import c06

EXPLANATION = (
    "Claimed narrowly; equivalence with std::string::String is not decided. C09.R1: in every safe method of BumpBox<str>, "
    "FixedBumpString, BumpString, MutBumpString each index value (usize parameter or end point of the validated range) that "
    "flows into a byte-level editor (pointer offset, raw copy, byte-vector truncate / extend_from_within, unchecked "
    "slicing, insert_bytes) is covered by a dominating assert_char_boundary / checked str slicing on that same value, or is "
    "known to be 0 / len on that path. C09.R2: bytes are reinterpreted as str only after validation: every transmute from a "
    "byte vector to a string type in a safe function is control dependent on the Ok edge of core::str::from_utf8 on that "
    "same vector; the named reinterpretation helpers (from_utf8_unchecked, str_from_utf8) are called in safe functions only "
    "at tabled sites whose operand class is checked (bytes of an existing str, copy of a &str, empty). C09.R3: retain's "
    "length guard covers the predicate (with C06.R2); draining leaves the length untouched until the Drain is dropped. "
    "C09.R4: C strings: generic_into_cstr truncates at position(== 0) + 1 or pushes exactly one NUL; alloc_cstr_from_str "
    "copies ..nul+1 bytes or len bytes followed by one 0 at offset len. NOT decided: results of the lossy decoders, "
    "formatting, operation sequences. C09.R10: FixedBumpString::split_off partitions length and capacity (shared with C16.R1). C09.R11: Display/Debug of the string types are exactly one call of <str as Display/Debug>::fmt.")

STR_TYPES = ("bump_box::BumpBox::<'a, str>::", "fixed_bump_string::FixedBumpString::<'a>::", "bump_string::BumpString::<A>::",
             "mut_bump_string::MutBumpString::<A>::")
EDITORS = {"insert_bytes", "copy", "copy_to", "copy_nonoverlapping", "copy_to_nonoverlapping", "add", "sub", "truncate", "get_unchecked",
           "get_unchecked_mut", "generic_extend_from_within_copy", "extend_from_within_copy", "slice_from_raw_parts", "from_raw_parts",
           "split_at_unchecked", "byte_add", "rotate_left", "rotate_right"}


def r1_boundaries(ctx, P):
    R = "C09.R1"
    ctx.rule(R, "every index flowing into a byte-level editor of a string is covered by a dominating char-boundary check on that value")
    n_fn = n_use = 0
    for b in P.fn_bodies():
        if not b.path.startswith(STR_TYPES) or b.item.get("unsafe"):
            continue
        idx = [l for l in range(2, b.argc + 1) if b.locals[l]["ty"] == "usize"]

        def atoms(e):
            out = set()
            for x in walk_expr(e):
                if x[0] == "param" and x[1] in idx:
                    out.add(("param", x[1]))
                y = strip_casts(strip_ref(x))
                if y[0] == "field" and y[2] in ("start", "end") and expr_mentions(y, lambda z: z[0] == "call" and z[1].split("::")[-1] == "range"):
                    out.add(("range", y[2]))
            top = strip_casts(strip_ref(e))
            if top[0] == "call" and top[1].split("::")[-1] == "range" and "polyfill::slice" in top[1]:
                out |= {("range", "start"), ("range", "end")}    # the whole validated range passed on
            if top[0] == "agg" and top[1] == "core::ops::Range":
                pass
            return out
        uses = []
        for s, t in b.calls():
            f = t["f"]
            if f.get("name") not in EDITORS:
                continue
            if f.get("path", "").startswith(STR_TYPES) and not f.get("unsafe"):
                continue    # safe string-level method of the same family: validates itself (checked there)
            a = set()
            for arg in t["args"]:
                a |= atoms(b.prov_operand(arg, s))
            if a:
                uses.append((s, f["name"], a))
        if not uses:
            continue
        n_fn += 1
        checks = []
        for s, t in b.calls():
            f = t["f"]
            if f.get("name") in ("assert_char_boundary", "is_char_boundary") or f.get("path", "").endswith("Index::index") \
                    or f.get("path", "").endswith("IndexMut::index_mut"):
                a = set()
                for arg in t["args"][1:]:
                    a |= atoms(b.prov_operand(arg, s))
                checks.append((s, a))

        def triv(at):
            def pred(e):
                if e[0] == "bin" and e[1] == "Eq" and atoms(e[2]) == {at}:
                    r = strip_casts(e[3])
                    if r == ("int", 0, "usize") or (r[0] == "call" and r[1].split("::")[-1] in ("len", "str_len")):
                        return True
                return None
            return b.cond_edges(pred)[0]
        bad = []
        for s, nm, a in uses:
            for at in sorted(a):
                n_use += 1
                ok = any(at in aa and b.dominates(sa, s) for sa, aa in checks) or b.controlled_by(s, triv(at), cleanup=False)
                if not ok:
                    bad.append((nm, at, s))
        for nm, at, s in bad:
            who = b.locals[at[1]].get("name") if at[0] == "param" else "range." + at[1]
            ctx.inst(R, b.path, False, f"{nm} uses `{who}` without a dominating char-boundary check on it: the string can be cut inside "
                     "a code point (invalid UTF-8)", where=b.where(s), site=f"{nm}#{who}")
        ctx.inst(R, b.path, not bad, f"{len(uses)} byte-level operations use index values; all covered by assert_char_boundary / checked "
                 "slicing / 0-or-len tests", where=b.where(), site="covered")
    ctx.floor(R, "string methods with index-driven byte edits", n_fn, 12)
    ctx.floor(R, "index uses in byte-level operations", n_use, 40)


STRTY = re.compile(r"(BumpString<|FixedBumpString<|MutBumpString<|BumpBox<'[a-z_]+, str>)")
REINT = {"from_utf8_unchecked", "str_from_utf8", "from_utf8_unchecked_mut"}
# safe functions that may call a named reinterpretation helper, with the class of their operand
R2_SITES = {
    r"^bump_box::BumpBox::<'a, str>::split_off$": "own-bytes",
    r"^fixed_bump_string::FixedBumpString::<'a>::split_off$": "own-bytes",
    r"^<bump_box::BumpBox<'_, str> as core::default::Default>::default$": "empty",
    r"^<bump_string::BumpString<A> as core::clone::Clone>::clone$": "copy-of-self",
    r"^fixed_bump_string::FixedBumpString::<'a>::from_uninit$": "empty",
    r"^mut_bump_string::MutBumpString::<A>::into_boxed_str$": "own-bytes",
    r"^traits::bump_allocator_typed_scope::BumpAllocatorTypedScope::(try_)?alloc_str$": "copy-of-str",
    r"^bump_box::BumpBox::<'a, str>::EMPTY_STR$": "empty",
    r"^bump_box::raw::RawBumpBox::<str>::EMPTY_STR$": "empty",
}


def r2_validated(ctx, P):
    R = "C09.R2"
    ctx.rule(R, "bytes become str only after core::str::from_utf8 succeeded, or at tabled sites whose operand is already UTF-8")
    n = 0
    for b in P.bodies():
        if b.item is None:
            continue
        safe = not b.item.get("unsafe")
        sites = []
        for s, t in b.calls():
            nm = t["f"].get("name")
            if nm in ("transmute_value", "transmute_mut", "transmute_ref", "transmute"):
                tys = [a["s"] for a in t["f"].get("args", []) if a["k"] == "ty"]
                if len(tys) >= 2 and STRTY.search(tys[1]) and not STRTY.search(tys[0]) and "u8" in tys[0]:
                    sites.append((s, t["args"][0], f"{nm}::<{tys[0]} -> {tys[1]}>"))
        for s, st in b.assigns():
            r = st["r"]
            if r["k"] == "cast" and r["ck"].startswith("Transmute") and STRTY.search(r["ty"]):
                src_ty = None
                if r["o"].get("k") in ("cp", "mv"):
                    src_ty = b.locals[r["o"]["p"]["l"]]["ty"] if not r["o"]["p"]["p"] else None
                if src_ty and "u8" in src_ty and not STRTY.search(src_ty):
                    sites.append((s, r["o"], f"transmute {src_ty} -> {r['ty']}"))
        for s, op, what in sites:
            if not safe:
                continue
            n += 1
            src = b.prov_operand(op, s)
            ve = b.variant_edges(lambda e: e[0] == "call" and e[1] in ("core::str::from_utf8", "core::str::converts::from_utf8") and
                                 expr_mentions(e, lambda x: x == strip_ref(src) or x == src))
            ok = b.controlled_by(s, ve.get("Ok", []), cleanup=False)
            ctx.inst(R, b.path, ok, f"{what} of {show(src)} is control dependent on from_utf8({show(src)}) == Ok" if ok else
                     f"{what} of {show(src)} in a safe function is not guarded by a successful core::str::from_utf8 on the same bytes: "
                     "invalid UTF-8 can enter a string type", where=b.where(s), site="validated transmute")
        # named helpers in safe functions
        for s, t in b.calls():
            if t["f"].get("name") in REINT and safe:
                n += 1
                cls = [c for rx, c in R2_SITES.items() if re.search(rx, b.path)]
                a = b.prov_operand(t["args"][0], s)
                if not cls:
                    ctx.inst(R, b.path, False, f"{t['f']['name']}({show(a)[:100]}) in a safe function that is not one of the tabled "
                             "reinterpretation sites", where=b.where(s), site=f"{t['f']['name']} untabled")
                    continue
                c = cls[0]
                if c == "own-bytes":
                    ok = expr_mentions(a, lambda x: x[0] == "call" and x[1].split("::")[-1] in ("str_bytes", "into_bytes", "as_bytes", "as_mut_bytes")) or \
                        mentions_param(a, 1)
                elif c == "empty":
                    ok = expr_mentions(a, lambda x: x == ("int", 0, "usize")) or expr_mentions(a, lambda x: x[0] in ("const_item", "const") or
                                                                                                 (x[0] == "call" and x[1].split("::")[-1] == "default")) \
                        or not [x for x in walk_expr(a) if x[0] == "param"]
                elif c == "copy-of-str":
                    ok = expr_mentions(a, lambda x: x[0] == "call" and x[1].split("::")[-1] == "as_bytes" and mentions_param(x, 2))
                elif c == "copy-of-self":
                    # freshly allocated len(self) bytes, filled by a copy from self's bytes before the reinterpretation
                    cps = [cs for cs in copy_sites(b) if mentions_param(cs.prov("src"), 1) and b.dominates(cs.site, s) or
                           b.can_reach(s, cs.site)]
                    ok = expr_mentions(a, lambda x: x[0] == "call" and x[1].split("::")[-1] == "len" and mentions_param(x, 1)) and bool(cps)
                else:
                    ok = False
                ctx.inst(R, b.path, ok, f"{t['f']['name']}({show(a)[:90]}): operand class `{c}`" + ("" if ok else " does not hold"),
                         where=b.where(s), site=f"{t['f']['name']} {c} bb-order {s.bb}")
    ctx.floor(R, "bytes->str reinterpretation sites in safe functions", n, 12)


def r3_guards(ctx, P):
    R = "C09.R3"
    ctx.rule(R, "retain's predicate runs under the length guard; drain leaves the length untouched until the Drain drops")
    bs = [b for b in P.fn_bodies() if b.path == "bump_box::BumpBox::<'a, str>::retain"]
    if ctx.need(len(bs) == 1, R, "BumpBox<str>::retain"):
        b = bs[0]
        preds = [(s, t) for s, t in b.calls() if t["f"].get("path") == "core::ops::FnMut::call_mut"]
        ok = bool(preds)
        for s, t in preds:
            gt = c06.guards_on_unwind(P, b, s)
            ok = ok and "SetLenOnDrop" in gt
        ctx.inst(R, b.path, ok, "unwinding out of the predicate drops the SetLenOnDrop guard (length restored to a valid prefix)" if ok else
                 "the predicate is not covered by the length guard", where=b.where(), site="retain guard")
        # the guard's cursor still points at the character under test while the predicate runs: it is advanced only
        # after the predicate returned (a panicking predicate must leave [kept prefix][untouched rest], both whole characters)
        idx_stores = [x for x, st in b.assigns() if st["p"]["p"] and any(isinstance(pe, dict) and pe.get("n") == "idx" for pe in st["p"]["p"])
                      and b.can_reach(x, x, cleanup=False)]
        oki = bool(preds) and bool(idx_stores) and all(any(b.dominates(ps, x) for ps, _ in preds) for x in idx_stores)
        if oki:
            # and not between the decoding of the character and the predicate: no idx store can reach the predicate without
            # passing the loop head again, i.e. every idx store is *after* the predicate in its iteration
            oki = all(not b.dominates(x, ps) for x in idx_stores for ps, _ in preds)
        ctx.inst(R, b.path, oki, "guard.idx is advanced only after the predicate returned" if oki else
                 "guard.idx is advanced before the predicate is called: if the predicate panics after an earlier character was removed, "
                 "the guard's drop moves the tail from the wrong offset and the string keeps stale continuation bytes (invalid UTF-8)",
                 where=b.where(), site="retain cursor after predicate")
    for path in ("bump_box::BumpBox::<'a, str>::drain",):
        bs = [b for b in P.fn_bodies() if b.path == path]
        if ctx.need(len(bs) == 1, R, path):
            b = bs[0]
            muts = [t["f"]["name"] for s, t in b.calls() if t["f"].get("name") in ("set_len", "truncate", "copy", "copy_to", "dec_len")]
            acb = b.calls_to(lambda f: f.get("name") == "assert_char_boundary")
            ok = not muts and len(acb) >= 2
            ctx.inst(R, b.path, ok, "drain validates both ends and mutates nothing before the Drain is dropped" if ok else
                     f"drain mutates the string eagerly ({muts}) or skips the boundary checks", where=b.where(), site="drain lazy")


def r4_cstr(ctx, P):
    R = "C09.R4"
    ctx.rule(R, "C strings end at the first NUL (inclusive) or get exactly one NUL appended")
    n = 0
    for b in P.fn_bodies():
        if b.item["name"] == "generic_into_cstr":
            n += 1
            ve = b.variant_edges(lambda e: e[0] == "call" and e[1].split("::")[-1] == "position")
            some, none = ve.get("Some", []), ve.get("None", [])
            tr = b.calls_to(lambda f: f.get("name") == "truncate")
            pu = b.calls_to(lambda f: f.get("name") == "generic_push")
            ok = bool(some) and bool(none) and len(tr) == 1 and len(pu) == 1
            if ok:
                s, t = tr[0]
                v = strip_casts(b.prov_operand(t["args"][1], s))
                ok = v[0] == "bin" and v[1].startswith("Add") and strip_casts(v[3]) == ("int", 1, "usize") and \
                    expr_mentions(v[2], lambda x: x[0] == "call" and x[1].split("::")[-1] == "position") and \
                    b.controlled_by(s, some, cleanup=False)
                s2, t2 = pu[0]
                ch = b.prov_operand(t2["args"][1], s2)
                ok = ok and b.controlled_by(s2, none, cleanup=False) and ch[0] == "int" and ch[1] == 0
            ctx.inst(R, b.path, ok, "truncate(position(== 0) + 1) when a NUL exists, otherwise push('\\0') exactly once", where=b.where(), site="cstr end")
        if b.item["name"] in ("alloc_cstr_from_str", "try_alloc_cstr_from_str") and "BumpAllocatorTypedScope" in b.path:
            n += 1
            ve = b.variant_edges(lambda e: e[0] == "call" and e[1].split("::")[-1] == "position")
            some, none = ve.get("Some", []), ve.get("None", [])
            ok = bool(some) and bool(none)
            # Some arm: get_unchecked(..nul + 1)
            gu = [(s, t) for s, t in b.calls() if t["f"].get("name") == "get_unchecked" and b.controlled_by(s, some, cleanup=False)]
            ok = ok and len(gu) == 1
            if ok:
                s, t = gu[0]
                v = b.prov_operand(t["args"][1], s)
                ok = expr_mentions(v, lambda x: x[0] == "bin" and x[1].startswith("Add") and strip_casts(x[3]) == ("int", 1, "usize") and
                                   expr_mentions(x[2], lambda y: y[0] == "call" and y[1].split("::")[-1] == "position"))
            # None arm: allocate len+1, copy len, write 0 at offset len
            al = [(s, t) for s, t in b.calls() if t["f"].get("name") in ("allocate_slice", "try_allocate_slice") and b.controlled_by(s, none, cleanup=False)]
            cp = [c for c in copy_sites(b) if b.controlled_by(c.site, none, cleanup=False)]
            wr = [(s, t) for s, t in b.calls() if t["f"].get("name") == "write" and b.controlled_by(s, none, cleanup=False)]

            def is_len(e):
                e = strip_casts(e)
                return e[0] == "call" and e[1].split("::")[-1] == "len"
            ok2 = len(al) == 1 and len(cp) == 1 and len(wr) == 1
            if ok2:
                av = strip_casts(b.prov_operand(al[0][1]["args"][1], al[0][0]))
                ok2 = av[0] == "bin" and av[1].startswith("Add") and is_len(av[2]) and strip_casts(av[3]) == ("int", 1, "usize")
                ok2 = ok2 and is_len(cp[0].prov("count"))
                wp = strip_casts(b.prov_operand(wr[0][1]["args"][0], wr[0][0]))
                wv = b.prov_operand(wr[0][1]["args"][1], wr[0][0])
                ok2 = ok2 and wp[0] == "call" and wp[1].split("::")[-1] == "add" and is_len(wp[2][1]) and wv[0] == "int" and wv[1] == 0
            # no further way to build the C string: every from_bytes_with_nul_unchecked sits in the Some arm of position(),
            # every other return path goes through the None arm's single write of 0
            fb = [(s_, t_) for s_, t_ in b.calls() if t_["f"].get("name") == "from_bytes_with_nul_unchecked"]
            def from_input(s_, t_):
                a = b.prov_operand(t_["args"][0], s_)
                fresh = expr_mentions(a, lambda x: x[0] == "call" and x[1].split("::")[-1] in ("allocate_slice", "try_allocate_slice"))
                return not fresh
            stray = [s_ for s_, t_ in fb if from_input(s_, t_) and not b.controlled_by(s_, some, cleanup=False)]
            if stray:
                ok = False
            ctx.inst(R, b.path, not stray, "every CStr view of the input is taken in the arm where position() found the first NUL" if not stray else
                     "a CStr is built from the input outside the `position() == Some(first NUL)` arm (e.g. a 'already NUL-terminated' fast "
                     "path): an input with an interior NUL is copied past its first NUL", where=b.where(stray[0]) if stray else b.where(),
                     site="cstr view only at the first NUL")
            ctx.inst(R, b.path, ok and ok2, "NUL present: copies ..nul+1; no NUL: allocates len+1, copies len bytes, writes one 0 at offset len"
                     if ok and ok2 else "the C string is not terminated at the first NUL / by exactly one appended NUL", where=b.where(), site="cstr from str")
    ctx.floor(R, "C-string constructors", n, 3 if "nodefault" in (ctx.config or "") else 4)


DECODERS = re.compile(r"from_utf8_lossy|from_utf16")


def r6_decoder_siblings(ctx, P):
    R = "C09.R6"
    ctx.rule(R, "the decoding constructors (from_utf8_lossy*, from_utf16*) of BumpString and MutBumpString are sibling "
                "implementations of one algorithm: same multiset of callees, and each push is control dependent on the "
                "same decoder queries (valid/invalid/is_empty) in both")
    fam = {}
    for b in P.fn_bodies():
        outer = P.outermost_fn(b.item)
        if outer["id"] != b.item["id"] or not DECODERS.search(b.item["name"]):
            continue
        impl = P.impl_of_item.get(b.item["id"])
        if not impl or impl.get("trait"):
            continue
        for pre, k in (("bump_string::BumpString<", "BumpString"), ("mut_bump_string::MutBumpString<", "MutBumpString")):
            if impl["self_ty"].startswith(pre):
                fam.setdefault(b.item["name"], {})[k] = b

    def skeleton(b):
        c = collections.Counter()
        te, fe = b.cond_edges(lambda e: True if (e[0] == "call" and e[1].split("::")[-1] == "is_empty") else None)
        for s_, t in b.calls():
            f = t["f"]
            if "name" not in f:
                continue
            tag = f["name"]
            if "push" in tag:
                dep = "if-empty" if b.controlled_by(s_, te, cleanup=False) else "if-nonempty" if b.controlled_by(s_, fe, cleanup=False) else "always"
                loop = "loop" if b.can_reach(s_, s_, cleanup=False) else "once"
                tag = f"{tag}[{dep},{loop}]"
            c[tag] += 1
        return c
    n = 0
    for name, d in sorted(fam.items()):
        if len(d) < 2:
            continue
        n += 1
        a, m = skeleton(d["BumpString"]), skeleton(d["MutBumpString"])
        ok = a == m
        ctx.inst(R, name, ok, f"both siblings: {sum(a.values())} calls, identical skeleton" if ok else
                 f"BumpString::{name} and MutBumpString::{name} differ: only in BumpString {dict(a - m)}, only in MutBumpString "
                 f"{dict(m - a)}: the two decoders no longer produce the same text for the same bytes",
                 where=d["MutBumpString"].where(), site="decoder siblings agree")
    ctx.floor(R, "decoder sibling pairs", n, 2)


def r7_split_off_checks_both_ends(ctx, P):
    R = "C09.R7"
    ctx.rule(R, "string split_off: on every returning path each end of the range was either checked by assert_char_boundary or "
                "is known to be 0 / len (always boundaries) - also for an empty range, like String::drain(k..k)")
    n = 0
    for b in P.fn_bodies():
        if b.item["name"] != "split_off":
            continue
        impl = P.impl_of_item.get(b.item["id"])
        if not impl or not (impl["self_ty"].startswith("fixed_bump_string::FixedBumpString") or impl["self_ty"].endswith(", str>")):
            continue
        acb = b.calls_to(lambda f: f.get("name") == "assert_char_boundary")
        if not ctx.need(bool(acb), R, f"assert_char_boundary calls in {b.path}"):
            continue

        def is_idx(e, which):
            e = strip_casts(e)
            return e[0] == "field" and e[2] == which and expr_mentions(e, lambda x: x[0] == "call" and x[1].split("::")[-1] == "range")
        for which in ("start", "end"):
            n += 1
            blocks = [s_.bb for s_, t in acb if is_idx(b.prov_operand(t["args"][1], s_), which)]

            def trivially_boundary(e, which=which):
                if e[0] == "bin" and e[1] == "Eq":
                    for x, y in ((e[2], e[3]), (e[3], e[2])):
                        if is_idx(x, which):
                            y = strip_casts(y)
                            if which == "start" and y[0] == "int" and y[1] == 0:
                                return True
                            if which == "end" and y[0] == "call" and y[1].split("::")[-1] == "len":
                                return True
                return None
            te, fe = b.cond_edges(trivially_boundary)
            reached = b.reach([0], removed_blocks=blocks, removed_edges=te, cleanup=False)
            ok = bool(blocks) and RET not in reached
            ctx.inst(R, b.path, ok, f"`{which}` is boundary-checked (or 0/len) on every returning path" if ok else
                     f"a path returns without checking that `{which}` lies on a character boundary (for instance the empty-range "
                     "shortcut): split_off(k..k) with k inside a character returns instead of panicking like String::drain(k..k)",
                     where=b.where(), site=f"{which} checked on all paths")
    ctx.floor(R, "range ends of string split_off implementations", n, 4)


from . import stale


def r11_formatting_delegates(ctx, P, R="C09.R11"):
    ctx.rule(R, "formatting gives String's output: Display / Debug of the string types delegate to `<str as Display / Debug>::fmt` "
                "(which honours width, fill, alignment and precision; Debug quotes and escapes) - writing the text with write_str / "
                "write_fmt instead drops the formatter's flags")
    n = 0
    for b in P.fn_bodies():
        if b.item["name"] != "fmt":
            continue
        m = re.match(r"<(bump_string::BumpString|mut_bump_string::MutBumpString|fixed_bump_string::FixedBumpString)<.*> as core::fmt::(Display|Debug)>::fmt$", b.path)
        if not m:
            continue
        n += 1
        tr = m.group(2)
        calls = [t["f"] for _, t in b.calls()]
        deleg = [f for f in calls if f.get("path") == f"core::fmt::{tr}::fmt" and (f.get("res") or {}).get("path") == f"<str as core::fmt::{tr}>::fmt"]
        other = [f.get("path") for f in calls if f not in deleg and f.get("name") not in ("as_str", "deref")]
        ok = len(deleg) == 1 and not other
        if tr == "Display" and not deleg and other == ["core::fmt::Formatter::<'a>::pad"]:
            ok = True   # `f.pad(s)` is what <str as Display>::fmt does
        ctx.inst(R, b.path, ok, f"delegates to <str as {tr}>::fmt" if ok else
                 f"does not (only) delegate to <str as {tr}>::fmt (other calls: {other}): `format!(\"{{:>8}}\", s)` and friends differ from String",
                 where=b.where(), site=f"{tr} delegates to str")
    ctx.floor(R, "Display/Debug impls of the string types", n, 6)


def run(ctx, progs):
    ctx.assume("core::str::from_utf8, str slicing and char::encode_utf8 of the standard library are correct")
    for lab, P in progs:
        ctx.config = lab
        r1_boundaries(ctx, P)
        r2_validated(ctx, P)
        r3_guards(ctx, P)
        r4_cstr(ctx, P)
        r6_decoder_siblings(ctx, P)
        r7_split_off_checks_both_ends(ctx, P)
        from . import c16
        c16.r4_rotation_siblings(ctx, P, "C09.R8")
        stale.rule(ctx, P, "C09.R5", ("bump_string::BumpString<", "mut_bump_string::MutBumpString<"), 6, 8)
        from . import twins
        twins.rule(ctx, P, "C09.R9", "bump_string::BumpString<", "mut_bump_string::MutBumpString<", 8 if "nodefault" in (ctx.config or "") else 12)
        c16.r1_partitions(ctx, P, R="C09.R10")
        r11_formatting_delegates(ctx, P)
    ctx.config = None
