"""C19 — a BumpPool hands every arena to one user at a time (ownership protocol; schedules discharged by typing)."""
import re
from ..ir import show, phi_alts, walk_expr, expr_mentions, Site, RET, UNW
from .common import *

EXPLANATION = (
    "The schedule quantifier is discharged by ownership typing, which is static. C19.R1: the idle stack (field `bumps`) is "
    "only reachable through Mutex::lock (shared) or Mutex::get_mut (&mut self); the pool module calls no unsafe function "
    "other than its two lifetime transmutes and ManuallyDrop::take. C19.R2: a Bump leaves the vector only by Vec::pop (a "
    "move); the guard stores it by value in ManuallyDrop, has no Clone/Copy impl, is constructed only in the get family; "
    "the only ManuallyDrop::take is in the guard's Drop and every returning path after it pushes the arena back under the "
    "lock. C19.R3: every Bump constructor call in the get family is control dependent on pop() having returned None "
    "(reuse before create). C19.R5: pool reset/reset_to_start iterate bumps() and call the same-named Bump method. "
    "C19.R4 (rustc as oracle, see C04's corpus): allocations through a guard cannot outlive pool.reset()/drop; "
    "BumpPool<A: !Send> is not Sync, Bump<A: !Send> is not Send. Not decided: fairness/timing; 'never exceeds the peak' "
    "as a number. C19.R6: every LockResult of the pool's mutex is recovered with PoisonError::into_inner (a panicking getter may poison it).")

POOL_ADT = "bump_pool::BumpPool"
GUARD_ADT = "bump_pool::BumpPoolGuard"
GET_FAMILY = {"get", "try_get", "generic_get_with_size", "generic_get_with_capacity"}
BUMP_CTORS = {"new_in", "try_new_in", "generic_with_size_in", "generic_with_capacity_in", "with_size_in", "with_capacity_in",
              "try_with_size_in", "try_with_capacity_in", "new", "try_new", "generic_new_in"}


def pool_bodies(P):
    return [b for b in P.fn_bodies() if (b.item.get("file") or "").endswith("bump_pool.rs")]


def r1_lock_discipline(ctx, P):
    R = "C19.R1"
    ctx.rule(R, "field `bumps` is reached only via Mutex::lock / Mutex::get_mut; no unsafe call in the pool module beyond the "
                "lifetime transmutes and ManuallyDrop::take")
    bodies = pool_bodies(P)
    if not ctx.need(len(bodies) >= 12, R, "function bodies of src/bump_pool.rs"):
        return
    n = 0
    for b in P.fn_bodies():
        for s, t in b.calls():
            for i, a in enumerate(t["args"]):
                e = b.prov_operand(a, s)
                d = strip_ref(e)
                if d[0] == "field" and d[2] == "bumps" and len(d) > 3 and d[3] == POOL_ADT:
                    p = t["f"].get("path", "?")
                    ok = p in ("std::sync::Mutex::<T>::lock", "std::sync::Mutex::<T>::get_mut",
                               "std::sync::poison::mutex::Mutex::<T>::lock", "std::sync::poison::mutex::Mutex::<T>::get_mut") \
                        or p.startswith("core::fmt::") or t.get("macro")
                    if p.startswith("core::fmt::") or t.get("macro"):
                        continue
                    n += 1
                    ctx.inst(R, b.path, ok, f"`bumps` is passed to {p}" + ("" if ok else " — the idle stack must only be reached "
                             "through the mutex (lock / get_mut)"), where=b.where(s), site=f"bumps -> {p.split('::')[-1]}")
    ctx.floor(R, "accesses to the idle stack", n, 2)
    # lock() is the only caller of Mutex::lock; bumps() the only caller of get_mut and takes &mut self
    for b in bodies:
        for s, t in b.calls():
            p = t["f"].get("path", "")
            if p.endswith("Mutex::<T>::get_mut"):
                ok = b.locals[1]["ty"].startswith("&mut bump_pool::BumpPool<")
                ctx.inst(R, b.path, ok, "Mutex::get_mut is used with exclusive access to the pool (&mut self)", where=b.where(s), site="get_mut needs &mut")
    allowed_unsafe = {"transmute_lifetime", "transmute_lifetime_mut", "take"}
    nun = 0
    for b in bodies:
        for s, t in b.calls():
            f = t["f"]
            if f.get("unsafe") and not t.get("macro"):
                nun += 1
                nm = f.get("name")
                ok = nm in allowed_unsafe and (nm != "take" or f["path"].startswith("core::mem::ManuallyDrop"))
                ctx.inst(R, b.path, ok, f"unsafe call {f['path']}" + ("" if ok else " is not one of the tabled unsafe operations of "
                         "the pool (lifetime transmutes, ManuallyDrop::take)"), where=b.where(s), site=f"unsafe {nm}")
        for s, st in b.assigns():
            r = st["r"]
            if r["k"] == "cast" and r["ck"].startswith("Transmute"):
                ok = b.item["name"] in ("transmute_lifetime", "transmute_lifetime_mut")
                ctx.inst(R, b.path, ok, "transmute" + ("" if ok else " outside the two lifetime-only helpers"), where=b.where(s), site="transmute")
    ctx.floor(R, "unsafe calls in the pool module (positive control)", nun, 3)


def r2_one_owner(ctx, P, R="C19.R2"):
    ctx.rule(R, "arenas move: pop -> guard (ManuallyDrop, no Clone) -> take in Drop -> push; guard constructed only in the get family")
    # guard impls
    bad_impls = [im for im in P.facts["impls"] if im["self_ty"].startswith(GUARD_ADT + "<") and
                 (im.get("trait") in ("core::clone::Clone", "core::marker::Copy"))]
    ctx.inst(R, "BumpPoolGuard", not bad_impls, "BumpPoolGuard has no Clone/Copy impl" if not bad_impls else
             "BumpPoolGuard is Clone/Copy: two guards could own one arena", site="no Clone")
    bump_clone = [im for im in P.facts["impls"] if im["self_ty"].startswith("bump::Bump<") and im.get("trait") in
                  ("core::clone::Clone", "core::marker::Copy")]
    ctx.inst(R, "Bump", not bump_clone, "Bump has no Clone/Copy impl", site="Bump no Clone")
    # guard aggregates
    n = 0
    for b in P.fn_bodies():
        for s, st in b.assigns():
            r = st["r"]
            if r["k"] == "agg" and r.get("adt") == GUARD_ADT:
                n += 1
                ok = b.item["name"] in GET_FAMILY and (b.item.get("file") or "").endswith("bump_pool.rs")
                fn = r["fnames"]
                bv = b.prov_operand(r["fields"][fn.index("bump")], s)
                srcs = phi_alts(bv)
                good = True
                for a in srcs:
                    is_pop = expr_mentions(a, lambda x: x[0] == "call" and x[1].endswith("Vec::<T, A>::pop"))
                    is_new = expr_mentions(a, lambda x: x[0] == "call" and x[1].split("::")[-1] in BUMP_CTORS and "bump::Bump" in x[1])
                    good = good and (is_pop or is_new)
                ctx.inst(R, b.path, ok and good, f"guard constructed in the get family from {[show(a)[:60] for a in srcs]}" if ok and good
                         else f"BumpPoolGuard constructed from {show(bv)[:120]} in {b.path}: an arena that is not freshly popped/created "
                         "could be owned twice", where=b.where(s), site="guard construction")
    ctx.floor(R, "guard constructions", n, 3)
    # Vec operations on the locked stack
    for b in pool_bodies(P):
        for s, t in b.calls():
            p = t["f"].get("path", "")
            if "vec::Vec::<" in p and t["args"]:
                recv = b.prov_operand(t["args"][0], s)
                if expr_mentions(recv, lambda x: x[0] == "call" and x[1].split("::")[-1] == "lock"):
                    nm = t["f"]["name"]
                    ok = nm in ("pop", "push")
                    ctx.inst(R, b.path, ok, f"locked stack: Vec::{nm}" + ("" if ok else " — arenas may leave/enter the idle stack "
                             "only by pop/push (moves)"), where=b.where(s), site=f"stack op {nm}")
    # take only in Drop, followed by push of the taken value
    takes = []
    for b in P.fn_bodies():
        for s, t in b.calls():
            if t["f"].get("path", "").startswith("core::mem::ManuallyDrop::<T>::take") and \
                    any("bump::Bump<" in a.get("s", "") for a in t["f"].get("args", [])):
                takes.append((b, s, t))
    ctx.need(len(takes) >= 1, R, "ManuallyDrop::take of a Bump")
    for b, s, t in takes:
        ok = b.item["name"] == "drop" and GUARD_ADT in b.path
        pushes = [(ps, pt) for ps, pt in b.calls() if pt["f"].get("path", "").endswith("Vec::<T, A>::push")]
        okp = False
        if pushes:
            okp, _ = b.must_pass(s, [ps.bb for ps, _ in pushes], exits=(RET,), cleanup=False)
            for ps, pt in pushes:
                v = b.prov_operand(pt["args"][1], ps)
                okp = okp and expr_mentions(v, lambda x: x[0] == "call" and x[1].startswith("core::mem::ManuallyDrop::<T>::take"))
                recv = b.prov_operand(pt["args"][0], ps)
                okp = okp and expr_mentions(recv, lambda x: x[0] == "call" and x[1].split("::")[-1] == "lock")
        if ok:
            oku, _ = b.must_pass(None, [s.bb], exits=(RET,), cleanup=False, from_edge=0)
            ctx.inst(R, b.path, oku, "the guard's drop hands its arena back on every path" if oku else
                     "a path through the guard's drop returns without taking the arena out of the guard (e.g. when the mutex is "
                     "poisoned): the arena is neither pushed back nor dropped - its chunks are never released", where=b.where(s),
                     site="drop always returns the arena")
        ctx.inst(R, b.path, ok and okp, "guard drop: take is followed on every returning path by push(taken) under the lock"
                 if ok and okp else "ManuallyDrop::take of the arena outside the guard's Drop, or not followed by push under the lock: "
                 "the arena is lost or owned twice", where=b.where(s), site="take -> push")


def r3_reuse_before_create(ctx, P):
    R = "C19.R3"
    ctx.rule(R, "every Bump constructor call in the get family is control dependent on pop() == None")
    n = 0
    for b in pool_bodies(P):
        if b.item["name"] not in GET_FAMILY:
            continue
        ctors = b.calls_to(lambda f: f.get("name") in BUMP_CTORS and f["path"].startswith("bump::Bump::"))
        ve = b.variant_edges(lambda e: e[0] == "call" and e[1].endswith("Vec::<T, A>::pop"))
        none_e = ve.get("None", [])
        ctx.need(bool(ctors), R, f"{b.path}: a Bump constructor call")
        for s, t in ctors:
            n += 1
            ok = b.controlled_by(s, none_e, cleanup=False)
            ctx.inst(R, b.path, ok, f"{t['f']['name']} is reached only when the idle stack was empty (pop() returned None)" if ok else
                     f"{t['f']['name']} can run although an idle arena exists: more arenas are created than the peak of live guards",
                     where=b.where(s), site=f"{t['f']['name']} after pop None")
    ctx.floor(R, "constructor calls in the get family", n, 3)


def r5_pool_wide(ctx, P):
    R = "C19.R5"
    ctx.rule(R, "BumpPool::reset / reset_to_start call the same-named Bump method on every element of bumps()")
    for nm in ("reset", "reset_to_start"):
        bs = [b for b in pool_bodies(P) if b.item["name"] == nm and "BumpPool" in b.path]
        if not ctx.need(len(bs) == 1, R, f"BumpPool::{nm}"):
            continue
        b = bs[0]
        calls = [t["f"] for s, t in b.calls()]
        bump_calls = [f for f in calls if f.get("path", "").startswith("bump::Bump::<A, S>::")]
        ok = [f["name"] for f in bump_calls] == [nm] and any(f.get("name") == "bumps" for f in calls)
        # the call sits in the iteration: reachable from itself (loop) and its receiver is the iterator's item
        ctx.inst(R, b.path, ok, f"iterates bumps() and calls Bump::{nm}" if ok else f"calls {[f['path'] for f in bump_calls]} on the arenas",
                 where=b.where(), site="forwards")
        s0 = [s for s, t in b.calls() if t["f"].get("name") == nm and t["f"].get("path", "").startswith("bump::Bump")]
        if s0:
            okl = b.can_reach(s0[0], s0[0])
            recv = b.prov_operand(b.term(s0[0].bb)["args"][0], s0[0])
            okl = okl and expr_mentions(recv, lambda x: x[0] == "call" and x[1].endswith("Iterator::next"))
            ctx.inst(R, b.path, okl, "the call is applied to each element of the iteration", where=b.where(s0[0]), site="in loop")


def r6_poison_recovered(ctx, P, R="C19.R6"):
    from . import flow
    ctx.rule(R, "the pool survives a panic while its lock is held (a panicking getter that fails while it creates an arena unwinds with the "
                "guard alive and poisons the mutex): every LockResult of the idle stack's mutex is recovered with "
                "`unwrap_or_else(PoisonError::into_inner)`, never unwrap/expect-ed - otherwise every later try_get*, get* and the drop of "
                "an outstanding guard panic and the guard's arena is leaked")
    n = 0
    for b in pool_bodies(P):
        lock_dests = {t["dest"]["l"]: (s, t) for s, t in b.calls()
                      if t["f"].get("path", "").split("::")[-1] in ("lock", "get_mut", "into_inner", "try_lock") and "Mutex" in t["f"].get("path", "")}
        for l, (s, t) in lock_dests.items():
            n += 1
            users = [(us, ut) for us, ut in b.calls() if any(flow.op_local(a) == l for a in ut["args"])]
            ok = len(users) == 1 and users[0][1]["f"].get("path") == "core::result::Result::<T, E>::unwrap_or_else" and \
                any("PoisonError" in (a.get("s") or "") and "into_inner" in (a.get("s") or "") for a in users[0][1]["f"].get("args", [])[2:])
            if not users:
                # written as a `match`: the Err arm must recover the guard, and nothing in the body may unwrap
                names = [ut["f"].get("path", "") for _, ut in b.calls()]
                ok = any(n.endswith("PoisonError::<T>::into_inner") for n in names) and \
                    not any(n.split("::")[-1] in ("unwrap", "expect", "unwrap_unchecked") for n in names)
            ctx.inst(R, b.path, ok, "poisoning is recovered (PoisonError::into_inner)" if ok else
                     f"the LockResult of {t['f']['path'].split('::')[-1]} goes to {[u[1]['f'].get('path') for u in users]}: a poisoned mutex "
                     "(a getter panicked on capacity overflow while holding the lock) makes every later use of the pool panic",
                     where=b.where(s), site=f"{t['f']['name']} result recovered")
    ctx.floor(R, "LockResults of the pool's mutex", n, 2)


def run(ctx, progs):
    ctx.assume("rustc's ownership typing: a value moved out of a Vec by pop() has a single owner; Mutex gives exclusive access")
    ctx.assume("std::sync::Mutex and alloc::vec::Vec behave as documented")
    any_std = False
    for lab, P in progs:
        if not any((b.item.get("file") or "").endswith("bump_pool.rs") for b in P.fn_bodies()):
            ctx.note(f"fact base {lab} has no BumpPool (feature std disabled): skipped")
            continue
        any_std = True
        ctx.config = lab
        r1_lock_discipline(ctx, P)
        r2_one_owner(ctx, P)
        r3_reuse_before_create(ctx, P)
        r5_pool_wide(ctx, P)
        r6_poison_recovered(ctx, P)
    ctx.config = None
    ctx.need(any_std, "C19.R1", "a fact base with the std feature (BumpPool)")
    # the lifetime / thread-safety clauses: rustc decides them on the pool part of the witness corpus
    from . import c04
    try:
        c04.run_pool_subset(ctx, ctx.tier, R="C19.W")
    except c04.HarnessBroken as e:
        raise RuntimeError(str(e))
