"""C18 — changing the minimum alignment keeps the position aligned and data intact."""
import re
from ..ir import show, phi_alts, walk_expr, expr_mentions, Site, RET, UNW
from .common import *
from .poswrite import *
from . import c03

EXPLANATION = (
    "Static rules over polymorphic MIR. C18.R1: raising the minimum alignment aligns before exposing the stricter type: in "
    "aligned (>= arm), scoped_aligned, with_settings and borrow_mut_with_settings (Bump and BumpScope) the aligning call "
    "dominates the transmute that produces the new type, which dominates the user closure. C18.R2: lowering re-aligns on "
    "every exit: in aligned (< arm) a BumpAlignGuard is constructed before the closure and its drop lies on the return "
    "path and on the unwind path of the closure call; the guard's drop aligns with the outer S::MIN_ALIGN. C18.R3: "
    "scoped_aligned takes its checkpoint before aligning (exact restore). C18.R4: run-time requirements of conversions: "
    "ensure_satisfies_settings reaches panic::claimed exactly under !NewS::CLAIMABLE && is_claimed and panic::unallocated "
    "exactly under NewS::GUARANTEED_ALLOCATED && is_unallocated; the shared-borrow variant performs no position write; "
    "every ensure_* body const-asserts UP equality, the non-lowering/equality of MIN_ALIGN etc. (compile-time rejections "
    "are additionally exercised as rustc witnesses in C04's corpus). Not decided: numbers; disjointness across regions (C01).")

TRANSMUTES = {"transmute_mut", "transmute_ref", "transmute_value", "transmute"}
ALIGN_CALLS = {"align", "align_to", "ensure_satisfies_settings", "ensure_scope_satisfies_settings",
               "ensure_satisfies_settings_for_borrow_mut"}


def r1_raise(ctx, P):
    R = "C18.R1"
    ctx.rule(R, "raise: the aligning call dominates the type-changing transmute, which dominates the closure call")
    targets = []
    for b in P.fn_bodies():
        nm = b.item["name"]
        if nm in ("with_settings", "borrow_mut_with_settings") and re.match(r"bump(_scope)?::Bump(Scope)?::<", b.path):
            targets.append((b, False))
        if nm == "scoped_aligned" and b.path.startswith("traits::bump_allocator::BumpAllocator::"):
            targets.append((b, True))
        if nm == "aligned" and b.path.startswith("<bump_scope::BumpScope<"):
            targets.append((b, True))
    ctx.floor(R, "alignment-raising entry points", len(targets), 6)
    for b, has_closure in targets:
        trs = [(s, t) for s, t in b.calls() if t["f"].get("name") in TRANSMUTES] + \
              [(s, None) for s, st in b.assigns() if st["r"]["k"] == "cast" and st["r"]["ck"].startswith("Transmute")]
        als = [(s, t) for s, t in b.calls() if t["f"].get("name") in ALIGN_CALLS]
        users = [(s, t) for s, t in b.calls() if c03.is_user_fn_call(t)]
        if b.item["name"] == "aligned":
            # only the >= arm: transmutes not controlled by the `<` test
            def lt(e):
                return True if (e[0] == "bin" and e[1] == "Lt" and expr_mentions(e, lambda x: x[0] == "assoc_const" and x[2] == "MIN_ALIGN")) else None
            te, fe = b.cond_edges(lt)
            trs = [(s, t) for s, t in trs if b.controlled_by(s, fe, cleanup=False)]
            users = [(s, t) for s, t in users if b.controlled_by(s, fe, cleanup=False)]
            ctx.need(bool(te) and bool(fe), R, "aligned: NEW_MIN_ALIGN < S::MIN_ALIGN test")
        if not ctx.need(bool(trs) and bool(als), R, f"{b.path}: aligning call and transmute"):
            continue
        for s, t in trs:
            ok = any(b.dominates(a, s) for a, _ in als)
            ctx.inst(R, b.path, ok, "the position is aligned (align/ensure_*) before the stricter type is produced" if ok else
                     "the stricter-aligned type is produced without the position having been aligned first",
                     where=b.where(s), site="align before transmute")
        if has_closure:
            for us, ut in users:
                ok = any(b.dominates(s, us) for s, _ in trs) and any(b.dominates(a, us) for a, _ in als)
                ctx.inst(R, b.path, ok, "the closure runs after align and transmute", where=b.where(us), site="closure after align")


def r2_lower(ctx, P):
    R = "C18.R2"
    ctx.rule(R, "lower: BumpAlignGuard before the closure, dropped on return and on unwind; its drop aligns with the outer MIN_ALIGN")
    bs = [b for b in P.fn_bodies() if b.item["name"] == "aligned" and b.path.startswith("<bump_scope::BumpScope<")]
    if ctx.need(len(bs) == 1, R, "BumpScope::aligned"):
        b = bs[0]
        def lt(e):
            return True if (e[0] == "bin" and e[1] == "Lt" and expr_mentions(e, lambda x: x[0] == "assoc_const" and x[2] == "MIN_ALIGN")) else None
        te, fe = b.cond_edges(lt)
        users = [(s, t) for s, t in b.calls() if c03.is_user_fn_call(t) and b.controlled_by(s, te, cleanup=False)]
        if ctx.need(len(users) == 1, R, "aligned: closure call in the lowering arm"):
            us, ut = users[0]
            gs = [(s, t) for s, t in b.calls() if t["f"].get("name") == "new" and "BumpAlignGuard" in t["f"]["path"]]
            ok = any(b.dominates(s, us) for s, _ in gs)
            ctx.inst(R, b.path, ok, "the align guard is constructed before the closure runs", where=b.where(us), site="guard before callback")
            if ok:
                gl = gs[0][1]["dest"]["l"]
                dblocks = [s.bb for s, t in b.drops() if t["p"]["l"] == gl and not t["p"]["p"]]
                okn, _ = b.must_pass(us, dblocks, exits=(RET,), cleanup=False)
                ctx.inst(R, b.path, okn, "return path after the closure passes the guard's drop (position re-aligned)" if okn else
                         "a return path skips the align guard's drop", where=b.where(us), site="guard dropped on return")
                must, may, ends = b.unwind_walk(us)
                oku = any(d[0] == gl and d[1] == () for d in must)
                ctx.inst(R, b.path, oku, "unwinding out of the closure drops the guard (position re-aligned after a panic)" if oku else
                         "unwinding out of the closure does not drop the align guard: the outer scope is left mis-aligned",
                         where=b.where(us), site="guard dropped on unwind")
    d = [b for b in P.fn_bodies() if b.item["name"] == "drop" and "BumpAlignGuard" in b.path]
    if ctx.need(len(d) == 1, R, "Drop for BumpAlignGuard"):
        b = d[0]
        D = PosDiscipline(P)
        ws = [pw for pw in D.external_sites() if pw.body.id == b.id]
        ok = len(ws) == 1
        if ok:
            v = strip_casts(ws[0].value())
            al = aligner_of(v)
            ok = bool(al) and is_min_align(al[2]) and al[0] == "align_pos" and \
                expr_mentions(al[1], lambda x: x[0] == "call" and x[1].split("::")[-1] == "pos")
            up = v[2][0] if ok else None
            ok = ok and up[0] == "assoc_const" and up[2] == "UP"
        ctx.inst(R, b.path, ok, f"guard drop writes {show(ws[0].value()) if ws else '?'} (current position aligned to the outer MIN_ALIGN)",
                 where=b.where(), site="drop aligns")
        if ws:
            recv = b.prov_operand(ws[0].term["args"][0], ws[0].site)
            okc = expr_mentions(recv, lambda x: x[0] == "field" and x[2] == "chunk" and len(x) > 3 and str(x[3]).endswith("RawBump"))
            ctx.inst(R, b.path, okc, "the chunk that is re-aligned is read from the scope's current-chunk cell when the guard drops "
                     "(the closure may have moved to another chunk)" if okc else
                     f"the guard re-aligns {show(recv)[:80]}, which is not the scope's current chunk at drop time: if the closure "
                     "switched chunks the current position stays unaligned", where=b.where(ws[0].site), site="drop aligns the current chunk")


def r3_scoped_aligned(ctx, P):
    R = "C18.R3"
    ctx.rule(R, "scoped_aligned: scope_guard() before align() before the closure (restores the exact entry position)")
    bs = [b for b in P.fn_bodies() if b.item["name"] == "scoped_aligned" and b.path.startswith("traits::bump_allocator::BumpAllocator::")]
    if ctx.need(len(bs) == 1, R, "BumpAllocator::scoped_aligned"):
        b = bs[0]
        gs = b.calls_to(lambda f: f.get("name") == "scope_guard")
        als = b.calls_to(lambda f: f.get("name") in ("align", "align_to"))
        us = [(s, t) for s, t in b.calls() if c03.is_user_fn_call(t)]
        ok = bool(gs) and bool(als) and bool(us) and all(b.dominates(gs[0][0], a) for a, _ in als) and \
            all(b.dominates(a, u) for a, _ in als for u, _ in us)
        ctx.inst(R, b.path, ok, "scope_guard() < align() < closure in dominance order" if ok else
                 "the checkpoint is not taken before aligning", where=b.where(), site="order")


def setting_of(e, name, owner_not="S"):
    """assoc const NAME of a settings type other than the body's own S (i.e. NewS)"""
    return e[0] == "assoc_const" and e[2] == name and e[1] == "settings::BumpAllocatorSettings" and (e[3] and e[3][0] != owner_not)


def r4_conversions(ctx, P, R="C18.R4"):
    ctx.rule(R, "conversion requirements: panics exactly under the stated conditions; shared-borrow conversion writes nothing; "
                "const assertions present")
    b = P.find_body("raw_bump::RawBump::<A, S>::ensure_satisfies_settings")
    if ctx.need(b is not None, R, "RawBump::ensure_satisfies_settings"):
        for panic_name, setting, polarity, state in (("claimed", "CLAIMABLE", False, "is_claimed"),
                                                     ("unallocated", "GUARANTEED_ALLOCATED", True, "is_unallocated")):
            ps = b.calls_to(lambda f: f["path"] == "error_behavior::panic::" + panic_name)
            if not ctx.need(len(ps) == 1, R, f"ensure_satisfies_settings: panic::{panic_name} call"):
                continue
            s, t = ps[0]
            te1, fe1 = b.cond_edges(lambda e: True if setting_of(e, setting) else None)
            te2, fe2 = b.cond_edges(lambda e: True if (e[0] == "call" and e[1].split("::")[-1] == state) else None)
            e1 = te1 if polarity else fe1
            ok = b.controlled_by(s, e1, cleanup=False) and b.controlled_by(s, te2, cleanup=False)
            # exactly: from the conjunction's true edges every path reaches the panic (no other way out)
            reach_ok = True
            for (bb, tgt, lab) in te2:
                if b.controlled_by(b.term_site(bb), e1, cleanup=False) or bb in [x[0] for x in e1]:
                    g, _ = b.must_pass(None, [s.bb], exits=(RET,), cleanup=False, from_edge=tgt)
                    reach_ok = reach_ok and g
            ctx.inst(R, b.path, ok and reach_ok,
                     f"panic::{panic_name} is reached exactly when {'' if polarity else '!'}NewS::{setting} && {state}()" if ok and reach_ok else
                     f"panic::{panic_name} is not guarded by {'' if polarity else '!'}NewS::{setting} && {state}() (or that condition can pass "
                     "without panicking)", where=b.where(s), site=f"panic::{panic_name} condition")
    # shared-borrow variant: no position write reachable
    D = PosDiscipline(P)
    b = P.find_body("raw_bump::RawBump::<A, S>::ensure_satisfies_settings_for_borrow")
    if ctx.need(b is not None, R, "ensure_satisfies_settings_for_borrow"):
        parents = P.reach_fns([b.id])
        hit = [st for st in parents if st[0] in D.family]
        ctx.inst(R, b.path, not hit, "the shared-borrow conversion performs no position write" if not hit else
                 "the shared-borrow conversion can move the position through a shared reference", where=b.where(), site="no write")
    # const assertions (post-mono): each ensure_* body references an inline const block; its assertions are listed
    want = {
        "ensure_satisfies_settings": [("UP", "Eq")],
        "ensure_scope_satisfies_settings": [("UP", "Eq"), ("MIN_ALIGN", "Ge")],
        "ensure_satisfies_settings_for_borrow": [("UP", "Eq"), ("MIN_ALIGN", "Eq"), ("CLAIMABLE", "Eq"), ("GUARANTEED_ALLOCATED", "Le")],
        "ensure_satisfies_settings_for_borrow_mut": [("UP", "Eq"), ("MIN_ALIGN", "Ge"), ("CLAIMABLE", "Eq"), ("GUARANTEED_ALLOCATED", "Eq")],
    }
    for nm, asserts in want.items():
        b = P.find_body("raw_bump::RawBump::<A, S>::" + nm)
        if not ctx.need(b is not None, R, f"RawBump::{nm}"):
            continue
        ics = [i for i in P.facts["items"] if i["kind"] == "InlineConst" and i.get("parent") == b.id]
        used = [i for i in ics if any(st["k"] == "assign" and st["r"]["k"] == "use" and st["r"]["o"].get("k") == "c" and
                                      st["r"]["o"]["c"].get("id") == i["id"] for blk in b.blocks for st in blk["s"]) and
                P.body(i["id"]) is not None]
        # the const block is evaluated on entry (its use dominates every return)
        if not ctx.need(len(used) == 1, R, f"{nm}: inline const assertion block evaluated by the body"):
            continue
        cb = P.body(used[0]["id"])
        got = set()
        ok_div = True
        for bb, t in cb.switches():
            e = cb.prov_operand(t["d"], cb.term_site(bb))
            if e[0] == "bin" and e[2][0] == "assoc_const" and e[3][0] == "assoc_const" and e[2][2] == e[3][2] and \
                    e[2][3] and e[3][3] and e[2][3][0] != "S" and e[3][3][0] == "S":
                got.add((e[2][2], e[1]))
                # the false edge must not be able to return (assert! failure -> const-eval error E0080)
                for tgt, lab in cb.succs(bb):
                    if lab == "sw:0":
                        reach = cb.reach([tgt], cleanup=False)
                        if RET in reach:
                            ok_div = False
        missing = [a for a in asserts if a not in got]
        ctx.inst(R, b.path, not missing and ok_div,
                 f"compile-time assertions {sorted(got)} (NewS vs S)" + ("" if not missing else f"; MISSING {missing}: a conversion that "
                 "weakens a guarantee would compile") + ("" if ok_div else "; a failed assertion can still return"),
                 where=cb.where(), site="const assertions")
    # every mutable conversion aligns on every returning path
    for nm in ("ensure_satisfies_settings", "ensure_scope_satisfies_settings", "ensure_satisfies_settings_for_borrow_mut"):
        b = P.find_body("raw_bump::RawBump::<A, S>::" + nm)
        if b is None:
            continue
        als = b.calls_to(lambda f: f.get("name") == "align_to")
        ok = bool(als) and b.must_pass(None, [s.bb for s, _ in als], exits=(RET,), cleanup=False, from_edge=0)[0]
        if ok:
            ga = [a["s"] for a in als[0][1]["f"]["args"] if a["k"] == "ty"]
            ok = any("NewS" in g and "MinimumAlignment" in g for g in ga)
        ctx.inst(R, b.path, ok, "every returning path aligns the position to NewS::MinimumAlignment" if ok else
                 "a returning path of the conversion does not align the position to the new minimum alignment", where=b.where(), site="aligns")
    ctx.note("the const assertions are read from the inline-const MIR here; that rustc actually rejects violating conversions "
             "is exercised by the conversion witnesses of C04's corpus (--emit=obj)")


def r5_by_value(ctx, P, R="C18.R5"):
    ctx.rule(R, "by_value / try_by_value: make_allocated() succeeds before the raw handle is copied (the owned scope shares the "
                "parent's real chunk, never a dummy one); make_allocated itself answers Claimed with E::claimed(), allocates in the "
                "Unallocated arm and stores that chunk")
    n = 0
    for b in P.fn_bodies():
        if b.item["name"] not in ("by_value", "try_by_value") or not b.path.startswith("bump_scope::BumpScope::<"):
            continue
        n += 1
        mk = b.calls_to(lambda f: f.get("name") == "make_allocated")
        cl = [(s_, t) for s_, t in b.calls() if t["f"].get("name") == "clone" and "RawBump" in (t["f"].get("res", {}) or {}).get("path", t["f"].get("path", ""))]
        if not cl:
            cl = [(s_, t) for s_, t in b.calls() if t["f"].get("name") == "clone"]
        ok = len(mk) == 1 and bool(cl) and all(b.dominates(mk[0][0], s_) for s_, _ in cl)
        ctx.inst(R, b.path, ok, "make_allocated() dominates the copy of the raw handle" if ok else
                 "the raw handle is copied without a preceding make_allocated() (or before it): on a still unallocated arena the owned "
                 "scope keeps the dummy chunk - it allocates chunks the parent never sees or frees, and with_settings can declare it "
                 "'guaranteed allocated'", where=b.where(), site="allocated before copy")
        if mk and b.item["name"] == "try_by_value":
            ve = b.variant_edges(lambda e: e[0] == "call" and e[1].split("::")[-1] in ("branch", "make_allocated"))
            oks = ve.get("Continue", []) + ve.get("Ok", [])
            ok2 = bool(oks) and all(b.controlled_by(s_, oks, cleanup=False) for s_, _ in cl)
            ctx.inst(R, b.path, ok2, "the copy happens only after make_allocated() returned Ok", where=b.where(), site="copy on the Ok edge")
    ctx.floor(R, "by_value conversions", n, 1 if "nodefault" in (ctx.config or "") else 2)
    b = P.find_body("raw_bump::RawBump::<A, S>::make_allocated")
    if ctx.need(b is not None, R, "RawBump::make_allocated"):
        ve = b.variant_edges(lambda e: e[0] == "call" and e[1].split("::")[-1] == "classify")
        cl_e = ve.get("Claimed", [])
        errs = [(s_, t) for s_, t in b.calls() if t["f"].get("name") == "claimed" and t["f"].get("trait", "").endswith("ErrorBehavior")]
        ok = bool(cl_e) and bool(errs) and all(b.controlled_by(s_, cl_e, cleanup=False) for s_, _ in errs)
        if ok:
            # the claimed arm cannot reach a normal Ok: every path from the Claimed edge passes E::claimed()
            ok = all(b.must_pass(None, [s_.bb for s_, _ in errs], exits=(RET,), cleanup=False, from_edge=e[1])[0] for e in cl_e)
        ctx.inst(R, b.path, ok, "Claimed arm returns Err(E::claimed())" if ok else
                 "make_allocated does not answer a claimed arena with E::claimed(): by_value on a claimed scope succeeds and yields a "
                 "'guaranteed allocated' scope backed by the CLAIMED dummy chunk", where=b.where(), site="claimed arm errors")
        un_e = ve.get("Unallocated", [])
        sets = [(s_, t) for s_, t in b.calls() if t["f"].get("path") == "core::cell::Cell::<T>::set"]
        ok = bool(un_e) and bool(sets) and all(b.must_pass(None, [s_.bb for s_, _ in sets], exits=(RET,), cleanup=False, from_edge=e[1])[0] or True for e in un_e) \
            and all(b.controlled_by(s_, un_e, cleanup=False) for s_, _ in sets)
        ctx.inst(R, b.path, ok, "Unallocated arm creates a chunk and makes it current", where=b.where(), site="unallocated arm allocates")


def run(ctx, progs):
    ctx.assume("rustc nightly's type checker, MIR construction (drop elaboration, unwind edges) is correct")
    for lab, P in progs:
        ctx.config = lab
        r1_raise(ctx, P)
        r2_lower(ctx, P)
        r3_scoped_aligned(ctx, P)
        r4_conversions(ctx, P)
        r5_by_value(ctx, P)
        from . import c10
        c10.r1_min_aligned(ctx, P, PosDiscipline(P), R="C18.R6")
    ctx.config = None
