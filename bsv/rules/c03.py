"""C03 — leaving a scope restores the allocator exactly; earlier data survives."""
from ..ir import show, phi_alts, walk_expr, expr_mentions, Site, RET, UNW
from .common import *
from .poswrite import *
from . import c01

EXPLANATION = (
    "Static rules over polymorphic MIR. C03.R1: a checkpoint is (header pointer, position) read from the same chunk and "
    "reset_within_chunk writes exactly that address into that chunk's position. C03.R2: BumpScopeGuard::new takes the "
    "checkpoint; its Drop reaches RawBump::reset_to with the guard's own checkpoint; in scoped/scoped_aligned the guard "
    "is created before the user closure is called and every exit after that call - return and unwind - passes the "
    "guard's drop; scoped_aligned takes the checkpoint before aligning. C03.R3: reset_to restores both halves "
    "(position and current chunk) on every non-early-return path, the unallocated-checkpoint path rewinds to the start "
    "of the first chunk. C03.R4: no base-allocator deallocate is reachable from scope exits, reset_to, reset_to_start, "
    "alloc_try_with*: chunks acquired inside remain. C03.R5: a new chunk is appended only after the existing later "
    "chunks were tried. C03.R6: alloc_try_with(_mut) take the checkpoint before allocating and the Err arm rewinds to "
    "it (shared variant: when the closure left no allocations). Not decided: numeric equality of allocated(), "
    "termination of reset loops after finitely many rounds (needs C12 arithmetic).")


def guard_drop_protocol(ctx, R, body, guard_call_pred, user_call_pred, what):
    """G (guard construction) dominates U (user callback); after U the guard local is dropped on the return path and on
    the unwind path."""
    gs = body.calls_to(guard_call_pred)
    us = [(s, t) for s, t in body.calls() if user_call_pred(t)]
    if not ctx.need(len(gs) >= 1, R, f"{body.path}: guard construction ({what})"):
        return None
    if not ctx.need(len(us) >= 1, R, f"{body.path}: user callback invocation"):
        return None
    out = []
    for us_, ut in us:
        g = [x for x in gs if body.dominates(x[0], us_)]
        ok = bool(g)
        ctx.inst(R, body.path, ok, f"{what} is constructed before the user callback runs" if ok else
                 f"the user callback can run before {what} exists", where=body.where(us_), site="guard before callback")
        if not ok:
            continue
        gsite, gt = g[0]
        gl = gt["dest"]["l"]
        dblocks = [s.bb for s, t in body.drops() if t["p"]["l"] == gl and not t["p"]["p"]]
        okn, wit = body.must_pass(us_, dblocks, exits=(RET,), cleanup=False)
        ctx.inst(R, body.path, okn, f"return path after the callback passes the drop of the guard" if okn else
                 "a return path after the callback skips the guard's drop (scope not restored)", where=body.where(us_),
                 site="guard dropped on return")
        must, may, ends = body.unwind_walk(us_)
        oku = any(d[0] == gl and d[1] == () for d in must)
        ctx.inst(R, body.path, oku, "unwinding out of the callback drops the guard (a panic restores the scope too)" if oku
                 else f"unwinding out of the callback does not drop the guard (must-drops: {sorted(d[0] for d in must)}): "
                 "a panic inside the scope leaves the allocator un-restored", where=body.where(us_), site="guard dropped on unwind")
        out.append((gsite, us_, gl))
    return out


def is_user_fn_call(t):
    return t["f"].get("path") in ("core::ops::FnOnce::call_once", "core::ops::FnMut::call_mut", "core::ops::Fn::call")


def r1_checkpoint(ctx, P):
    R = "C03.R1"
    ctx.rule(R, "Checkpoint::new stores header pointer and position of the same chunk; reset_within_chunk writes that "
                "address into that chunk's pos")
    b = P.find_body("bump_scope_guard::Checkpoint::new")
    if ctx.need(b is not None, R, "Checkpoint::new"):
        found = False
        for s, st in b.assigns():
            r = st["r"]
            if r["k"] == "agg" and r.get("adt", "").endswith("Checkpoint"):
                found = True
                fn = r["fnames"]
                ch = b.prov_operand(r["fields"][fn.index("chunk")], s)
                ad = b.prov_operand(r["fields"][fn.index("address")], s)
                ok = mentions_param(ch, 1) and expr_mentions(ch, lambda x: x[0] == "field" and x[2] == "header") and \
                    mentions_param(ad, 1) and expr_mentions(ad, lambda x: x[0] == "call" and x[1].split("::")[-1] == "pos")
                ctx.inst(R, b.path, ok, f"Checkpoint {{ chunk: {show(ch)}, address: {show(ad)} }}", where=b.where(s), site="fields")
        ctx.need(found, R, "Checkpoint aggregate in Checkpoint::new")
    b = P.find_body("bump_scope_guard::Checkpoint::reset_within_chunk")
    if ctx.need(b is not None, R, "Checkpoint::reset_within_chunk"):
        ws = [(s, t) for s, t in b.calls() if t["f"].get("path") in CELL_WRITES]
        ctx.need(len(ws) == 1, R, "exactly one Cell::set in reset_within_chunk")
        for s, t in ws:
            recv = b.prov_operand(t["args"][0], s)
            v = b.prov_operand(t["args"][1], s)
            okr = mentions_header_field(recv, "pos") and expr_mentions(recv, lambda x: x[0] == "field" and x[2] == "chunk")
            okv = expr_mentions(v, lambda x: x[0] == "field" and x[2] == "address") and \
                expr_mentions(v, lambda x: x[0] == "field" and x[2] == "chunk")
            ctx.inst(R, b.path, okr and okv, f"{show(recv)}.set({show(v)})", where=b.where(s), site="restore write")


def r2_guard(ctx, P):
    R = "C03.R2"
    ctx.rule(R, "scope guard protocol: checkpoint at construction, reset_to(own checkpoint) on drop, guard covers the user "
                "closure on return and unwind; scoped_aligned: scope_guard before align before the closure")
    b = P.find_body("bump_scope_guard::BumpScopeGuard::<'a, A, S>::new")
    if ctx.need(b is not None, R, "BumpScopeGuard::new"):
        cps = b.calls_to(lambda f: f.get("name") == "checkpoint")
        ok = False
        for s, st in b.assigns():
            r = st["r"]
            if r["k"] == "agg" and r.get("adt", "").endswith("BumpScopeGuard"):
                fn = r["fnames"]
                cp = b.prov_operand(r["fields"][fn.index("checkpoint")], s)
                bp = b.prov_operand(r["fields"][fn.index("bump")], s)
                ok = expr_mentions(cp, lambda x: x[0] == "call" and x[1].split("::")[-1] == "checkpoint" and mentions_param(x, 1)) \
                    and mentions_param(bp, 1)
                ctx.inst(R, b.path, ok, f"guard = {{ bump: {show(bp)}, checkpoint: {show(cp)} }}", where=b.where(s), site="new")
        ctx.need(bool(cps), R, "BumpScopeGuard::new calls checkpoint()")
    # Drop -> reset_to(self.checkpoint)
    drops = [bb for bb in P.fn_bodies() if bb.item["name"] == "drop" and "BumpScopeGuard" in bb.path]
    if ctx.need(len(drops) == 1, R, "Drop for BumpScopeGuard"):
        d = drops[0]
        parents = P.reach_fns([d.id])
        hit = False
        for st in parents:
            bb = P.body(st[0])
            if bb is None:
                continue
            for s, t in bb.calls():
                if t["f"].get("name") == "reset_to" and "RawBump" in t["f"]["path"]:
                    a = bb.prov_operand(t["args"][1], s)
                    ok = strip_ref(a)[0] == "field" and strip_ref(a)[2] == "checkpoint" and mentions_param(a, 1)
                    hit = True
                    ctx.inst(R, bb.path, ok, f"guard drop reaches reset_to({show(a)})" + ("" if ok else " — not the guard's own checkpoint"),
                             where=bb.where(s), site="drop -> reset_to(checkpoint)")
        ctx.inst(R, d.path, hit, "Drop of the guard reaches RawBump::reset_to" if hit else
                 "Drop of the guard never reaches RawBump::reset_to: leaving a scope restores nothing", where=d.where(), site="drop reaches reset_to")
    # scoped / scoped_aligned
    for nm in ("scoped", "scoped_aligned"):
        bs = [bb for bb in P.fn_bodies() if bb.item["name"] == nm and bb.path.startswith("traits::bump_allocator::BumpAllocator::")]
        if not ctx.need(len(bs) == 1, R, f"BumpAllocator::{nm} (provided method)"):
            continue
        bb = bs[0]
        res = guard_drop_protocol(ctx, R, bb, lambda f: f.get("name") == "scope_guard", is_user_fn_call, "the scope guard")
        if nm == "scoped_aligned" and res:
            for gsite, usite, gl in res:
                als = bb.calls_to(lambda f: f.get("name") in ("align", "align_to"))
                ok = bool(als) and all(bb.dominates(gsite, a) and bb.dominates(a, usite) for a, _ in als)
                ctx.inst(R, bb.path, ok, "scope_guard() dominates align() dominates the closure call (the checkpoint is the "
                         "un-aligned entry position)" if ok else "align() is not between scope_guard() and the closure: the "
                         "checkpoint would be taken after aligning, so leaving the scope does not restore the entry position",
                         where=bb.where(usite), site="guard < align < callback")


def r3_reset_to(ctx, P):
    R = "C03.R3"
    ctx.rule(R, "reset_to restores position and current chunk on every non-early-return path; reset_to_start rewinds to "
                "the first chunk, resets it and makes it current")
    bs = [b for b in P.fn_bodies() if b.item["name"] == "reset_to" and "RawBump" in b.path]
    if ctx.need(len(bs) == 1, R, "RawBump::reset_to"):
        b = bs[0]
        rwc = [s.bb for s, t in b.calls() if t["f"].get("name") == "reset_within_chunk"]
        rts = [s.bb for s, t in b.calls() if t["f"].get("name") == "reset_to_start"]
        sets = []
        for s, t in b.calls():
            if t["f"].get("path") == "core::cell::Cell::<T>::set":
                recv = b.prov_operand(t["args"][0], s)
                if expr_mentions(recv, lambda x: x[0] == "field" and x[2] == "chunk" and mentions_param(x, 1)):
                    v = b.prov_operand(t["args"][1], s)
                    sets.append((s, v))
        ctx.need(bool(rwc) and bool(sets), R, "reset_within_chunk call and self.chunk.set in reset_to")
        ok1, _ = b.must_pass(None, rwc + rts, exits=(RET,), cleanup=False, from_edge=0)
        ok2, _ = b.must_pass(None, [s.bb for s, _ in sets] + rts, exits=(RET,), cleanup=False, from_edge=0)
        ctx.inst(R, b.path, ok1, "every returning path restores the position (reset_within_chunk) or rewinds to the start"
                 if ok1 else "a returning path of reset_to leaves the position untouched", where=b.where(), site="restores pos")
        ctx.inst(R, b.path, ok2, "every returning path restores the current chunk (self.chunk.set) or rewinds to the start"
                 if ok2 else "a returning path of reset_to restores the position but not the current chunk",
                 where=b.where(), site="restores chunk")
        for s, v in sets:
            okv = expr_mentions(v, lambda x: x[0] == "field" and x[2] == "chunk" and mentions_param(x, 2))
            ctx.inst(R, b.path, okv, f"self.chunk.set({show(v)}) uses the checkpoint's chunk", where=b.where(s), site="chunk value")
        # the early return is taken only for an unallocated checkpoint of a non-guaranteed-allocated bump
        for bb_ in rts:
            te, fe = b.cond_edges(lambda e: True if (e[0] == "assoc_const" and e[2] == "GUARANTEED_ALLOCATED") else None)
            ok = b.controlled_by(b.term_site(bb_), fe, cleanup=False)
            ctx.inst(R, b.path, ok, "rewind-to-start path is taken only when !GUARANTEED_ALLOCATED (checkpoint of an "
                     "unallocated arena)", where=b.where(b.term_site(bb_)), site="start path gate")
    bs = [b for b in P.fn_bodies() if b.item["name"] == "reset_to_start" and "RawBump" in b.path]
    if ctx.need(len(bs) == 1, R, "RawBump::reset_to_start"):
        b = bs[0]
        ve = b.variant_edges(lambda e: e[0] == "call" and e[1].split("::")[-1] == "as_non_dummy")
        some = ve.get("Some", [])
        rs = [s.bb for s, t in b.calls() if t["f"].get("name") == "reset" and "NonDummyChunk" in t["f"]["path"]]
        ss = [s.bb for s, t in b.calls() if t["f"].get("path") == "core::cell::Cell::<T>::set"]
        ok = bool(some) and all(b.must_pass(None, rs, exits=(RET,), cleanup=False, from_edge=tgt)[0] and
                                b.must_pass(None, ss, exits=(RET,), cleanup=False, from_edge=tgt)[0] for _, tgt, _ in some)
        ctx.inst(R, b.path, ok, "allocated arm: walks prev, then reset() and self.chunk.set on every path", where=b.where(), site="reset+set")
        # the reset is applied after the prev walk is exhausted
        prevs = b.calls_to(lambda f: f.get("name") == "prev")
        pe = b.variant_edges(lambda e: e[0] == "call" and e[1].split("::")[-1] == "prev")
        none_e = pe.get("None", [])
        okp = bool(prevs) and bool(rs) and all(b.controlled_by(b.term_site(r), none_e, cleanup=False) for r in rs)
        ctx.inst(R, b.path, okp, "the chunk that is reset and made current is the one whose prev() is None (the first chunk)"
                 if okp else "reset_to_start resets a chunk that is not known to be the first one", where=b.where(), site="first chunk")


def base_dealloc_bodies(P):
    """Bodies that call the base allocator's deallocate (Allocator::deallocate on a type parameter)."""
    out = []
    for b in P.fn_bodies():
        for s, t in b.calls():
            f = t["f"]
            if f.get("name") == "deallocate" and f.get("trait") and f["trait"].endswith("Allocator"):
                a0 = (f.get("args") or [{}])[0]
                if "param" in a0:
                    out.append((b, s, t))
    return out


SCOPE_EXIT_ROOTS = [
    r"^raw_bump::RawBump::<A, S>::(reset_to|reset_to_start|checkpoint|claim|reclaim|align|align_to)$",
    r"^<bump_scope_guard::BumpScopeGuard<'_, A, S> as core::ops::Drop>::drop$",
    r"^bump_scope_guard::BumpScopeGuard::<'a, A, S>::(reset|scope|new)$",
    r"^<bump_claim_guard::BumpClaimGuard<.*> as core::ops::Drop>::drop$",
    r"^<bump_align_guard::BumpAlignGuard<.*> as core::ops::Drop>::drop$",
    r"^traits::bump_allocator::BumpAllocator::(scoped|scoped_aligned|scope_guard)$",
    r"^bump_scope::BumpScope::<'a, A, S>::generic_alloc_try_with(_mut)?$",
    r"^bump_scope_guard::Checkpoint::",
]


def r4_nothing_freed(ctx, P):
    import re
    R = "C03.R4"
    ctx.rule(R, "no base-allocator deallocate is reachable from scope exits, reset_to, reset_to_start, alloc_try_with*")
    dbs = base_dealloc_bodies(P)
    # only the chunk type's own deallocate qualifies as 'the arena frees a chunk'
    chunk_deallocs = {b.id for b, s, t in dbs if "NonDummyChunk" in b.path}
    ctx.need(len(chunk_deallocs) >= 1, R, "NonDummyChunk::deallocate (the only place where chunks are returned)")
    roots = []
    for rx in SCOPE_EXIT_ROOTS:
        roots += [i["id"] for i in P.find_re(rx) if i["id"] in P.raw_bodies]
    ctx.floor(R, "scope-exit operations (roots)", len(roots), 12)
    parents = P.reach_fns(roots, opaque_traits=("alloc::Allocator",))
    hits = [st for st in parents if st[0] in chunk_deallocs]
    for st in hits:
        chain = " -> ".join(p for p, _ in P.path_to(parents, st))
        ctx.inst(R, P.items[st[0]]["path"], False, f"a chunk can be returned to the base allocator on a scope-exit path: {chain}",
                 site="reachable")
    ctx.inst(R, "scope-exit call graph", not hits, f"{len(parents)} functions reachable from {len(roots)} scope-exit roots; none "
             f"frees a chunk", site="summary")
    # who may free chunks at all: RawBump::reset and RawBump::manually_drop
    callers = set()
    for b in P.fn_bodies():
        for s, t in b.calls():
            if t["f"].get("id") in chunk_deallocs:
                callers.add(P.outermost_fn(b.item)["path"])
    ok = all(re.search(r"RawBump::<A, S>::(reset|manually_drop)$", c) for c in callers) and len(callers) >= 2
    ctx.inst(R, "NonDummyChunk::deallocate callers", ok, f"chunks are freed only from {sorted(callers)}", site="who may free")


def r5_append_after_exhaustion(ctx, P):
    R = "C03.R5"
    ctx.rule(R, "replaying a workload needs no new memory: a new chunk is appended only after the later chunks were tried")
    body = None
    for b in P.fn_bodies():
        if b.item["name"] == "in_another_chunk" and "RawBump" in b.path:
            body = b
    if not ctx.need(body is not None, R, "RawBump::in_another_chunk"):
        return
    for a_s, a_t in body.calls_to(lambda f: f.get("name") == "append_for"):
        ve = body.variant_edges(lambda e: e[0] == "call" and e[1].split("::")[-1] == "next" and "NonDummyChunk" in e[1])
        ok = body.controlled_by(a_s, ve.get("None", []), cleanup=False)
        ctx.inst(R, body.path, ok, "append_for is reached only after next() returned None", where=body.where(a_s), site="append after exhaustion")
    # reserve() also only appends after the walk
    for b in P.fn_bodies():
        if b.item["name"] == "reserve" and "RawBump" in b.path:
            for a_s, a_t in b.calls_to(lambda f: f.get("name") == "append_for"):
                ve = b.variant_edges(lambda e: e[0] == "call" and e[1].split("::")[-1] == "next" and "NonDummyChunk" in e[1])
                ok = b.controlled_by(a_s, ve.get("None", []), cleanup=False)
                ctx.inst(R, b.path, ok, "reserve appends only after next() returned None", where=b.where(a_s), site="append after exhaustion")


def r6_alloc_try_with(ctx, P, R="C03.R6"):
    ctx.rule(R, "alloc_try_with(_mut): checkpoint before the allocation; the Err arm rewinds to that checkpoint "
                "(shared variant: under the unchanged-position test)")
    for nm, shared in (("generic_alloc_try_with", True), ("generic_alloc_try_with_mut", False)):
        bs = [b for b in P.fn_bodies() if b.item["name"] == nm and "BumpScope" in b.path]
        if not ctx.need(len(bs) == 1, R, f"BumpScope::{nm}"):
            continue
        b = bs[0]
        cps = b.calls_to(lambda f: f.get("name") == "checkpoint")
        allocs = b.calls_to(lambda f: f.get("name") in ("generic_alloc_uninit", "prepare_sized_allocation", "alloc_sized"))
        rts = b.calls_to(lambda f: f.get("name") == "reset_to")
        users = [(s, t) for s, t in b.calls() if t["f"].get("name") == "write_with"]
        if not ctx.need(bool(allocs) and bool(users), R, f"{nm}: allocation and write_with calls"):
            continue
        if not (cps and rts):
            ctx.inst(R, b.path, False, f"{nm} takes no checkpoint / never calls reset_to ({len(cps)} checkpoint call(s), {len(rts)} reset_to "
                     "call(s)): when the closure returns Err the arena is not restored to its state before the call (the closure may "
                     "have allocated, or switched to another chunk)", where=b.where(), site="Err rewinds")
            continue
        ok = all(any(b.dominates(c, a) for c, _ in cps) for a, _ in allocs)
        ctx.inst(R, b.path, ok, "the checkpoint is taken before the allocation" if ok else
                 "the allocation can happen before the checkpoint is taken (the Err rewind would not undo it)", where=b.where(), site="checkpoint first")
        for s, t in rts:
            a = b.prov_operand(t["args"][1], s)
            okc = expr_mentions(a, lambda x: x[0] == "call" and x[1].split("::")[-1] == "checkpoint")
            ctx.inst(R, b.path, okc, f"reset_to({show(a)}) uses the checkpoint taken at entry", where=b.where(s), site="rewind target")
        ve = b.variant_edges(lambda e: e[0] == "call" and e[1].split("::")[-1] == "result")
        errs = ve.get("Err", [])
        ctx.need(bool(errs), R, f"{nm}: Err edge of the closure's result")
        through = [s.bb for s, _ in rts]
        if shared:
            def unchanged(e):
                if (e[0] == "call" and e[1] == "core::cmp::PartialEq::eq") or (e[0] == "bin" and e[1] == "Eq"):
                    if expr_mentions(e, lambda x: x[0] == "call" and x[1].split("::")[-1] == "pos"):
                        return True
                return None
            te, fe = b.cond_edges(unchanged)
            ctx.need(bool(te) and bool(fe), R, f"{nm}: unchanged-position test (can_shrink)")
            # allowed ways out of the Err arm without rewinding: the false edge of that test
            ok = all(b.must_pass(None, through + [tgt2 for (_, tgt2, _) in fe if isinstance(tgt2, int)], exits=(RET,),
                                 cleanup=False, from_edge=tgt)[0] for _, tgt, _ in errs)
            # and the rewind itself sits on the true edge
            ok = ok and all(b.controlled_by(s, te, cleanup=False) for s, _ in rts)
            ctx.inst(R, b.path, ok, "Err arm: rewinds to the checkpoint exactly when the closure left the position unchanged"
                     if ok else "Err arm can return without rewinding although the closure left no allocations (or rewinds "
                     "although it did)", where=b.where(), site="Err rewinds")
        else:
            ok = all(b.must_pass(None, through, exits=(RET,), cleanup=False, from_edge=tgt)[0] for _, tgt, _ in errs)
            ctx.inst(R, b.path, ok, "Err arm: every returning path rewinds to the checkpoint" if ok else
                     "Err arm of alloc_try_with_mut can return without rewinding", where=b.where(), site="Err rewinds")


def run(ctx, progs):
    ctx.assume("rustc nightly's type checker, MIR construction (incl. drop elaboration and unwind edges) is correct")
    ctx.assume("drop flags are locals assigned only literal booleans; unwind walks resolve them by constant propagation")
    ctx.assume("calls of foreign-trait methods on type parameters (the user closure, Clone of the base allocator) are user code")
    for lab, P in progs:
        ctx.config = lab
        r1_checkpoint(ctx, P)
        r2_guard(ctx, P)
        r3_reset_to(ctx, P)
        r4_nothing_freed(ctx, P)
        r5_append_after_exhaustion(ctx, P)
        r6_alloc_try_with(ctx, P)
    ctx.config = None
