"""Shared rule: the shared-borrow and the exclusive-borrow flavour of a collection (BumpVec / MutBumpVec, BumpString /
MutBumpString) implement each `generic_*` operation twice, deliberately in parallel.  For every pair the multiset of
callees and the multiset of branch conditions must agree; the pairs that differ by design (growth, construction) are
tabled.  A deviation in one twin is either a defect there or a fix that the sibling is missing (Engler et al.'s
"bugs as deviant behaviour", applied to two-member families whose members the crate keeps textually parallel)."""
import re, collections
from ..ir import show

BY_DESIGN = {
    "generic_grow_amortized": "the exclusive flavour delegates the doubling to grow_prepared_allocation",
    "generic_grow_exact": "the exclusive flavour delegates to grow_prepared_allocation",
    "generic_grow_to": "shared: Allocator::grow; exclusive: re-prepare in a chunk that fits and copy",
    "generic_with_capacity_in": "shared: allocate; exclusive: prepare_allocation",
    "generic_from_iter_in": "construction through different capacity primitives",
    "generic_from_iter_exact_in": "construction through different capacity primitives",
}
NORM = re.compile(r"\b(bump_string::BumpString|mut_bump_string::MutBumpString|bump_vec::BumpVec|mut_bump_vec::MutBumpVec)\b")


def callee_skeleton(b):
    c = collections.Counter()
    for s, t in b.calls():
        f = t["f"]
        if "name" in f:
            c[f["name"]] += 1
    return c


def cond_skeleton(b):
    c = collections.Counter()
    for bb, t in b.switches():
        s = show(b.prov_operand(t["d"], b.term_site(bb)))
        s = NORM.sub("X", s)
        s = re.sub(r"closure\(\d+:\d+", "closure(", s)
        c[s[:160]] += 1
    return c


def rule(ctx, P, R, shared_prefix, excl_prefix, floor):
    ctx.rule(R, f"twin implementations ({shared_prefix.split('::')[-1].rstrip('<')} / {excl_prefix.split('::')[-1].rstrip('<')}): every "
                "`generic_*` operation that exists in both has the same multiset of callees and of branch conditions; pairs that "
                "differ by design are tabled")
    fam = {}
    for b in P.fn_bodies():
        outer = P.outermost_fn(b.item)
        if outer["id"] != b.item["id"] or not b.item["name"].startswith("generic_"):
            continue
        impl = P.impl_of_item.get(b.item["id"])
        if not impl or impl.get("trait"):
            continue
        for pre, k in ((shared_prefix, "S"), (excl_prefix, "M")):
            if impl["self_ty"].startswith(pre):
                fam.setdefault(b.item["name"], {})[k] = b
    n = 0
    for name, d in sorted(fam.items()):
        if len(d) < 2:
            continue
        if name in BY_DESIGN:
            ctx.inst(R, name, True, f"differs by design: {BY_DESIGN[name]}", site="twin (tabled)", nontrivial=False)
            continue
        n += 1
        cs, cm = callee_skeleton(d["S"]), callee_skeleton(d["M"])
        ks, km = cond_skeleton(d["S"]), cond_skeleton(d["M"])
        ok = cs == cm and ks == km
        diff = ""
        if cs != cm:
            diff += f" callees only in the shared flavour {dict(cs - cm)}, only in the exclusive flavour {dict(cm - cs)};"
        if ks != km:
            diff += f" branch conditions only in the shared flavour {list((ks - km))[:3]}, only in the exclusive flavour {list((km - ks))[:3]}"
        ctx.inst(R, name, ok, "both flavours: same callees and branch conditions" if ok else
                 f"the two flavours of `{name}` have diverged:{diff} - one of them handles a case the other does not",
                 where=d["M"].where(), site="twin agreement")
    ctx.floor(R, "twin pairs compared", n, floor)
