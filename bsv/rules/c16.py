"""C16 — splitting and merging owned slices partitions them exactly."""
import re
from ..ir import show, phi_alts, walk_expr, expr_mentions, Site, RET, UNW
from ..sym import Sym, Unanalysable, affine, ite_leaves, Affine, subst, _mul
from .common import *

EXPLANATION = (
    "Affine value numbering of every return path of the splitting functions (bodies are loop-free; rotations are "
    "uninterpreted calls). C16.R1: for BumpBox<[T]>::split_off, BumpBox<str>::split_off, FixedBumpVec / FixedBumpString::split_off (all "
    "arms), split_at_unchecked, split_first, split_last, split_at_spare: the two parts are adjacent (one starts at the "
    "base pointer, the other at base + length/capacity of the first in elements), their lengths add up to the original "
    "length and, for fixed vectors, their capacities to the original capacity; zero-sized arms: lengths add up, capacity "
    "usize::MAX; the rotating arms rotate exactly the sub-slice (..end)/(start..) by the range length. merge returns "
    "(lhs.ptr, lhs.len + rhs.len) and is control dependent on lhs.end == rhs.ptr; into_flattened multiplies the length by "
    "N and keeps the pointer. C16.R2: range validation (polyfill::slice::range / the `at > len` test) dominates all "
    "pointer arithmetic. C16.R3: the allocator keeps no per-block metadata: deallocate/grow/shrink read only (ptr, "
    "layout) and the current position, so sub-blocks are legal blocks. Not decided: element contents after rotation "
    "(delegated to core::slice::rotate_*), follow-up histories.")

OPAQUE = {"range", "rotate_left", "rotate_right", "assert_char_boundary", "as_mut_slice", "get_unchecked_mut", "len",
          "capacity", "is_empty", "set_len", "set_ptr", "set_cap", "as_ptr_range", "as_ptr", "as_non_null", "zst_slice_from_len",
          "str_len", "as_mut_bytes", "as_bytes", "into_raw", "from_raw", "new", "as_mut_ptr"}
EFFECTS = {"set_len", "set_ptr", "set_cap", "rotate_left", "rotate_right"}


def slices_in(e):
    return [x for x in walk_expr(e) if x[0] == "call" and x[1].endswith("slice_from_raw_parts")]


def norm_self(e):
    """Collapse the different spellings of 'base pointer' and 'length' of self into atoms P and LEN / CAP."""
    def fn(n):
        if n[0] in ("ref", "deref", "cast"):
            return n[1] if n[0] != "cast" else n[2]
        if n[0] == "call":
            nm = n[1].split("::")[-1]
            if nm in ("as_non_null_ptr", "as_non_null", "into_raw", "as_mut_ptr", "as_ptr") and n[2] and n[2][0] in (("param", 1, "self"), ("SELFPTR",), ("SELF",)):
                return ("P",)
            if nm in ("len", "str_len") and n[2] and n[2][0] in (("param", 1, "self"), ("SELFPTR",), ("SELF",), ("P",)):
                return ("LEN",)
            if nm == "capacity" and n[2] and n[2][0] in (("param", 1, "self"), ("SELF",)):
                return ("CAP",)
            if nm == "new" and "ManuallyDrop" in n[1]:
                return n[2][0]
        if n[0] == "field" and n[1] in (("param", 1, "self"), ("SELF",)):
            if n[2] == "ptr":
                return ("SELFPTR",)
            if n[2] == "initialized":
                return ("SELF",)
            if n[2] == "capacity":
                return ("CAP",)
        if n == ("param", 1, "self"):
            return ("SELF",)
        if n == ("SELFPTR",):
            return None
        return None
    prev = None
    cur = e
    for _ in range(6):
        prev = cur
        cur = subst(cur, fn)
        if cur == prev:
            break
    # a bare SELFPTR used as a pointer is the base pointer
    return subst(cur, lambda n: ("P",) if n == ("SELFPTR",) else None)


def elem(call):
    ty = call[3][0] if call[3] else "?"
    return Affine({}, 1) if ty == "u8" else Affine({("sizeof", ty): 1})


def aff(e):
    return affine(norm_self(e), elem)


def check_partition(ctx, R, path, where, arm, lo, hi, total_len, base=None, caps=None):
    """lo/hi = (ptr, len[, cap]) expressions; adjacency uses cap when given (fixed vectors) else len."""
    P_ = Affine({("P",): 1}) if base is None else base
    pa, la = aff(lo[0]), aff(lo[1])
    pb, lb = aff(hi[0]), aff(hi[1])
    szs = set()
    for p in (lo[0], hi[0]):
        for x in walk_expr(norm_self(p)):
            if x[0] == "call" and x[1].split("::")[-1] in ("add", "sub") and x[3]:
                szs.add(x[3][0])
    sz = Affine({("sizeof", list(szs)[0]): 1}) if szs and list(szs)[0] != "u8" else Affine({}, 1)
    # order: which one starts at the base
    if pb == P_ and pa != P_:
        pa, la, pb, lb = pb, lb, pa, la
        lo, hi = hi, lo
    step = aff(lo[2]) if (caps and len(lo) > 2) else la
    ok_adj = pa == P_ and pb == P_ + _mul(step, sz)
    ok_len = (la + lb) == total_len
    desc = f"{arm}: parts ({pa!r}, len {la!r}) and ({pb!r}, len {lb!r}); lengths sum to {(la + lb)!r} (expected {total_len!r})"
    ok = ok_adj and ok_len
    if caps:
        ca, cb = aff(lo[2]), aff(hi[2])
        ok_cap = (ca + cb) == caps
        desc += f"; capacities {ca!r} + {cb!r} = {(ca + cb)!r} (expected {caps!r})"
        ok = ok and ok_cap
    ctx.inst(R, path, ok, desc + ("" if ok else " — the parts do not partition the original exactly (overlap, gap or lost capacity)"),
             where=where, site=f"{arm} partition")


def arm_name(conds):
    out = []
    for c, k in conds:
        s = show(norm_self(c))
        s = re.sub(r"range\([^)]*\)\)?", "range", s)
        out.append(f"{s[:48]}={k}")
    return " & ".join(out[-3:]) or "single path"


def r1_partitions(ctx, P, R="C16.R1"):
    ctx.rule(R, "parts of every split are adjacent and their lengths (and capacities) add up; merge / into_flattened forms")
    S = Sym(P, inline_depth=2, opaque_names=OPAQUE, effect_names=EFFECTS)
    LEN = Affine({("LEN",): 1})
    CAP = Affine({("CAP",): 1})
    n_arms = 0
    # ---- BumpBox<[T]>::split_off and BumpBox<str>::split_off
    for ty in ("[T]", "str"):
        its = [i for i in P.facts["items"] if i["name"] == "split_off" and i["path"].startswith(f"bump_box::BumpBox::<'a, {ty}>::")]
        if not ctx.need(len(its) == 1, R, f"BumpBox<{ty}>::split_off"):
            continue
        b = P.body(its[0]["id"])
        try:
            e = S.ret(its[0]["id"], want="eff")
        except Unanalysable as ex:
            ctx.inst(R, b.path, False, f"not analysable: {ex}", where=b.where(), site="avn")
            continue
        for conds, leaf in ite_leaves(e):
            if leaf[0] != "ret":
                continue
            n_arms += 1
            arm = arm_name(conds)
            rv, effs = leaf[1], leaf[2]
            stores = [x for x in effs if x[0] == "store"]
            setlens = [x for x in effs if x[0] == "callfx" and x[1] == "set_len"]
            rs = slices_in(rv)
            if rv[0] == "const_item" and not stores and not setlens:
                ctx.inst(R, b.path, "EMPTY" in rv[1], f"{arm}: returns {show(rv)} and leaves self unchanged (empty range)", where=b.where(), site=f"{arm} empty")
                continue
            if setlens and not stores:
                # zero-sized arm: ret = zst_slice_from_len(range_len), self.set_len(remaining)
                zl = [x for x in walk_expr(rv) if x[0] == "call" and x[1].split("::")[-1] == "zst_slice_from_len"]
                ok = len(zl) == 1 and (aff(zl[0][2][0]) + aff(setlens[0][2][1])) == LEN
                ctx.inst(R, b.path, ok, f"{arm}: zero-sized: split-off length {aff(zl[0][2][0])!r} + remaining {aff(setlens[0][2][1])!r} = "
                         f"{(aff(zl[0][2][0]) + aff(setlens[0][2][1]))!r}" if zl else f"{arm}: no zst part", where=b.where(), site=f"{arm} zst lengths")
                continue
            ss = [x for st in stores for x in slices_in(st[2])]
            if len(rs) == 1 and len(ss) == 1:
                check_partition(ctx, R, b.path, b.where(), arm, (rs[0][2][0], rs[0][2][1]), (ss[0][2][0], ss[0][2][1]), LEN)
            else:
                ctx.inst(R, b.path, False, f"{arm}: could not identify the two parts (ret {show(rv)[:80]}, effects {len(effs)})", where=b.where(), site=f"{arm} shape")
            # rotation arms: rotate exactly the sub-slice by the range length
            rots = [x for x in effs if x[0] == "callfx" and x[1].startswith("rotate_")]
            for rt in rots:
                amt = aff(rt[2][1])
                # range_len = end - start
                ok = len(amt.terms) == 2 and sorted(amt.terms.values()) == [-1, 1]
                ctx.inst(R, b.path, ok, f"{arm}: {rt[1]} by {amt!r} (= end - start)", where=b.where(), site=f"{arm} rotate amount")
    # ---- FixedBumpVec::split_off
    for fixed_prefix, fixed_label in (("fixed_bump_vec::FixedBumpVec::<'a, T>::", "FixedBumpVec::split_off"),
                                      ("fixed_bump_string::FixedBumpString::<'a>::", "FixedBumpString::split_off")):
      its = [i for i in P.facts["items"] if i["name"] == "split_off" and i["path"].startswith(fixed_prefix)]
      if ctx.need(len(its) == 1, R, fixed_label):
          b = P.body(its[0]["id"])
          try:
              e = S.ret(its[0]["id"], want="eff")
              for conds, leaf in ite_leaves(e):
                  if leaf[0] != "ret":
                      continue
                  n_arms += 1
                  arm = arm_name(conds)
                  rv, effs = leaf[1], leaf[2]
                  fx = {x[1]: x[2] for x in effs if x[0] == "callfx"}
                  rs = slices_in(rv)
                  if not fx and not rs:
                      ok = expr_mentions(rv, lambda x: x[0] == "const_item" and "EMPTY" in x[1]) or rv[0] == "call"
                      ctx.inst(R, b.path, ok, f"{arm}: returns an empty vector and leaves self unchanged", where=b.where(), site=f"{arm} empty")
                      continue
                  if "set_len" in fx and "set_ptr" not in fx:
                      zl = [x for x in walk_expr(rv) if x[0] == "call" and x[1].split("::")[-1] == "zst_slice_from_len"]
                      capv = rv[4][rv[3].index("capacity")] if rv[0] == "agg" and "capacity" in rv[3] else None
                      ok = len(zl) == 1 and (aff(zl[0][2][0]) + aff(fx["set_len"][1])) == LEN and capv is not None and \
                          (capv[0] == "const_item" and capv[1].endswith("MAX") or (capv[0] == "int" and capv[1] == 2**64 - 1))
                      ctx.inst(R, b.path, ok, f"{arm}: zero-sized: lengths add up and capacity is usize::MAX ({show(capv) if capv else '?'})", where=b.where(), site=f"{arm} zst")
                      continue
                  if len(rs) == 1 and {"set_ptr", "set_len", "set_cap"} <= set(fx):
                      capv = rv[4][rv[3].index("capacity")]
                      check_partition(ctx, R, b.path, b.where(), arm, (rs[0][2][0], rs[0][2][1], capv),
                                      (fx["set_ptr"][1], fx["set_len"][1], fx["set_cap"][1]), LEN, caps=CAP)
                  else:
                      ctx.inst(R, b.path, False, f"{arm}: could not identify the two parts", where=b.where(), site=f"{arm} shape")
          except Unanalysable as ex:
              ctx.inst(R, b.path, False, f"not analysable: {ex}", where=b.where(), site="avn")
    ctx.floor(R, "return paths of split_off variants analysed", n_arms, 15)
    # ---- split_at_unchecked / split_first / split_last / split_at_spare
    S2 = Sym(P, inline_depth=2, opaque_names=OPAQUE)
    for nm, owner in (("split_at_unchecked", "bump_box::BumpBox::<'a, [T]>::"), ("split_first", "bump_box::BumpBox::<'a, [T]>::"),
                      ("split_last", "bump_box::BumpBox::<'a, [T]>::"), ("split_at_spare", "fixed_bump_vec::FixedBumpVec::<'a, T>::")):
        its = [i for i in P.facts["items"] if i["name"] == nm and i["path"].startswith(owner)]
        if not ctx.need(len(its) == 1, R, f"{owner}{nm}"):
            continue
        b = P.body(its[0]["id"])
        try:
            e = S2.ret(its[0]["id"])
        except Unanalysable as ex:
            ctx.inst(R, b.path, False, f"not analysable: {ex}", where=b.where(), site="avn")
            continue
        for conds, leaf in ite_leaves(e):
            arm = arm_name(conds)
            if leaf[0] == "agg" and leaf[2] == "None":
                ctx.inst(R, b.path, True, f"{arm}: None for an empty slice", where=b.where(), site=f"{arm} none")
                continue
            rs = slices_in(leaf)
            one = Affine({}, 1)
            if nm == "split_at_unchecked" and len(rs) == 2:
                check_partition(ctx, R, b.path, b.where(), arm, (rs[0][2][0], rs[0][2][1]), (rs[1][2][0], rs[1][2][1]), LEN)
            elif nm in ("split_first", "split_last") and len(rs) == 1:
                # the single element box is from_raw(ptr [+ len-1]); model as a slice of length 1
                singles = [x for x in walk_expr(leaf) if x[0] == "call" and x[1].split("::")[-1] == "from_raw" and not slices_in(x)]
                ptr1 = singles[0][2][0] if singles else None
                if ptr1 is None:
                    ctx.inst(R, b.path, False, f"{arm}: element box not found", where=b.where(), site=f"{arm} shape")
                else:
                    check_partition(ctx, R, b.path, b.where(), arm, (ptr1, ("int", 1, "usize")), (rs[0][2][0], rs[0][2][1]), LEN)
            elif nm == "split_at_spare" and len(rs) == 1:
                # (self.initialized, spare): spare starts at base + len, spare len = capacity - len
                sp, sl = aff(rs[0][2][0]), aff(rs[0][2][1])
                szs = [x[3][0] for x in walk_expr(norm_self(rs[0][2][0])) if x[0] == "call" and x[1].split("::")[-1] == "add" and x[3]]
                sz = Affine({("sizeof", szs[0]): 1}) if szs else Affine({}, 1)
                ok = sp == Affine({("P",): 1}) + _mul(LEN, sz) and sl == CAP - LEN and expr_mentions(norm_self(leaf), lambda x: x == ("SELF",))
                ctx.inst(R, b.path, ok, f"{arm}: spare part starts at {sp!r} with length {sl!r} (expected P + LEN*size, CAP - LEN); "
                         "initialised part is returned unchanged", where=b.where(), site=f"{arm} spare")
            else:
                ctx.inst(R, b.path, False, f"{arm}: unexpected shape {show(leaf)[:120]}", where=b.where(), site=f"{arm} shape")
    # ---- merge
    its = [i for i in P.facts["items"] if i["name"] == "merge" and i["path"].startswith("bump_box::BumpBox::<'a, [T]>::")]
    if ctx.need(len(its) == 1, R, "BumpBox<[T]>::merge"):
        b = P.body(its[0]["id"])
        sl = [(s, t) for s, t in b.calls() if t["f"]["path"].endswith("slice_from_raw_parts")]
        if ctx.need(len(sl) == 1, R, "merge: one slice_from_raw_parts"):
            s, t = sl[0]
            p, l = b.prov_operand(t["args"][0], s), b.prov_operand(t["args"][1], s)
            okp = mentions_param(p, 1) and not mentions_param(p, 2)
            okl = l[0] == "bin" and l[1].startswith("Add") and mentions_param(l[2], 1) and mentions_param(l[3], 2) and \
                all(expr_mentions(x, lambda y: y[0] == "call" and y[1].split("::")[-1] == "len") for x in (l[2], l[3]))
            ctx.inst(R, b.path, okp and okl, f"merged = ({show(p)}, {show(l)})", where=b.where(s), site="merged slice")
            # contiguity test: ne(self.as_ptr_range().end, other.as_ptr()) true edge diverges
            def contig(e):
                if e[0] == "call" and e[1] in ("core::cmp::PartialEq::ne", "core::cmp::PartialEq::eq"):
                    a, c = e[2]
                    if expr_mentions(a, lambda x: x[0] == "field" and x[2] == "end") and mentions_param(a, 1) and mentions_param(c, 2):
                        return e[1].endswith("::eq")
                if e[0] == "bin" and e[1] in ("Ne", "Eq"):
                    a, c = e[2], e[3]
                    if expr_mentions(a, lambda x: x[0] == "field" and x[2] == "end") and mentions_param(a, 1) and mentions_param(c, 2):
                        return e[1] == "Eq"
                return None
            te, fe = b.cond_edges(contig)
            ok = b.controlled_by(s, te, cleanup=False) and bool(te)
            # the not-contiguous edge diverges
            div = True
            for (bb, tgt, lab) in fe:
                if RET in b.reach([tgt], cleanup=False, removed_blocks=[x[1] for x in te if isinstance(x[1], int)]):
                    div = False
            ctx.inst(R, b.path, ok and div, "the merged slice is built only when lhs.end == rhs.ptr; otherwise the call diverges" if ok and div else
                     "merge can return a slice although the parts are not known to be contiguous", where=b.where(s), site="contiguity")
    # ---- into_flattened
    its = [i for i in P.facts["items"] if i["name"] == "into_flattened" and i["path"].startswith("bump_box::BumpBox::<'a, [[T; N]]>")]
    if ctx.need(len(its) == 1, R, "BumpBox<[[T; N]]>::into_flattened"):
        b = P.body(its[0]["id"])
        sl = [(s, t) for s, t in b.calls() if t["f"]["path"].endswith("slice_from_raw_parts")]
        ok = len(sl) == 1
        if ok:
            s, t = sl[0]
            p, l = b.prov_operand(t["args"][0], s), b.prov_operand(t["args"][1], s)
            okl = all(a[0] == "call" and a[1].split("::")[-1] in ("unchecked_mul", "expect", "checked_mul") and
                      expr_mentions(a, lambda x: x[0] == "const_param" and x[1] == "N") and
                      expr_mentions(a, lambda x: x[0] == "call" and x[1].split("::")[-1] == "len") for a in phi_alts(l))
            ok = okl and mentions_param(p, 1)
            ctx.inst(R, b.path, ok, f"flattened = ({show(p)}, {show(l)})", where=b.where(s), site="len * N")


def r2_validation_first(ctx, P):
    R = "C16.R2"
    ctx.rule(R, "range validation dominates all pointer arithmetic in the splitting functions")
    n = 0
    for it in P.facts["items"]:
        if it["name"] not in ("split_off", "split_at") or it["kind"] != "AssocFn" or it["id"] not in P.raw_bodies:
            continue
        if not re.match(r"(bump_box::BumpBox|fixed_bump_vec::FixedBumpVec)::", it["path"]):
            continue
        b = P.body(it["id"])
        checks = b.calls_to(lambda f: f.get("name") == "range" and "polyfill::slice" in f["path"])
        if it["name"] == "split_at":
            te, fe = b.cond_edges(lambda e: True if (e[0] == "bin" and e[1] == "Gt" and strip_casts(e[2])[0] == "param" and
                                                     strip_casts(e[2])[1] == 2 and strip_casts(e[3])[0] == "call" and
                                                     strip_casts(e[3])[1].split("::")[-1] == "len" and mentions_param(e[3], 1)) else None)
            arith = b.calls_to(lambda f: f.get("name") == "split_at_unchecked")
            ok = bool(fe) and all(b.controlled_by(s, fe, cleanup=False) for s, _ in arith) and bool(arith)
            n += 1
            ctx.inst(R, b.path, ok, "split_at_unchecked is reached only when !(at > len)", where=b.where(), site="at <= len")
            continue
        arith = b.calls_to(lambda f: f.get("name") in ("add", "sub", "get_unchecked_mut", "rotate_left", "rotate_right") or
                           f["path"].endswith("slice_from_raw_parts"))
        ok = len(checks) == 1 and all(b.dominates(checks[0][0], s) for s, _ in arith) and bool(arith)
        n += 1
        ctx.inst(R, b.path, ok, f"polyfill::slice::range(range, ..len) dominates all {len(arith)} pointer/slice operations" if ok else
                 "pointer arithmetic can run before the range was validated", where=b.where(), site="range first")
        if "str" in it["path"]:
            char_boundary_cover(ctx, R, b, arith)
    ctx.floor(R, "splitting functions with validated ranges", n, 4)


def char_boundary_cover(ctx, R, b, ops):
    """Every use of a range end point (start / end of polyfill::slice::range) in pointer or slice arithmetic is covered by a
    dominating assert_char_boundary on that same value, or by a dominating test that it equals 0 / len."""
    def atom_of(e):
        e = strip_casts(strip_ref(e))
        if e[0] == "field" and e[2] in ("start", "end") and expr_mentions(e, lambda x: x[0] == "call" and x[1].split("::")[-1] == "range"):
            return e[2]
        return None
    acb = b.calls_to(lambda f: f.get("name") == "assert_char_boundary")
    asserted = []
    for s, t in acb:
        a = atom_of(b.prov_operand(t["args"][1], s))
        if a:
            asserted.append((s, a))

    def trivially_boundary(atom):
        def pred(e):
            if e[0] == "bin" and e[1] == "Eq" and atom_of(e[2]) == atom:
                r = strip_casts(e[3])
                if r == ("int", 0, "usize") or (r[0] == "call" and r[1].split("::")[-1] in ("len", "str_len")):
                    return True
            return None
        return b.cond_edges(pred)[0]
    triv = {a: trivially_boundary(a) for a in ("start", "end")}
    n = bad = 0
    for s, t in ops:
        used = set()
        for a in t["args"]:
            e = b.prov_operand(a, s)
            for x in walk_expr(e):
                at = atom_of(x)
                if at:
                    used.add(at)
        for at in sorted(used):
            n += 1
            ok = any(a == at and b.dominates(sa, s) for sa, a in asserted) or b.controlled_by(s, triv[at], cleanup=False)
            if not ok:
                bad += 1
                ctx.inst(R, b.path, False, f"{t['f']['name']} uses range.{at} which is neither asserted to be a char boundary nor known "
                         "to be 0/len on this path: the string could be cut inside a code point", where=b.where(s),
                         site=f"{t['f']['name']}#{at} boundary")
    ctx.inst(R, b.path, bad == 0, f"{n} uses of range end points in byte-level operations, all covered by assert_char_boundary or a 0/len test",
             where=b.where(), site="char boundaries")


def r3_no_block_metadata(ctx, P):
    R = "C16.R3"
    ctx.rule(R, "deallocate/grow/shrink read no per-block metadata: of ChunkHeader only pos/end (content boundaries) are read")
    n = 0
    roots = [i["id"] for i in P.facts["items"] if i["kind"] == "Fn" and i["path"].startswith("allocator_impl::") and i["id"] in P.raw_bodies]
    ctx.floor(R, "allocator_impl functions", len(roots), 7)
    parents = P.reach_fns(roots, opaque_traits=("alloc::Allocator",))
    fields = set()
    for st in parents:
        b = P.body(st[0])
        if b is None:
            continue
        for s, stt in b.assigns():
            r = stt["r"]
            pl = r.get("p") or (r.get("o") or {}).get("p")
            if not pl:
                continue
            for pe in pl["p"]:
                if isinstance(pe, dict) and pe.get("of") == "chunk::header::ChunkHeader":
                    fields.add(pe["n"])
        for s, t in b.calls():
            for a in t["args"]:
                pl = a.get("p")
                if pl:
                    for pe in pl["p"]:
                        if isinstance(pe, dict) and pe.get("of") == "chunk::header::ChunkHeader":
                            fields.add(pe["n"])
    ok = fields <= {"pos", "end", "next", "prev", "allocator"} and {"pos", "end"} <= fields
    ctx.inst(R, "allocator_impl call graph", ok, f"{len(parents)} functions reachable; ChunkHeader fields read: {sorted(fields)} (position, "
             "chunk boundaries, chunk links for the slow path; nothing per block)", site="header fields")
    # ChunkHeader has no other fields at all
    a = P.adts.get("chunk::header::ChunkHeader")
    if ctx.need(a is not None, R, "ADT ChunkHeader"):
        names = [f["name"] for f in a["variants"][0]["fields"]]
        ctx.inst(R, "ChunkHeader", names == ["pos", "end", "prev", "next", "allocator"], f"ChunkHeader fields: {names}", site="fields")


def r4_rotation_siblings(ctx, P, R="C16.R4"):
    ctx.rule(R, "the four split_off implementations (BumpBox<[T]>, BumpBox<str>, FixedBumpVec, FixedBumpString) agree on how an "
                "interior range is brought to an edge: under `head < tail` the prefix (..end) is rotated right, otherwise the "
                "suffix (start..) is rotated left, both by the range length - a sibling with another direction / sub-slice "
                "returns the wrong elements (for strings: torn characters)")
    sigs = {}
    for b in P.fn_bodies():
        if b.item["name"] != "split_off":
            continue
        impl = P.impl_of_item.get(b.item["id"])
        if not impl or impl.get("trait"):
            continue
        rots = [(s_, t) for s_, t in b.calls() if t["f"].get("name") in ("rotate_left", "rotate_right") and t["f"].get("krate") == "core"]
        if not rots:
            continue
        te, fe = b.cond_edges(lambda e: True if (e[0] == "bin" and e[1] == "Lt") else None)
        sig = set()
        for s_, t in rots:
            a0 = b.prov_operand(t["args"][0], s_)
            kind = "other"
            for x in walk_expr(a0):
                if x[0] == "call" and x[1].split("::")[-1] in ("get_unchecked_mut", "index_mut", "get_mut") and len(x[2]) >= 2:
                    idx = x[2][1]
                    while idx[0] in ("ref", "deref", "cast"):
                        idx = idx[1] if idx[0] != "cast" else idx[2]
                    if idx[0] == "agg":
                        kind = str(idx[1]).split("::")[-1]
                    break
            pol = "head<tail" if b.controlled_by(s_, te, cleanup=False) else "head>=tail" if b.controlled_by(s_, fe, cleanup=False) else "uncond"
            amt = b.prov_operand(t["args"][1], s_)
            amt_ok = amt[0] == "bin" and amt[1].startswith("Sub")
            sig.add((pol, t["f"]["name"], kind, "end-start" if amt_ok else show(amt)[:30]))
        # the rotation works on the vector as it was: none of the self-describing fields (ptr/len/cap) is rewritten before it
        writes = [x for x, tt in b.calls() if tt["f"].get("name") in ("set_ptr", "set_len", "set_cap")]
        writes += [x for x, st in b.assigns() if st["p"]["p"] and st["p"]["p"][0] == "*" and st["p"]["l"] == 1 and
                   any(isinstance(pe, dict) and pe.get("n") in ("ptr", "capacity", "initialized") for pe in st["p"]["p"])]
        early = [(w, r) for w in writes for r, _ in rots if b.can_reach(w, r, cleanup=False)]
        ctx.inst(R, b.path, not early, "the rotation precedes every rewrite of the vector's own ptr/len/cap" if not early else
                 f"self's ptr/len/cap are rewritten (line {b.line_of(early[0][0])}) before the rotation (line {b.line_of(early[0][1])}): the "
                 "rotation then works on the already shortened / shifted window and scrambles the elements", where=b.where(early[0][1]) if early else b.where(),
                 site="rotation before rewriting self")
        sigs[b.path] = (b, frozenset(sig))
    if not ctx.need(len(sigs) >= 4, R, f"split_off implementations with rotations (found {len(sigs)})"):
        return
    votes = {}
    for pth, (b, sg) in sigs.items():
        votes[sg] = votes.get(sg, 0) + 1
    best = max(votes.values())
    major = [sg for sg, v in votes.items() if v == best]
    want = frozenset({("head<tail", "rotate_right", "RangeTo", "end-start"), ("head>=tail", "rotate_left", "RangeFrom", "end-start")})
    for pth, (b, sg) in sorted(sigs.items()):
        ok = sg == want
        ctx.inst(R, pth, ok, f"rotations {sorted(sg)}" if ok else
                 f"rotations {sorted(sg)} differ from the scheme of the sibling implementations {sorted(want)}: the range is moved to the "
                 "wrong edge / in the wrong direction, so the two parts contain the wrong elements", where=b.where(), site="rotation scheme")


def r5_merge_consumes_operands(ctx, P, R="C16.R5"):
    ctx.rule(R, "merge takes over the elements of both operands: on every returning path both BumpBox operands were moved out "
                "(into_raw), so neither is dropped - otherwise every element is dropped by the operand and again by the merged slice")
    bs = [b for b in P.fn_bodies() if b.item["name"] == "merge" and b.path.startswith("bump_box::BumpBox::<'a, [T]>::")]
    if not ctx.need(len(bs) == 1, R, "BumpBox<[T]>::merge"):
        return
    b = bs[0]
    irs = b.calls_to(lambda f: f.get("name") == "into_raw")
    for k in (1, 2):
        nm = b.locals[k].get("name") or f"_{k}"
        moved_blocks = [s_.bb for s_, t in irs if strip_ref(b.prov_operand(t["args"][0], s_))[0] == "param" and
                        strip_ref(b.prov_operand(t["args"][0], s_))[1] == k]
        okm, _ = b.must_pass(None, moved_blocks, exits=(RET,), cleanup=False, from_edge=0)
        dropped = [s_ for s_, t in b.drops() if t["p"]["l"] == k and not t["p"]["p"] and not b.is_cleanup(s_.bb) and
                   RET in b.reach([s_.bb], cleanup=False)]
        # a drop terminator of a moved-out local may remain behind a drop flag; what matters is that every returning path moved it
        ok = okm
        ctx.inst(R, b.path, ok, f"`{nm}` is moved out by into_raw() on every returning path" if ok else
                 f"a returning path does not move `{nm}` out (into_raw): the operand is dropped at the end of merge although the merged "
                 "slice now owns its elements - each element is dropped twice", where=b.where(), site=f"operand {nm} consumed")


def run(ctx, progs):
    ctx.assume("affine value numbering: pointer add/sub scaled by the symbolic element size; rotate_*, range, len are "
               "uninterpreted; no path-feasibility reasoning (identities must hold on every syntactic path)")
    for lab, P in progs:
        ctx.config = lab
        r1_partitions(ctx, P)
        r2_validation_first(ctx, P)
        r3_no_block_metadata(ctx, P)
        r4_rotation_siblings(ctx, P)
        r5_merge_consumes_operands(ctx, P)
        from . import c08, c01
        c08.r6_zst_sibling_agreement(ctx, P, R="C16.R6")
        c01.r3b_is_last_exact(ctx, P, R="C16.R7")
        from . import c13
        from .poswrite import PosDiscipline
        c13.r3_reclaim_boundary(ctx, P, PosDiscipline(P), R="C16.R8")
    ctx.config = None
