"""Syntactic def-use tracing through temporaries (no field sensitivity): which calls and which named fields feed a local."""


def feeders(b, local, stop_call=lambda t: False):
    """(call sites, named field reads) that flow into `local` through whole-local assignments and call results.
    Tracing does not continue through the arguments of a call for which stop_call(term) holds."""
    calls, fields, seen = [], set(), set()

    def of_place(pl):
        for pe in pl["p"]:
            if isinstance(pe, dict) and pe.get("n"):
                fields.add((pe.get("of"), pe["n"]))
        go(pl["l"])

    def of_op(o):
        if isinstance(o, dict) and o.get("k") in ("cp", "mv"):
            of_place(o["p"])

    def go(l):
        if l in seen:
            return
        seen.add(l)
        for _, st in b.assigns():
            if st["p"]["l"] == l and not st["p"]["p"]:
                r = st["r"]
                for k in ("o", "a", "b"):
                    of_op(r.get(k))
                for o in r.get("fields", []) or []:
                    of_op(o)
                if isinstance(r.get("p"), dict):
                    of_place(r["p"])
        for s, t in b.calls():
            if t["dest"]["l"] == l and not t["dest"]["p"]:
                calls.append((s, t))
                if not stop_call(t):
                    for o in t["args"]:
                        of_op(o)

    go(local)
    return calls, fields


def op_local(o):
    return o["p"]["l"] if isinstance(o, dict) and o.get("k") in ("cp", "mv") else None
