"""C10 — arena bookkeeping and reported statistics are always coherent."""
from ..ir import show, phi_alts, walk_expr, expr_mentions, Site, RET
from ..sym import Sym, Unanalysable, affine, specialise, subst, Affine, ite_leaves, simplify
from .common import *
from .poswrite import *
from . import c01

EXPLANATION = (
    "Static rules over polymorphic MIR. C10.R1: every value handed to the position writer family is min-aligned by "
    "construction: an aligner with modulus >= S::MIN_ALIGN (MIN_ALIGN itself, max(x, MIN_ALIGN), or a stricter "
    "alignment under the dominating test NEW > MIN_ALIGN), a bump result, a content boundary, a restore, a checkpoint, "
    "or a block end passed through an aligning wrapper; the wrappers and aligner helpers have their canonical form "
    "(R1c). C10.R2: accounting identities by affine value numbering, typed and type-erased, both directions: "
    "allocated + remaining = capacity, size - capacity = header size; Stats/AnyStats sum the tabled accessor over "
    "prev/current/next. C10.R3: every accessor of the type-erased AnyChunk has the same affine normal form as the "
    "typed accessor it shadows (header, end, pos, header size identified); R3b: no size-dependent pointer operation "
    "on the erased ChunkHeader<()>. C10.R4: chunk list symmetry: append_for constructs the new header with prev = self "
    "and then sets self.next = new; reset clears prev of the survivor; no other writer of prev/next. C10.R5: the size "
    "recorded for a chunk is align_allocation_size(granted length). Not decided: the numbers themselves (positions "
    "inside the chunk, 'each later chunk strictly larger').")


# ---------------------------------------------------------------------------------------------- R1

def checkpoint_realigned(P, D, pw):
    """After a checkpoint restore, every return path of each restoring function passes an aligning write for S::MIN_ALIGN."""
    body = pw.body
    users = []          # (body, site after which the re-alignment has to follow)
    if body.item["name"] == "reset_within_chunk":
        for b in P.fn_bodies():
            for s, t in b.calls():
                if any(tid == body.id for tid, _ in P.callee_targets(t["f"])):
                    users.append((b, s))
    else:
        users.append((body, pw.site))
    if not users:
        return False, "checkpoint restore without a caller to re-align it"
    for b, s in users:
        al_blocks = []
        for q in D.sites:
            if q.body.id != b.id:
                continue
            for cls, detail in c01.classify_value(D, q):
                if cls == "aligner" and align_at_least_min(detail[1]):
                    al_blocks.append(q.site.bb)
        ok, _ = b.must_pass(s, al_blocks, exits=(RET,), cleanup=False)
        if not ok:
            return False, (f"the checkpoint address is restored in {b.path} and a return path follows without re-aligning the "
                           "position to S::MIN_ALIGN: a checkpoint taken under a lower minimum alignment (inside aligned::<N>, or "
                           "before entering it) leaves the position mis-aligned for the alignment in force")
    return True, f"checkpoint address, re-aligned to S::MIN_ALIGN on every path after the restore ({len(users)} restoring function(s))"


def r1_min_aligned(ctx, P, D, R="C10.R1"):
    ctx.rule(R, "every written position value is min-aligned by construction")
    n = 0
    for pw in D.sites:
        b = pw.body
        in_family = b.id in D.family and D.family[b.id]["value_params"]
        for k, (cls, detail) in enumerate(c01.classify_value(D, pw)):
            n += 1
            ok, why = True, cls
            if cls == "aligner":
                al_expr = detail[1]
                if align_at_least_min(al_expr):
                    why = f"aligner with modulus {show(al_expr)} >= MIN_ALIGN"
                else:
                    # stricter alignment under a dominating `X > S::MIN_ALIGN` test
                    def gt_min(e, al=al_expr):
                        if e[0] == "bin" and e[1] == "Gt" and strip_casts(e[2]) == strip_casts(al) and is_min_align(e[3]):
                            return True
                        if e[0] == "bin" and e[1] == "Lt" and strip_casts(e[3]) == strip_casts(al) and is_min_align(e[2]):
                            return True
                        return None
                    te, fe = b.cond_edges(gt_min)
                    ok = b.controlled_by(pw.site, te, cleanup=False)
                    why = f"aligner with modulus {show(al_expr)}" + (" under the dominating test `> MIN_ALIGN`" if ok else
                                                                    " which is not known to be >= S::MIN_ALIGN")
            elif cls in ("block-affine", "param"):
                if in_family:
                    # inside a wrapper the raw parameter may only be forwarded un-aligned when the wrapper's own
                    # contract says so: `_from(pos, pos_align)` under `!(pos_align < MIN_ALIGN)`; plain set_pos/set_pos_addr
                    nm = b.item["name"]
                    if nm in ("set_pos", "set_pos_addr"):
                        why = "identity wrapper (callers are checked)"
                    else:
                        def lt_min(e):
                            if e[0] == "bin" and e[1] == "Lt" and strip_casts(e[2])[0] == "param" and is_min_align(e[3]):
                                return True
                            return None
                        te, fe = b.cond_edges(lt_min)
                        # the un-aligned alternative must not be reachable when pos_align < MIN_ALIGN: every path
                        # from a true edge to the write passes an aligner call
                        alblocks = [s.bb for s, t in b.calls() if t["f"].get("name") in ALIGNERS]
                        good = bool(te) and all(b.must_pass(None, alblocks, exits=(RET,), cleanup=False, from_edge=tgt)[0]
                                                for (_, tgt, _) in te)
                        ok = good
                        why = "forwarded un-aligned only when pos_align >= MIN_ALIGN" if ok else \
                            "raw parameter reaches the writer without alignment"
                else:
                    ok = pw.callee_name in c01.ALIGNING_WRAPPERS
                    why = f"block end through the aligning wrapper {pw.callee_name}" if ok else \
                        "block end written without alignment"
            elif cls == "checkpoint":
                # a checkpoint address was aligned for the minimum alignment in force when it was *taken*; a view with
                # another minimum alignment (aligned::<N>, with_settings) may restore it: every path after the restore
                # must re-align the position for the S of the restoring allocator
                ok, why = checkpoint_realigned(P, D, pw)
            elif cls == "raw":
                ok, why = False, "value of unknown provenance"
            ctx.inst(R, b.path, ok, f"{pw.callee_name}({detail if isinstance(detail, str) else detail[2]}): {why}",
                     where=b.where(pw.site), site=f"{pw.callee_name}#{c01.site_ordinal(D, pw)} alt{k} aligned")
    ctx.floor(R, "written position values checked for min-alignment", n, 28)


def r1d_aligner_direction(ctx, P, D, R="C10.R1d"):
    ctx.rule(R, "a position value is rounded towards the free side: up-aligners only where S::UP is known true, down-aligners only "
                "where it is known false, direction-generic code goes through align_pos(S::UP, ..); rounding the other way moves "
                "the position into the block that was just handed out (or the neighbouring live one)")
    from .c13 import setting_pred
    n = 0
    for pw in D.sites:
        b = pw.body
        up_t, up_f = b.cond_edges(setting_pred("UP"))
        for k, (cls, detail) in enumerate(c01.classify_value(D, pw)):
            if cls != "aligner":
                continue
            nm = detail[0]
            n += 1
            if nm.startswith("align_pos"):
                ctx.inst(R, b.path, True, f"{pw.callee_name}: direction-generic align_pos", where=b.where(pw.site),
                         site=f"{pw.callee_name}#{c01.site_ordinal(D, pw)} alt{k} direction", nontrivial=False)
                continue
            want_up = nm.startswith("up_")
            in_up = b.controlled_by(pw.site, up_t, cleanup=False)
            in_dn = b.controlled_by(pw.site, up_f, cleanup=False)
            # the aligner call itself may sit in an UP arm although the write is shared by both arms
            if not (in_up or in_dn):
                als = [s_ for s_, t in b.calls() if t["f"].get("name") == nm and b.can_reach(s_, pw.site, cleanup=False)]
                if als and all(b.controlled_by(s_, up_t, cleanup=False) for s_ in als):
                    in_up = True
                elif als and all(b.controlled_by(s_, up_f, cleanup=False) for s_ in als):
                    in_dn = True
            in_family = b.id in D.family
            ok = (want_up and in_up) or (not want_up and in_dn) or (in_family and not (in_up or in_dn) and False)
            if not (in_up or in_dn) and in_family:
                # inside the writer family the direction is the caller's business only for align_pos; anything else is checked here
                ok = False
            ctx.inst(R, b.path, ok, f"{pw.callee_name}: `{nm}` under S::UP == {'true' if in_up else 'false'}" if ok else
                     f"{pw.callee_name}: the position is rounded with `{nm}` " + ("where S::UP is " + ("true" if in_up else "false") if (in_up or in_dn)
                     else "regardless of the bump direction") + f": when bumping {'downwards' if want_up else 'upwards'} this rounds into "
                     "allocated memory - the next allocation overlaps the block that was just returned", where=b.where(pw.site),
                     site=f"{pw.callee_name}#{c01.site_ordinal(D, pw)} alt{k} direction")
    ctx.floor(R, "aligned position writes checked for direction", n, 6)


def r1c_aligner_forms(ctx, P):
    R = "C10.R1c"
    ctx.rule(R, "aligner helpers have their canonical form: up = (x + (a-1)) & !(a-1), down = x & !(a-1); align_pos "
                "dispatches on its direction flag; the aligning wrapper aligns with S::MIN_ALIGN in direction S::UP")
    S = Sym(P, inline_depth=0)

    def mask_of(e, align_param):
        e = strip_casts(e)
        return e[0] == "bin" and e[1] in ("Sub", "SubUnchecked") and strip_casts(e[2]) == ("param", align_param[0], align_param[1]) \
            and strip_casts(e[3])[0] == "int" and strip_casts(e[3])[1] == 1

    for path, kind in (("up_align_usize_unchecked", "up"), ("down_align_usize", "down")):
        it = P.find(path)
        if not ctx.need(it is not None, R, path):
            continue
        b = P.body(it["id"])
        e = strip_casts(S.ret(it["id"]))
        x = ("param", 1, b.locals[1].get("name"))
        a = (2, b.locals[2].get("name"))
        ok = e[0] == "bin" and e[1] == "BitAnd"
        if ok:
            l, r = strip_casts(e[2]), strip_casts(e[3])
            notmask = r[0] == "un" and r[1] == "Not" and mask_of(r[2], a)
            if kind == "down":
                ok = notmask and l == x
            else:
                ok = notmask and l[0] == "bin" and l[1] in ("Add", "AddUnchecked") and strip_casts(l[2]) == x and mask_of(l[3], a)
        ctx.inst(R, path, ok, f"{path} returns {show(e)}", where=b.where(), site="canonical form")
    it = P.find("align_pos")
    if ctx.need(it is not None, R, "align_pos"):
        b = P.body(it["id"])
        e = S.ret(it["id"])
        ok = False
        if e[0] == "ite" and strip_casts(e[1]) == ("param", 1, b.locals[1].get("name")):
            arms = dict(e[2])
            dn = arms.get("0")
            up = arms.get("else") or arms.get("1")
            def is_call(x, nm):
                x = strip_casts(x)
                return x is not None and x[0] == "call" and x[1].split("::")[-1] == nm and \
                    strip_casts(x[2][0]) == ("param", 3, b.locals[3].get("name")) and \
                    strip_casts(x[2][1]) == ("param", 2, b.locals[2].get("name"))
            ok = is_call(up, "up_align_usize_unchecked") and is_call(dn, "down_align_usize")
        ctx.inst(R, "align_pos", ok, f"align_pos returns {show(e)}", where=b.where(), site="dispatch")
    for b in P.fn_bodies():
        if b.item["name"] == "set_pos_addr_and_align" and "NonDummyChunk" in b.path:
            for s, t in b.calls():
                if t["f"].get("name") == "align_pos":
                    up = b.prov_operand(t["args"][0], s)
                    al = b.prov_operand(t["args"][1], s)
                    ok = up[0] == "assoc_const" and up[2] == "UP" and is_min_align(al)
                    ctx.inst(R, b.path, ok, f"aligning wrapper calls align_pos({show(up)}, {show(al)}, ..)",
                             where=b.where(s), site="align_pos args")


# ---------------------------------------------------------------------------------------------- R2 / R3 (AVN)

TYPED_IMPL = "raw_bump::NonDummyChunk<A, S>"
ACCESSORS = ["chunk_start", "chunk_end", "content_start", "content_end", "size", "capacity", "allocated", "remaining"]
POS_NAMES = {"typed": "pos", "erased": "bump_position"}


def find_method(P, self_ty_prefix, name, inherent=True):
    out = []
    for im in P.facts["impls"]:
        if im["self_ty"].startswith(self_ty_prefix) and (not inherent or not im.get("trait")):
            for it in im["items"]:
                if it["name"] == name and it["id"] in P.raw_bodies:
                    out.append(it["id"])
    return out


def norm_atoms(e):
    """Identify header / end / pos / header-size atoms of the typed and the erased view."""
    def fn(n):
        if n[0] in ("ref", "deref"):
            return n[1]
        if n[0] == "cast":
            return n[2]
        if n[0] == "field":
            if n[2] == "header" or (n[2] == "raw"):
                base = n[1]
                if base[0] in ("param",) or base == ("H",) or base[0] == "field":
                    return ("H",) if n[2] == "header" else base
            if n[1] == ("H",) and n[2] in ("end", "pos", "prev", "next"):
                return ("H" + n[2],)
            if n[2] == "header_size":
                return ("HSIZE",)
            if n[2] == "chunk" and n[1][0] == "param":
                return n[1]
        if n[0] == "call" and n[1].split("::")[-1] in ("size_of",) and n[3] and "ChunkHeader<A>" in n[3][0]:
            return ("HSIZE",)
        if n[0] == "const_item" and "size_of" in n[1]:
            return ("HSIZE",)
        return None
    return subst(e, fn)


def elem_size_header(call):
    ty = call[3][0] if call[3] else "?"
    if ty == "u8":
        return Affine({}, 1)
    if "ChunkHeader<A>" in ty:
        return Affine({("HSIZE",): 1})
    return Affine({("sizeof", ty): 1})


def direction_forms(P, S, fid, kind):
    """{True: Affine, False: Affine} of an accessor's result for upward / downward, or raises Unanalysable."""
    e = S.ret(fid)
    out = {}
    for up in (True, False):
        def pv(c, up=up):
            c = strip_casts(c)
            if c[0] == "assoc_const" and c[2] == "UP":
                return 1 if up else 0
            if c[0] == "call" and c[1].split("::")[-1] in ("is_upwards_allocating",):
                return 1 if up else 0
            if c[0] == "call" and c[1] == "core::cmp::PartialOrd::gt":
                # erased direction test: header.end > header
                a, b = norm_atoms(c[2][0]), norm_atoms(c[2][1])
                if a == ("Hend",) and b == ("H",):
                    return 1 if up else 0
            return None
        sp = specialise(e, pv)
        sp = norm_atoms(sp)
        if expr_mentions(sp, lambda x: x[0] == "ite"):
            raise Unanalysable(f"unresolved conditional in {show(sp)[:200]}")
        out[up] = affine(sp, elem_size_header)
    return out


def r2r3_accounting(ctx, P):
    R2, R3 = "C10.R2", "C10.R3"
    ctx.rule(R2, "allocated + remaining = capacity and size - capacity = header size (typed and erased, up and down); "
                 "Stats/AnyStats sum the tabled accessor over prev/current/next")
    ctx.rule(R3, "each AnyChunk accessor has the same affine normal form as the NonDummyChunk accessor it shadows")
    S = Sym(P, inline_depth=5)
    forms = {"typed": {}, "erased": {}}
    for acc in ACCESSORS:
        t = find_method(P, "raw_bump::NonDummyChunk<", acc)
        e = find_method(P, "stats::any::AnyChunk<", acc)
        ctx.need(len(t) == 1, R3, f"typed accessor NonDummyChunk::{acc}")
        ctx.need(len(e) == 1, R3, f"erased accessor AnyChunk::{acc}")
        for kind, ids in (("typed", t), ("erased", e)):
            if len(ids) == 1:
                try:
                    forms[kind][acc] = direction_forms(P, S, ids[0], kind)
                except Unanalysable as ex:
                    ctx.inst(R3, f"{kind} {acc}", False, f"not analysable: {ex}", site="avn")
    # R3: typed == erased
    for acc in ACCESSORS:
        if acc in forms["typed"] and acc in forms["erased"]:
            for up in (True, False):
                a, b = forms["typed"][acc][up], forms["erased"][acc][up]
                ctx.inst(R3, f"AnyChunk::{acc}", a == b,
                         f"{'up' if up else 'down'}: typed = {a!r} ; erased = {b!r}" + ("" if a == b else
                         "  — the type-erased statistics report a different value than the typed ones"),
                         where=P.body(find_method(P, 'stats::any::AnyChunk<', acc)[0]).where(), site=f"{'up' if up else 'down'} typed==erased")
    # R2 identities
    for kind in ("typed", "erased"):
        f = forms[kind]
        if all(k in f for k in ("allocated", "remaining", "capacity", "size")):
            for up in (True, False):
                lhs = f["allocated"][up] + f["remaining"][up]
                ok = lhs == f["capacity"][up]
                ctx.inst(R2, f"{kind} chunk", ok, f"{'up' if up else 'down'}: allocated + remaining = {lhs!r}; capacity = {f['capacity'][up]!r}",
                         site=f"{'up' if up else 'down'} allocated+remaining=capacity")
                diff = f["size"][up] - f["capacity"][up]
                ok2 = diff == Affine({("HSIZE",): 1})
                ctx.inst(R2, f"{kind} chunk", ok2, f"{'up' if up else 'down'}: size - capacity = {diff!r} (expected the header size)",
                         site=f"{'up' if up else 'down'} size-capacity=header")
    # erased header size atom is the real header size: From<Chunk<A,S>> sets header_size = size_of::<ChunkHeader<A>>()
    froms = [b for b in P.fn_bodies() if b.item["name"] == "from" and "AnyChunk" in b.path and "Chunk<" in b.path]
    okf = False
    for b in froms:
        for s, st in b.assigns():
            r = st["r"]
            if r["k"] == "agg" and r.get("adt", "").endswith("AnyChunk") and "header_size" in r.get("fnames", []):
                v = b.prov_operand(r["fields"][r["fnames"].index("header_size")], s)
                okf = expr_mentions(v, lambda x: (x[0] in ("call", "const_item") and "size_of" in x[1]) and
                                    any("ChunkHeader<A>" in g for g in (x[3] if x[0] == "call" else x[2])))
                ctx.inst(R3, b.path, okf, f"AnyChunk.header_size is initialised with {show(v)}", where=b.where(s), site="header_size source")
    ctx.need(bool(froms), R3, "impl From<Chunk<A,S>> for AnyChunk")
    # prev/next propagate header_size
    for nm in ("prev", "next"):
        for fid in find_method(P, "stats::any::AnyChunk<", nm):
            b = P.body(fid)
            for s, st in b.assigns():
                r = st["r"]
                if r["k"] == "agg" and r.get("adt", "").endswith("AnyChunk") and "header_size" in r.get("fnames", []):
                    v = b.prov_operand(r["fields"][r["fnames"].index("header_size")], s)
                    ok = strip_ref(v)[0] == "field" and strip_ref(v)[2] == "header_size"
                    ctx.inst(R3, b.path, ok, f"AnyChunk::{nm} propagates header_size ({show(v)})", where=b.where(s), site="header_size propagate")

    # Stats / AnyStats sums
    EXPECT = {"count": {"cur": "1", "prev": "1", "next": "1"},
              "size": {"cur": "size", "prev": "size", "next": "size"},
              "capacity": {"cur": "capacity", "prev": "capacity", "next": "capacity"},
              "allocated": {"cur": "allocated", "prev": "capacity"},
              "remaining": {"cur": "remaining", "next": "capacity"}}
    for kind, prefix in (("typed", "stats::Stats<"), ("erased", "stats::any::AnyStats<")):
        for nm, exp in EXPECT.items():
            ids = find_method(P, prefix, nm)
            if not ctx.need(len(ids) == 1, R2, f"{prefix}>::{nm}"):
                continue
            b = P.body(ids[0])
            got = {}
            for s, t in b.calls():
                p = t["f"].get("path", "")
                if p.endswith("Iterator::for_each"):
                    recv = b.prov_operand(t["args"][0], s)
                    which = "prev" if expr_mentions(recv, lambda x: x[0] == "call" and x[1].endswith("iter_prev")) else \
                        ("next" if expr_mentions(recv, lambda x: x[0] == "call" and x[1].endswith("iter_next")) else "?")
                    cl = [a.get("closure") for a in t["f"].get("args", []) if a.get("closure")]
                    acc = "1"
                    if cl and P.body(cl[0]):
                        names = [tt["f"].get("name") for _, tt in P.body(cl[0]).calls() if tt["f"].get("name") in ACCESSORS]
                        acc = names[0] if names else "1"
                    got[which] = acc
                elif t["f"].get("name") in ACCESSORS and not p.endswith("for_each"):
                    got["cur"] = t["f"]["name"]
            if nm == "count":
                got.setdefault("cur", "1")
            ctx.inst(R2, b.path, got == exp, f"sums {got}; expected {exp}", where=b.where(), site="sum shape")
            # the dummy case returns 0 first
            rets = [b.prov_place({"l": 0, "p": []}, b.term_site(rb)) for rb in b.return_blocks()]
            has0 = any(a == ("int", 0, "usize") for r in rets for a in phi_alts(r))
            ctx.inst(R2, b.path, has0, "returns 0 when there is no current chunk (claimed / unallocated)", where=b.where(), site="zero when dummy")


def r3b_erased_header_arith(ctx, P):
    R = "C10.R3b"
    ctx.rule(R, "no size-dependent pointer operation (add/sub/offset/size_of) on the type-erased ChunkHeader<()>")
    SIZE_OPS = {"add", "sub", "offset", "wrapping_add", "wrapping_sub", "offset_from", "offset_from_unsigned", "size_of",
                "size_of_val", "read", "write", "replace", "swap"}
    ERASED = "chunk::header::ChunkHeader"
    n_total = 0
    n_header_ops = 0
    for b in P.fn_bodies():
        for s, t in b.calls():
            f = t["f"]
            nm = f.get("name")
            if nm not in SIZE_OPS or f.get("krate") != "core":
                continue
            tys = [a["s"] for a in f.get("args", []) if a["k"] == "ty"]
            if not tys:
                continue
            n_total += 1
            if "ChunkHeader" in tys[0]:
                n_header_ops += 1
            bad = tys[0] == ERASED
            if bad or "ChunkHeader" in tys[0]:
                ctx.inst(R, b.path, not bad, f"{nm}::<{tys[0]}> " + ("operates on the erased header type: its size is that of "
                         "ChunkHeader<()>, not of the real ChunkHeader<A> (wrong for base allocators of non-zero size)" if bad
                         else "uses the real header type"), where=b.where(s), site=f"{nm}::<{tys[0]}>")
    ctx.floor(R, "size-dependent operations on ChunkHeader<A> pointers (positive control)", n_header_ops, 3)


def header_field_cell_writes(P, field):
    out = []
    for b in P.fn_bodies():
        for s, t in b.calls():
            if t["f"].get("path") in CELL_WRITES and t["args"]:
                recv = b.prov_operand(t["args"][0], s)
                if expr_mentions(recv, lambda x: is_header_field(x, field)):
                    out.append((b, s, t))
    return out


def r4_links(ctx, P, D):
    R = "C10.R4"
    ctx.rule(R, "append_for builds the new header with prev = self and then sets self.next = new; reset clears prev of "
                "the survivor; nobody else writes prev/next")
    nw = header_field_cell_writes(P, "next")
    pw = header_field_cell_writes(P, "prev")
    ctx.need(len(nw) >= 1, R, "a writer of ChunkHeader.next")
    ctx.need(len(pw) >= 1, R, "a writer of ChunkHeader.prev")
    for b, s, t in nw:
        ok = b.item["name"] == "append_for"
        v = b.prov_operand(t["args"][1], s)
        if ok:
            # value = Some(<result of Self::new(.., Some(self), ..)>.header), receiver = self.header.next
            news = [c for c in calls_in(v) if c[1].split("::")[-1] == "new" and "NonDummyChunk" in c[1]]
            ok = bool(news) and v[0] == "agg" and v[2] == "Some"
            if ok:
                prev_arg = news[0][2][1]
                ok = prev_arg[0] == "agg" and prev_arg[2] == "Some" and strip_ref(prev_arg[4][0])[0] == "param"
            recv = b.prov_operand(t["args"][0], s)
            ok = ok and expr_mentions(recv, lambda x: x[0] == "param" and x[1] == 1)
        ctx.inst(R, b.path, ok, f"next.set({show(v)})" + ("" if ok else " — not the append protocol (new chunk built with "
                 "prev = Some(self), then self.next = Some(new))"), where=b.where(s), site="next writer")
    for b, s, t in pw:
        v = b.prov_operand(t["args"][1], s)
        ok = b.item["name"] == "reset" and "RawBump" in b.path and v[0] == "agg" and v[2] == "None"
        ctx.inst(R, b.path, ok, f"prev.set({show(v)})" + ("" if ok else " — only RawBump::reset may unlink the predecessors "
                 "(after freeing them)"), where=b.where(s), site="prev writer")
    # header aggregate in NonDummyChunk::new takes prev from the parameter and next = None
    for b, s, st in D.header_aggs:
        if b.item["kind"].startswith("Static"):
            continue
        r = st["r"]
        fn = r["fnames"]
        pv = b.prov_operand(r["fields"][fn.index("prev")], s)
        nv = b.prov_operand(r["fields"][fn.index("next")], s)
        okp = expr_mentions(pv, lambda x: x[0] == "param")
        okn = expr_mentions(nv, lambda x: x[0] == "agg" and x[2] == "None")
        ctx.inst(R, b.path, okp and okn, f"new header: prev = {show(pv)}, next = {show(nv)}", where=b.where(s),
                 site=f"header init bb-order {sorted(x[1].bb for x in D.header_aggs if x[0].id == b.id).index(s.bb)}")


def r5_chunk_size(ctx, P, D):
    R = "C10.R5"
    ctx.rule(R, "the size recorded for a new chunk is align_allocation_size(length granted by the base allocator); the "
                "header lies inside the granted block")
    n = 0
    for b, s, st in D.header_aggs:
        if b.item["kind"].startswith("Static"):
            continue
        r = st["r"]
        fn = r["fnames"]
        ev = b.prov_operand(r["fields"][fn.index("end")], s)
        posv = b.prov_operand(r["fields"][fn.index("pos")], s)
        up_t, up_f = b.cond_edges(lambda e: True if (e[0] == "assoc_const" and e[2] == "UP") else None)
        is_up = b.controlled_by(s, up_t, cleanup=False)

        def granted(e):
            return expr_mentions(e, lambda x: x[0] == "call" and x[1].endswith("Allocator::allocate"))

        def aligned_size(e):
            return expr_mentions(e, lambda x: x[0] == "call" and x[1].split("::")[-1] == "align_allocation_size" and
                                 expr_mentions(x[2][0], lambda y: (y[0] == "call" and y[1].split("::")[-1] == "len") or
                                               (y[0] == "un" and y[1] == "PtrMetadata")) and granted(x[2][0]))
        n += 1
        if is_up:
            ok = granted(ev) and aligned_size(ev) and granted(posv) and not aligned_size(posv)
            desc = f"up: end = {show(ev)} ; pos = {show(posv)}"
        else:
            ok = granted(ev) and not aligned_size(ev) and aligned_size(posv)
            desc = f"down: end = {show(ev)} ; pos(header) = {show(posv)}"
        ctx.inst(R, b.path, ok, desc + ("" if ok else " — the chunk extent is not derived from the aligned granted size"),
                 where=b.where(s), site=f"{'up' if is_up else 'down'} extent")
    ctx.floor(R, "header constructions checked", n, 2)


def run(ctx, progs):
    ctx.assume("rustc nightly's type checker, MIR construction and trait resolution are correct")
    ctx.assume("affine value numbering treats pointer add/sub as scaled by the pointee size and all other calls as "
               "uninterpreted; bodies with loops are refused, not passed")
    ctx.assume("the identification header_size == size_of::<ChunkHeader<A>>() is itself checked (C10.R3 header_size source)")
    for lab, P in progs:
        ctx.config = lab
        D = PosDiscipline(P)
        r1_min_aligned(ctx, P, D)
        r1c_aligner_forms(ctx, P)
        c01.r6r7_primitives(ctx, P, R6="C10.R1b", R7="C10.R1b")
        r1d_aligner_direction(ctx, P, D)
        r2r3_accounting(ctx, P)
        r3b_erased_header_arith(ctx, P)
        r4_links(ctx, P, D)
        r5_chunk_size(ctx, P, D)
        from . import c18
        c18.r5_by_value(ctx, P, R="C10.R6")
        from . import c05
        c05.r3_reset(ctx, P, R="C10.R7")
        from . import c12 as _c12
        _c12.r3_growth(ctx, P, R="C10.R8")
    ctx.config = None
