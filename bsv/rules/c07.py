"""C07 — allocation failure is reported as an error and leaves all state intact."""
import re
from ..ir import show, phi_alts, walk_expr, expr_mentions, Site, RET, UNW
from .common import *
from . import c05

EXPLANATION = (
    "Static rules over polymorphic MIR with a binding-aware call graph. C07.R1: ErrorBehavior is implemented for the "
    "uninhabited core::convert::Infallible; none of its constructors has a reachable return; panic_on_error only unwraps "
    "Ok - so a panicking method cannot return normally after a failure. C07.R2: from every public try_* function and every "
    "method of every Allocator / BumpAllocatorCore impl, under the binding E = AllocError, no path reaches the crate's "
    "allocation-failure panic set (handle_alloc_error, capacity_overflow, format_trait_error, error_behavior::panic::*, "
    "panic_on_error, any <Infallible as ErrorBehavior> method) and no ErrorBehavior parameter is ever bound to Infallible. "
    "C07.R3: a failed chunk creation links nothing (same rule as C05.R5). C07.R4: in every generic_*<E> single-operation "
    "method of the seven collection types no path leads from a buffer/length mutation to a call that can return Err(E) "
    "(reserve before write). C07.R5: size computations from caller-supplied counts are checked and their failure edge "
    "constructs capacity_overflow / invalid_slice_layout / None; no unwrap on them. C07.R6: in E-generic RawBump methods no "
    "E-fallible call is reachable from a write of the current-chunk cell (commit after the last fallible step). Not decided: post-failure values "
    "beyond what the ordering implies; multi-step operations (from_iter/extend).")

EB = "error_behavior::ErrorBehavior"
INFALLIBLE = "core::convert::Infallible"
ALLOC_ERROR = "alloc::AllocError"
EB_CTORS = {"allocation", "capacity_overflow", "claimed", "fixed_size_vector_is_full", "fixed_size_vector_no_space",
            "invalid_slice_layout", "format_trait_error"}
PANIC_FOREIGN = {"alloc::alloc::handle_alloc_error", "std::alloc::handle_alloc_error"}


def panic_set(P):
    ids = {}
    for it in P.facts["items"]:
        if it["kind"] not in ("Fn", "AssocFn") or it["id"] not in P.raw_bodies:
            continue
        p = it["path"]
        if p in ("handle_alloc_error", "private::capacity_overflow", "private::format_trait_error", "panic_on_error") or \
                p.startswith("error_behavior::panic::"):
            ids[it["id"]] = p
        impl = P.impl_of_item.get(it["id"])
        if impl and impl.get("trait") == EB and impl["self_ty"] == INFALLIBLE:
            ids[it["id"]] = p
    return ids


def r1_infallible(ctx, P):
    R = "C07.R1"
    ctx.rule(R, "the panicking error behaviour is uninhabited and its constructors never return")
    impls = [im for im in P.facts["impls"] if im.get("trait") == EB]
    selfs = sorted(im["self_ty"] for im in impls)
    has_inf = INFALLIBLE in selfs
    if not has_inf:
        ctx.note(f"fact base {ctx.config}: no ErrorBehavior impl for Infallible (feature panic-on-alloc disabled)")
    ctx.inst(R, "ErrorBehavior impls", set(selfs) <= {INFALLIBLE, ALLOC_ERROR} and ALLOC_ERROR in selfs,
             f"ErrorBehavior is implemented for {selfs}", site="impl set")
    for im in impls:
        if im["self_ty"] != INFALLIBLE:
            continue
        for it in im["items"]:
            if it["name"] in EB_CTORS and it["id"] in P.raw_bodies:
                b = P.body(it["id"])
                ok = not b.return_blocks()
                ctx.inst(R, b.path, ok, "constructor has no reachable return (diverges)" if ok else
                         "constructor of the panicking error behaviour can return: a panicking method could return normally after "
                         "a failure", where=b.where(), site="diverges")
    b = P.find_body("panic_on_error")
    if has_inf and ctx.need(b is not None, R, "panic_on_error"):
        calls = [t["f"].get("path") for s, t in b.calls()]
        ok = b.locals[1]["ty"].endswith(", core::convert::Infallible>") and not calls
        ctx.inst(R, b.path, ok, f"panic_on_error takes Result<T, Infallible> and only unwraps Ok (calls: {calls})", where=b.where(), site="unwrap Ok")


def try_roots(P):
    roots = []
    for it in P.facts["items"]:
        if it["kind"] not in ("Fn", "AssocFn") or it["id"] not in P.raw_bodies:
            continue
        impl = P.impl_of_item.get(it["id"])
        tr = (impl or {}).get("trait") or ""
        tdef = P.trait_of_item.get(it["id"])
        if it["name"].startswith("try_") and (it.get("pub") or it.get("reachable") or impl is not None or tdef is not None):
            roots.append((it["id"], "try_"))
        elif tr.endswith("::Allocator") or tr == "alloc::Allocator" or tr.endswith("BumpAllocatorCore") or \
                tr in ("core::alloc::GlobalAlloc",):
            roots.append((it["id"], "allocator interface"))
        elif tdef is not None and tdef["path"] in ("alloc::Allocator", "traits::bump_allocator_core::BumpAllocatorCore"):
            roots.append((it["id"], "allocator interface (provided)"))
        elif tr == "core::fmt::Write" and "PanicsOnAlloc<" not in (impl or {}).get("self_ty", ""):
            # core::fmt::write drives these through a vtable (invisible to the call graph) from every try_*fmt* method:
            # they are the sink of try_alloc_fmt / try_write_fmt and must report failure as fmt::Error
            roots.append((it["id"], "fmt::Write sink of the try_ formatting methods"))
    return roots


def r2_try_purity(ctx, P):
    R = "C07.R2"
    ctx.rule(R, "try_* functions and allocator-interface methods cannot reach the allocation-failure panic set; no "
                "ErrorBehavior parameter is bound to Infallible on the way")
    ps = panic_set(P)
    ctx.need(any(p == "panic_on_error" for p in ps.values()) or "nodefault" in (ctx.config or ""), R, "panic set (panic_on_error)")
    roots = try_roots(P)
    ctx.floor(R, "roots (try_* functions and allocator-interface methods)", len(roots), 300)
    ctx.floor(R, "fmt::Write sink methods among the roots", sum(1 for _, w in roots if w.startswith("fmt::Write")), 4)
    nbad = 0
    # one BFS from all roots (binding-aware); remember the root through parents
    init = []
    for fid, why in roots:
        bind = {}
        it = P.items[fid]
        for g in it.get("generics", []):
            if (g["name"] + ": " + EB) in it.get("preds", []):
                bind[g["name"]] = ALLOC_ERROR
        init.append((fid, bind))
    parents = P.reach_fns(init, binding_aware=True)
    bad = {}

    def report(root, msg, where=None):
        bad.setdefault(root, []).append((msg, where))
    for st in parents:
        fid, fb = st
        if fid in ps:
            chain = P.path_to(parents, st)
            report(chain[0][0], f"reaches {ps[fid]}: " + " -> ".join(p for p, _ in chain))
        if INFALLIBLE in dict(fb).values():
            chain = P.path_to(parents, st)
            report(chain[0][0], "an ErrorBehavior parameter is bound to Infallible: " + " -> ".join(f"{p}{b or ''}" for p, b in chain))
        b = P.body(fid)
        if b is None:
            continue
        for s, t in b.calls():
            if t["f"].get("path") in PANIC_FOREIGN:
                chain = P.path_to(parents, st)
                report(chain[0][0], f"reaches {t['f']['path']}: " + " -> ".join(p for p, _ in chain), b.where(s))
            # explicit Infallible generic argument on a call
            for a in t["f"].get("args", []):
                if a.get("s") == INFALLIBLE:
                    chain = P.path_to(parents, st)
                    report(chain[0][0], f"calls {t['f']['path']} with Infallible: " + " -> ".join(p for p, _ in chain), b.where(s))
    for root, msgs in sorted(bad.items()):
        nbad += 1
        shortest = min(msgs, key=lambda m: len(m[0]))
        ctx.inst(R, root, False, f"can panic/abort on allocation failure ({len(msgs)} way(s)); shortest: {shortest[0]}", where=shortest[1],
                 site="reaches the allocation-failure panic set")
    # the deliberately panicking formatter sink must not be picked up on a try_ path
    from .c17 import const_value
    ae_panics = const_value(P, "<alloc::AllocError as error_behavior::ErrorBehavior>::PANICS_ON_ALLOC")
    has_poa = any(i.get("path", "").startswith("private::PanicsOnAlloc") for i in P.facts["items"])
    if has_poa or ae_panics is not None:
        ctx.inst(R, "<AllocError as ErrorBehavior>::PANICS_ON_ALLOC", ae_panics == 0, f"the constant is {ae_panics} (must be false: "
                 "generic code selects the panicking formatter sink by it)", site="AllocError does not panic on alloc")

    def dead_under_binding(st):
        """the edge into `st` is guarded by `<X as ErrorBehavior>::PANICS_ON_ALLOC` with X bound to AllocError in the caller"""
        par = parents[st]
        if not par or ae_panics != 0:
            return False
        (pfid, pfb), kind, site = par
        pb = P.body(pfid)
        if pb is None or site is None:
            return False
        bound = {k for k, v in dict(pfb).items() if v == ALLOC_ERROR}
        te, fe = pb.cond_edges(lambda e: True if (e[0] == "assoc_const" and e[2] == "PANICS_ON_ALLOC" and e[3] and e[3][0] in bound) else None)
        return bool(te) and pb.controlled_by(site, te, cleanup=False)
    poa = [st for st in parents if P.items.get(st[0], {}).get("path", "").startswith("private::PanicsOnAlloc::<T>::")]
    n_dead = 0
    for st in poa:
        if dead_under_binding(st):
            n_dead += 1
            ctx.inst(R, P.path_to(parents, st)[0][0], True, "PanicsOnAlloc is selected only under `B::PANICS_ON_ALLOC`, which is false for "
                     "the binding B = AllocError of this path", site="PanicsOnAlloc arm dead for AllocError")
            continue
        chain = P.path_to(parents, st)
        nbad += 1
        ctx.inst(R, chain[0][0], False, "wraps its sink in PanicsOnAlloc (the fmt::Write impl that panics on allocation failure): " +
                 " -> ".join(p for p, _ in chain), site="-> PanicsOnAlloc")
    for fid, fb in parents:
        b = P.body(fid)
        if b is None:
            continue
        for s_, st_ in b.assigns():
            if st_["r"]["k"] == "agg" and st_["r"].get("adt", "").endswith("PanicsOnAlloc"):
                chain = P.path_to(parents, (fid, fb))
                nbad += 1
                ctx.inst(R, chain[0][0], False, "constructs PanicsOnAlloc(..) on a try_/allocator-interface path: " +
                         " -> ".join(p for p, _ in chain), where=b.where(s_), site="-> PanicsOnAlloc aggregate")
    ctx.inst(R, "try_/allocator-interface call graph", nbad == 0, f"{len(roots)} roots, {len(parents)} (function, binding) states explored; "
             f"{nbad} path(s) into the panic set", site="summary")
    # each root individually recorded (sample of the population for the evidence)
    for fid, why in roots[:8]:
        ctx.inst(R, P.items[fid]["path"], True, f"root ({why})", site="root", nontrivial=False)


COLL = ("bump_vec::BumpVec<", "mut_bump_vec::MutBumpVec<", "mut_bump_vec_rev::MutBumpVecRev<", "fixed_bump_vec::FixedBumpVec<",
        "bump_string::BumpString<", "mut_bump_string::MutBumpString<", "fixed_bump_string::FixedBumpString<")
SINGLE_OP = re.compile(r"^generic_(push|insert|reserve|append|extend_from_slice|extend_from_within|extend_zeroed|resize|"
                       r"replace_range|into_cstr|grow|with_capacity|from_elem|from_array|from_str|try_push|extend_with)")
# multi-element operations driven by an iterator / callback: the statement speaks of a *single* push/insert/...; these
# may legitimately fail half-way (documented), so they are outside R4
MULTI_STEP = re.compile(r"(from_iter|^generic_extend$|^generic_extend_ref$|extend_desugared|from_owned_slice|^generic_map$)")
MUT_NAMES = {"set_len", "inc_len", "set_ptr", "set_cap", "set_len_on_drop", "dec_len"}


def eb_param(it):
    for g in it.get("generics", []):
        if (g["name"] + ": " + EB) in it.get("preds", []):
            return g["name"]
    return None


def r4_reserve_before_write(ctx, P):
    R = "C07.R4"
    ctx.rule(R, "in single-operation generic_*<E> methods of the collections no path leads from a buffer/length mutation "
                "to a call that can return Err(E)")
    nb = npairs = 0
    for b in P.fn_bodies():
        it = b.item
        if it["kind"] != "AssocFn" or MULTI_STEP.search(it["name"]):
            continue
        impl = P.impl_of_item.get(it["id"])
        if not impl or not impl["self_ty"].startswith(COLL):
            continue
        E = eb_param(it)
        if not E:
            continue
        nb += 1
        fall, mut = [], []
        for s, t in b.calls():
            f = t["f"]
            if "path" not in f:
                continue
            if any(a.get("param") == E for a in f.get("args", [])) and not (f.get("trait") == EB and f["name"] in EB_CTORS):
                fall.append((s, f["name"]))
            p = f["path"]
            if p in RAW_WRITES or p in WRITE_BYTES or p in COPY_METHODS or f["name"] in MUT_NAMES:
                mut.append((s, f["name"]))
        for s, st in b.assigns():
            pl = st["p"]
            if pl["p"] and pl["p"][0] == "*" and any(isinstance(pe, dict) and pe.get("n") in ("len", "cap", "end", "ptr", "capacity") for pe in pl["p"]):
                mut.append((s, "field store ." + [pe.get("n") for pe in pl["p"] if isinstance(pe, dict) and pe.get("n")][-1]))
        bad = sorted({(mn, fn_) for (ms, mn) in mut for (fs, fn_) in fall if b.can_reach(ms, fs)})
        npairs += len(mut) * len(fall)
        if mut and fall or bad:
            ctx.inst(R, b.path, not bad, f"{len(mut)} mutation site(s), {len(fall)} fallible call(s): every fallible call precedes all mutations"
                     if not bad else f"a fallible call can follow a mutation: {bad} - on Err the collection keeps a partially modified state",
                     where=b.where(), site="reserve before write")
    ctx.floor(R, "single-operation generic_* bodies", nb, 60)
    ctx.floor(R, "(mutation, fallible call) pairs examined", npairs, 40)


CHECKED_NAMES = {"checked_add", "checked_mul", "array", "from_size_align", "checked_next_power_of_two",
                 "checked_next_multiple_of", "for_capacity", "from_capacity", "calc_size", "from_hint", "layout", "up_align",
                 "up_align_usize", "checked_up_align"}
SIZE_BODIES = re.compile(r"(generic_grow|alloc_slice|prepare_allocation_range|for_trait_object::|chunk::size|size_config|"
                         r"generic_reserve|append_for|grow_size|RawBump::<A, S>::reserve|NonDummyChunk::<A, S>::new|"
                         r"in_another_chunk|ArrayLayout::array|generic_with_capacity)")


PLAIN_OK = {
    # (fn name) -> reason a plain multiplication/addition on a caller-supplied count cannot overflow there
    "allocate_prepared_slice": "len <= cap of a prepared range whose byte size was computed with Layout::array at prepare time",
    "allocate_prepared_slice_rev": "len <= cap of a prepared range whose byte size was computed with Layout::array at prepare time",
}


def r5_overflow(ctx, P, R="C07.R5"):
    ctx.rule(R, "checked size computations: the failure edge constructs capacity_overflow / invalid_slice_layout / None and "
                "their results are never unwrapped; no plain + or * on a caller-supplied count in these bodies")
    n = 0
    nplain = 0
    for b in P.fn_bodies():
        if not SIZE_BODIES.search(b.path):
            continue
        usz = [l for l in range(1, b.argc + 1) if b.locals[l]["ty"] == "usize"]
        for s, st in b.assigns():
            r = st["r"]
            if r["k"] == "bin" and r["op"] in ("Add", "AddWithOverflow", "AddUnchecked", "Mul", "MulWithOverflow", "MulUnchecked") and usz:
                ops = (b.prov_operand(r["a"], s), b.prov_operand(r["b"], s))
                if any(expr_mentions(x, lambda y: y[0] == "param" and y[1] in usz) for x in ops):
                    nplain += 1
                    why = PLAIN_OK.get(b.item["name"])
                    ctx.inst(R, b.path, why is not None, (f"plain `{r['op']}` on a caller-supplied count: {why}" if why else
                             f"plain `{r['op']}` of {show(ops[0])[:40]} and {show(ops[1])[:40]}: for a huge count this overflows - a panic in "
                             "debug builds (also inside try_ methods), a wrapped value in release builds (a full fixed vector 'has room')"),
                             where=b.where(s), site=f"plain {r['op'].replace('WithOverflow', '').replace('Unchecked', '')} on a count")
        for s, t in b.calls():
            f = t["f"]
            nm = f.get("name")
            if nm in ("unwrap", "expect", "unwrap_or_default", "unwrap_or", "unwrap_or_else") and f.get("krate") == "core":
                a = b.prov_operand(t["args"][0], s)
                src = [c for c in calls_in(a) if c[1].split("::")[-1] in CHECKED_NAMES]
                if src and nm in ("unwrap_or", "unwrap_or_else") and len(t["args"]) > 1:
                    fb = b.prov_operand(t["args"][1], s)
                    if any(c[1].split("::")[-1] in CHECKED_NAMES for c in calls_in(fb)):
                        # fallback is itself a value that passed a check (e.g. doubling falls back to the checked required cap)
                        n += 1
                        ctx.inst(R, b.path, True, f"{nm}: overflow of {src[0][1].split('::')[-1]} falls back to the checked value {show(fb)[:80]}",
                                 where=b.where(s), site=f"{nm} fallback checked")
                        continue
                if src:
                    n += 1
                    ctx.inst(R, b.path, False, f"{nm}() on the result of {src[0][1]}: an overflowing size panics or is silently replaced "
                             "instead of being reported as an allocation error", where=b.where(s), site=f"{nm} on {src[0][1].split('::')[-1]}")
            if nm in CHECKED_NAMES and t["ret"] is not None:
                out_ty = ""
                # only Option/Result producers
                dl = t["dest"]["l"]
                out_ty = b.locals[dl]["ty"]
                if not (out_ty.startswith("core::option::Option<") or out_ty.startswith("core::result::Result<")):
                    continue
                def is_this(e, bb=s.bb, path=f["path"]):
                    if e[0] == "call" and e[1] == "core::ops::Try::branch":
                        e = e[2][0]
                    return e[0] == "call" and len(e) > 4 and e[4] == (bb,) and e[1] == path
                ve = b.variant_edges(is_this)
                fails = ve.get("None", []) + ve.get("Err", []) + ve.get("Break", [])
                if not fails:
                    # passed on unexamined (returned / forwarded) — fine
                    continue
                n += 1
                ok = True
                for (_, tgt, _) in fails:
                    reach = b.reach([tgt], cleanup=False)
                    good_blocks = []
                    for i in reach:
                        if not isinstance(i, int):
                            continue
                        tt = b.term(i)
                        if tt["k"] == "call" and tt["f"].get("name") in ("capacity_overflow", "invalid_slice_layout", "from_residual",
                                                                          "allocation"):
                            good_blocks.append(i)
                        for st in b.stmts(i):
                            if st["k"] == "assign" and st["r"]["k"] == "agg" and st["r"].get("variant") in ("None", "Err"):
                                good_blocks.append(i)
                    g, _ = b.must_pass(None, good_blocks, exits=(RET,), cleanup=False, from_edge=tgt)
                    ok = ok and g
                ctx.inst(R, b.path, ok, f"failure of {nm} leads to an error value on every returning path" if ok else
                         f"failure of {nm} can reach a return without constructing an error: the overflow is swallowed",
                         where=b.where(s), site=f"{nm}#{s.bb} failure edge")
    ctx.floor(R, "checked size computations with examined failure edges", n, 12)


def _commit_label(v):
    names = {c[1].split("::")[-1] for c in calls_in(v)}
    if names & {"append_for", "new"}:
        return "a freshly created chunk"
    if "next" in names:
        return "a cached successor chunk"
    return "other value via " + ",".join(sorted(names))[:40]


def r6_current_chunk_commit(ctx, P):
    R = "C07.R6"
    ctx.rule(R, "the current-chunk cell is committed after the last fallible step: in every RawBump method generic over "
                "E: ErrorBehavior no call that can fail with E is reachable from a self.chunk.set(..) unless every return "
                "path after that call rewrites the cell (prepared, uncommitted ranges live in the chunk that was current "
                "before the failed call)")
    n = nsets = 0
    for b in P.fn_bodies():
        if not b.path.startswith("raw_bump::RawBump::<A, S>::"):
            continue
        E = eb_param(b.item)
        if not E:
            continue
        sets = [(s, t) for s, t in b.calls() if t["f"].get("path") == "core::cell::Cell::<T>::set" and
                expr_mentions(b.prov_operand(t["args"][0], s), lambda x: x[0] == "field" and x[2] == "chunk" and mentions_param(x, 1))]
        if not sets:
            continue
        n += 1
        fall = [(s, t["f"]) for s, t in b.calls() if "path" in t["f"] and any(a.get("param") == E for a in t["f"].get("args", []))]
        setbbs = [s.bb for s, _ in sets]
        for s, t in sets:
            nsets += 1
            bad = []
            for fs, f in fall:
                if not b.can_reach(s, fs, cleanup=False):
                    continue
                ok, _w = b.must_pass(fs, setbbs, exits=(RET,), cleanup=False)
                if not ok:
                    bad.append(f["name"])
            v = b.prov_operand(t["args"][1], s)
            ctx.inst(R, b.path, not bad, f"self.chunk.set({show(v)[:60]}) is final: no E-fallible call follows it" if not bad else
                     f"self.chunk.set({show(v)[:60]}) can be followed by the fallible call(s) {sorted(set(bad))} whose failure "
                     "returns Err with the current chunk already switched: a prepared range (MutBumpVec & co.) of the "
                     "previous chunk is then committed against the wrong chunk, and earlier chunks' free space is lost",
                     where=b.where(s), site="chunk commit of " + _commit_label(v))
    ctx.floor(R, "E-generic RawBump bodies writing the current-chunk cell", n, 2)
    ctx.floor(R, "current-chunk writes examined", nsets, 3)


def r7_address_subtraction(ctx, P, R="C07.R7"):
    ctx.rule(R, "the downward bump helper subtracts a caller-controlled size from an address with saturating/checked "
                "arithmetic: a request larger than the address must end in the caller's 'does not fit' test, not in an "
                "arithmetic-overflow panic (debug) or a wrapped address (release)")
    b = P.find_body("bump_down")
    if not ctx.need(b is not None, R, "crate-level bump_down helper"):
        return
    sat = [(s, t) for s, t in b.calls() if t["f"].get("krate") == "core" and t["f"].get("name") in ("saturating_sub", "checked_sub")
           and mentions_param(b.prov_operand(t["args"][1], s), 2)]
    plain = [(s, st) for s, st in b.assigns() if st["r"]["k"] == "bin" and st["r"]["op"].startswith("Sub") and
             mentions_param(b.prov_operand(st["r"]["b"], s), 2)]
    plain += [(s, t) for s, t in b.calls() if t["f"].get("krate") == "core" and t["f"].get("name") in ("wrapping_sub", "unchecked_sub")]
    ok = bool(sat) and not plain
    ctx.inst(R, b.path, ok, "addr - size is saturating/checked" if ok else
             "addr - size is a plain/wrapping subtraction: for size > addr the allocator-interface call (grow/grow_zeroed, "
             "downwards) panics with 'attempt to subtract with overflow' or continues with a wrapped address", where=b.where(),
             site="addr - size saturates")


def r10_overflow_not_alloc_failure(ctx, P):
    R = "C07.R10"
    ctx.rule(R, "a capacity overflow is reported as such (unwinding panic), not as an allocation failure (alloc::handle_alloc_error "
                "aborts): where the refusal of a bump-allocator *handle* call (which also fails when no chunk size exists for the "
                "request, without ever asking the base allocator) is turned into E::allocation, the cause is lost. The only site "
                "that may construct E::allocation is the base allocator's own refusal in NonDummyChunk::new")
    n = 0
    for b in P.fn_bodies():
        sites = [(s_, t) for s_, t in b.calls() if t["f"].get("trait") == EB and t["f"].get("name") == "allocation"]
        for k, (s_, t) in enumerate(sites):
            n += 1
            base = b.path.startswith("raw_bump::NonDummyChunk::<A, S>::new")
            ctx.inst(R, b.path, base, "E::allocation reports the base allocator's refusal" if base else
                     "E::allocation stands for any failure of a call on a bump-allocator handle - also for 'no chunk size exists for "
                     "this request' (capacity overflow): e.g. reserve(isize::MAX - 8) aborts the process with 'memory allocation of ... "
                     "bytes failed' although the base allocator was never asked, where the direct typed path unwinds with "
                     "'capacity overflow'", where=b.where(s_), site="handle failure reported as allocation")
    ctx.floor(R, "E::allocation sites", n, 2)


def run(ctx, progs):
    ctx.assume("rustc nightly's type checker, MIR construction and trait resolution are correct")
    ctx.assume("call graph: trait-method calls on type parameters of local traits are linked to all local impls (CHA), "
               "bound by the propagated ErrorBehavior binding; foreign-trait calls on type parameters are user code")
    ctx.assume("generic core::panicking from assert!/debug_assert!/index checks is a contract check, not an allocation failure")
    for lab, P in progs:
        ctx.config = lab
        r1_infallible(ctx, P)
        r2_try_purity(ctx, P)
        c05.r5_failure_links_nothing(ctx, P, R="C07.R3")
        r4_reserve_before_write(ctx, P)
        r5_overflow(ctx, P)
        r6_current_chunk_commit(ctx, P)
        r7_address_subtraction(ctx, P)
        r10_overflow_not_alloc_failure(ctx, P)
        from . import c14
        c14.r5_claimed_is_not_alloc_failure(ctx, P, R="C07.R8")
        from . import c02
        c02.r2_overlap(ctx, P, R="C07.R9")
        from . import c19
        if c19.pool_bodies(P):
            c19.r6_poison_recovered(ctx, P, R="C07.R11")
    ctx.config = None
