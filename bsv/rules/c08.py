"""C08 — vector types behave like std Vec (claimed narrowly: delegation, bounds checks, element shuffles, capacity)."""
import re, collections
from ..ir import show, phi_alts, walk_expr, expr_mentions, Site, RET, UNW
from ..sym import Sym, Unanalysable, affine, ite_leaves, Affine, subst, _mul
from .common import *

EXPLANATION = (
    "Claimed narrowly; equivalence with Vec over all operation sequences is not decided. C08.R1: one implementation, "
    "several facades: every method of FixedBumpVec / BumpVec / MutBumpVec that makes exactly one non-trivial call into the "
    "inner slice type and whose name exists there calls that same-named method (tabled exceptions with reasons). C08.R2: "
    "bounds checks guard raw access: in insert / remove / swap_remove of all vector types incl. the reverse one, every "
    "pointer offset by the index is control dependent on the comparison of that index with the length, with std's "
    "relation (> for insert, >= for remove/swap_remove) and a diverging failure arm. C08.R3: element shuffles in affine "
    "normal form against Vec's contract: remove reads element i, shifts len-i-1 elements from i+1 to i and lowers the "
    "length by one; swap_remove moves the last element into slot i; insert shifts len-i elements from i to i+1, writes at "
    "i and raises the length; mirrored forms for MutBumpVecRev (front part shifted). C08.R4: capacity promises: reserve "
    "grows only when additional > capacity - len; amortised growth takes max(2 cap, required, min_non_zero_cap), exact "
    "growth exactly required; zero-sized element types never grow (capacity usize::MAX). NOT decided: iterators, "
    "sort/dedup results, operation sequences.")

BB = "bump_box::BumpBox::<'a, [T]>::"
FV = "fixed_bump_vec::FixedBumpVec::<'a, T>::"
FACADES = {"fixed_bump_vec::FixedBumpVec<": (BB,), "bump_vec::BumpVec<": (FV, BB), "mut_bump_vec::MutBumpVec<": (FV, BB)}
TRIVIAL = {"len", "capacity", "as_mut_ptr", "as_ptr", "is_empty", "is_full", "as_non_null", "set_len", "inc_len", "dec_len", "set_ptr",
           "set_cap", "as_slice", "as_mut_slice", "cook_mut", "cook_ref", "cook", "from_cooked", "new", "as_non_null_slice"}
R1_EXCEPTIONS = {
    ("bump_vec::BumpVec<", "extend_with"): "reserves itself, then the unchecked variant of the same operation",
    ("mut_bump_vec::MutBumpVec<", "extend_with"): "reserves itself, then the unchecked variant of the same operation",
    ("fixed_bump_vec::FixedBumpVec<", "split_off"): "own implementation that also splits the capacity (checked by C16.R1)",
}


def r1_facades(ctx, P):
    R = "C08.R1"
    ctx.rule(R, "facade methods delegate to the same-named method of the inner slice type")
    names = collections.defaultdict(set)
    for it in P.facts["items"]:
        for pre in (BB, FV):
            if it["path"].startswith(pre) and it["kind"] == "AssocFn":
                names[pre].add(it["name"])
    n = 0
    for im in P.facts["impls"]:
        if im.get("trait"):
            continue
        pre = [k for k in FACADES if im["self_ty"].startswith(k)]
        if not pre:
            continue
        inner = FACADES[pre[0]]
        for itm in im["items"]:
            if itm["id"] not in P.raw_bodies:
                continue
            b = P.body(itm["id"])
            calls = [(s, t) for s, t in b.calls() if t["f"].get("path", "").startswith(inner) and t["f"]["name"] not in TRIVIAL]
            if len(calls) != 1 or not any(itm["name"] in names[p] for p in inner):
                continue
            n += 1
            s, t = calls[0]
            exc = R1_EXCEPTIONS.get((pre[0], itm["name"]))
            if exc:
                ctx.inst(R, b.path, True, f"tabled exception: {exc}", where=b.where(), site="exception", nontrivial=False)
                continue
            ok = t["f"]["name"] == itm["name"]
            ctx.inst(R, b.path, ok, f"delegates to {t['f']['path']}" + ("" if ok else " — the facade does something else than the shared "
                     "slice implementation of the same name"), where=b.where(s), site="delegate")
    ctx.floor(R, "delegating facade methods", n, 35)


VEC_TYPES = ("bump_box::BumpBox::<'a, [T]>::", "fixed_bump_vec::FixedBumpVec::<'a, T>::", "bump_vec::BumpVec::<T, A>::",
             "mut_bump_vec::MutBumpVec::<T, A>::", "mut_bump_vec_rev::MutBumpVecRev::<T, A>::")
BOUNDS = {"remove": "Ge", "swap_remove": "Ge", "generic_insert_mut": "Gt", "generic_insert": "Gt", "insert": "Gt"}


def len_expr(e):
    e = strip_casts(strip_ref(e))
    return (e[0] == "call" and e[1].split("::")[-1] == "len") or (e[0] == "field" and e[2] == "len")


def r2_bounds(ctx, P):
    R = "C08.R2"
    ctx.rule(R, "index-derived pointer offsets are control dependent on the index/length comparison with std's relation")
    n = 0
    for b in P.fn_bodies():
        if not b.path.startswith(VEC_TYPES) or b.item["name"] not in BOUNDS:
            continue
        rel = BOUNDS[b.item["name"]]
        idx = [l for l in range(2, b.argc + 1) if b.locals[l]["ty"] == "usize"]
        if not idx:
            continue
        i = idx[0]
        offs = [(s, t) for s, t in b.calls() if t["f"].get("name") in ("add", "sub", "copy", "copy_to", "read", "write") and
                any(mentions_param(b.prov_operand(a, s), i) for a in t["args"])]
        if not offs:
            continue     # pure delegator
        n += 1

        def cmp_pred(e):
            if e[0] == "bin" and e[1] in ("Gt", "Ge", "Lt", "Le") and strip_casts(e[2]) == ("param", i, b.locals[i].get("name")) and len_expr(e[3]):
                return True
            return None
        found = []
        for bb, t in b.switches():
            e = b.prov_operand(t["d"], b.term_site(bb))
            if cmp_pred(e):
                found.append((bb, e[1]))
        ok_rel = any(op == rel for _, op in found)
        te, fe = b.cond_edges(lambda e: True if (cmp_pred(e) and e[1] == rel) else None)
        ok_gate = bool(fe) and all(b.controlled_by(s, fe, cleanup=False) for s, _ in offs)
        # failure arm diverges
        ok_div = bool(te) and all(RET not in b.reach([tgt], removed_blocks=[x[1] for x in fe if isinstance(x[1], int)], cleanup=False)
                                  for (_, tgt, _) in te)
        ctx.inst(R, b.path, ok_rel and ok_gate and ok_div,
                 f"index `{b.locals[i].get('name')}` is compared with the length by `{rel}` (failure arm diverges) before all {len(offs)} "
                 f"index-derived accesses" if ok_rel and ok_gate and ok_div else
                 f"index-derived accesses are not guarded by `index {rel} len` with a diverging failure arm (comparisons found: "
                 f"{[op for _, op in found]})", where=b.where(), site=f"bounds {rel}")
    ctx.floor(R, "index-taking methods with raw accesses", n, 8)


VEC_TYPES_SELF = ("bump_vec::BumpVec<", "mut_bump_vec::MutBumpVec<", "mut_bump_vec_rev::MutBumpVecRev<", "bump_string::BumpString<")
EFFECTS = {"dec_len", "inc_len", "set_len", "copy_to", "copy", "copy_nonoverlapping", "write", "copy_to_nonoverlapping",
           "copy_from", "copy_from_nonoverlapping"}
READERS = {"len", "as_mut_ptr", "as_ptr"}


def norm(e):
    """P = base pointer (version 0), L = length (version 0); later versions of len become LV(k)."""
    def fn(n):
        if n[0] in ("ref", "deref"):
            return n[1]
        if n[0] == "cast":
            return n[2]
        if n[0] == "call":
            nm = n[1].split("::")[-1]
            if nm in ("as_mut_ptr", "as_ptr") and n[2] and n[2][0] in (("param", 1, "self"), ("SELF",)):
                v = n[4][1] if len(n) > 4 and n[4] and n[4][0] == "v" else 0
                return ("P",) if v == 0 else ("PV", v)
            if nm == "len" and n[2] and n[2][0] in (("param", 1, "self"), ("SELF",)):
                v = n[4][1] if len(n) > 4 and n[4] and n[4][0] == "v" else 0
                return ("L",) if v == 0 else ("LV", v)
        if n[0] == "field" and n[1] in (("param", 1, "self"), ("SELF",)) and n[2] == "len":
            return ("L",)
        return None
    cur = e
    for _ in range(5):
        nxt = subst(cur, fn)
        if nxt == cur:
            break
        cur = nxt
    return cur


def elemT(call):
    ty = call[3][0] if call[3] else "?"
    return Affine({}, 1) if ty == "u8" else Affine({("S",): 1})


def aff(e):
    return affine(norm(e), elemT)


def copies_of(effs):
    out = []
    for ef in effs:
        if ef[0] == "callfx" and ef[1] in ("copy_to", "copy_to_nonoverlapping"):
            out.append((aff(ef[2][0]), aff(ef[2][1]), aff(ef[2][2])))
        elif ef[0] == "callfx" and ef[1] in ("copy", "copy_nonoverlapping"):
            out.append((aff(ef[2][0]), aff(ef[2][1]), aff(ef[2][2])))
        elif ef[0] == "callfx" and ef[1] in ("copy_from", "copy_from_nonoverlapping"):
            out.append((aff(ef[2][1]), aff(ef[2][0]), aff(ef[2][2])))
    return out


def len_delta(effs):
    """Net change of the recorded length along the path, or None if not understood."""
    d = 0
    for ef in effs:
        if ef[0] == "callfx" and ef[1] == "dec_len":
            a = aff(ef[2][1])
            if not a.is_const():
                return None
            d -= a.const
        elif ef[0] == "callfx" and ef[1] == "inc_len":
            a = aff(ef[2][1])
            if not a.is_const():
                return None
            d += a.const
        elif ef[0] == "store":
            tgt = norm(ef[1])
            if tgt == ("L",) or (tgt[0] == "field" and tgt[2] == "len"):
                v = aff(ef[2])
                diff = v - Affine({("L",): 1})
                if not diff.is_const():
                    return None
                d = diff.const
    return d


def r3_shuffles(ctx, P):
    R = "C08.R3"
    ctx.rule(R, "remove / swap_remove / insert move exactly the elements Vec's contract says (affine forms), forward and reverse")
    S = Sym(P, inline_depth=0, effect_names=EFFECTS, reader_names=READERS)
    Pp, L, Sz = Affine({("P",): 1}), Affine({("L",): 1}), Affine({("S",): 1})
    one = Affine({}, 1)
    n = 0
    for b in P.fn_bodies():
        nm = b.item["name"]
        if not b.path.startswith(VEC_TYPES) or nm not in ("remove", "swap_remove", "generic_insert_mut"):
            continue
        idx = [l for l in range(2, b.argc + 1) if b.locals[l]["ty"] == "usize"]
        raw = [t for s, t in b.calls() if t["f"].get("name") in ("read", "write", "copy", "copy_to")]
        if not idx or not raw:
            continue
        rev = "MutBumpVecRev" in b.path
        I = Affine({("param", idx[0], b.locals[idx[0]].get("name")): 1})
        iS = _mul(I, Sz)
        try:
            e = S.ret(b.id, want="eff")
        except Unanalysable as ex:
            ctx.inst(R, b.path, False, f"not analysable: {ex}", where=b.where(), site="avn")
            continue
        for conds, leaf in ite_leaves(e):
            if leaf[0] != "ret":
                continue
            rv, effs = leaf[1], leaf[2]
            if expr_mentions(rv, lambda x: x[0] == "call" and x[1].endswith("from_residual")):
                continue   # error propagation path of the fallible reserve
            n += 1
            arm = " & ".join(f"{show(norm(c))[:30]}={k}" for c, k in conds[-2:]) or "single path"
            cps = copies_of(effs)
            dl = len_delta(effs)
            ok, why = True, []
            if nm in ("remove", "swap_remove"):
                reads = [x for x in walk_expr(rv) if x[0] == "call" and x[1].split("::")[-1] == "read"]
                if not (len(reads) == 1 and aff(reads[0][2][0]) == Pp + iS):
                    ok = False; why.append(f"returned value is {show(norm(rv))[:80]}, expected read(P + index)")
                if dl != -1:
                    ok = False; why.append(f"length changes by {dl}, expected -1")
            if nm == "remove" and not rev:
                exp = (Pp + iS + Sz, Pp + iS, L - I - one)
                if cps and cps != [exp]:
                    ok = False; why.append(f"shift {cps}, expected copy(P+i+1 -> P+i, len-i-1)")
                if not cps and not any(show(norm(c)).startswith("(index Ne") or "Ne" in show(norm(c)) for c, k in conds):
                    ok = False; why.append("no shift of the tail")
            if nm == "remove" and rev:
                exp = (Pp, Pp + Sz, I)
                if cps and cps != [exp]:
                    ok = False; why.append(f"shift {cps}, expected copy(P -> P+1, index) (front part moves up)")
            if nm == "swap_remove" and not rev:
                # source: P + len (read after the decrement, i.e. version > 0) -> last element
                srcs = [ef for ef in effs if ef[0] == "callfx" and ef[1].startswith("copy")]
                good = len(srcs) == 1
                if good:
                    src, dst, cnt = srcs[0][2][0], srcs[0][2][1], srcs[0][2][2]
                    a = aff(src)
                    lv = [k for k in a.terms if isinstance(k, tuple) and k[0] == "mul" and any(x[0] == "LV" for x in k[1:])]
                    good = (a - Pp).terms and len(lv) == 1 and a.terms[lv[0]] == 1 and len(a.terms) == 2 and aff(dst) == Pp + iS and aff(cnt) == one
                    # the decrement precedes the copy
                    order = [ef[1] for ef in effs if ef[0] == "callfx"]
                    good = good and order.index("dec_len") < [i_ for i_, x in enumerate(order) if x.startswith("copy")][0]
                if not good:
                    ok = False; why.append("the last element (P + new len) is not moved into slot index")
            if nm == "swap_remove" and rev:
                if cps != [(Pp, Pp + iS, one)]:
                    ok = False; why.append(f"{cps}: expected copy(P -> P+index, 1) (first element fills the hole)")
            if nm == "generic_insert_mut":
                writes = [ef for ef in effs if ef[0] == "callfx" and ef[1] == "write"]
                if dl != 1:
                    ok = False; why.append(f"length changes by {dl}, expected +1")
                if not rev:
                    if cps and cps != [(Pp + iS, Pp + iS + Sz, L - I)]:
                        ok = False; why.append(f"shift {cps}, expected copy(P+i -> P+i+1, len-i)")
                    if not (len(writes) == 1 and aff(writes[0][2][0]) == Pp + iS):
                        ok = False; why.append("element is not written at P + index")
                else:
                    if cps:
                        if cps != [(Pp, Pp - Sz, I)]:
                            ok = False; why.append(f"shift {cps}, expected copy(P -> P-1, index) (front part moves down)")
                        if not (len(writes) == 1 and aff(writes[0][2][0]) == Pp - Sz + iS):
                            ok = False; why.append("element is not written at P - 1 + index")
                    else:
                        # index == 0: written at the new start
                        w = aff(writes[0][2][0]) if writes else None
                        if not (w is not None and len(w.terms) == 1 and list(w.terms)[0][0] == "PV"):
                            ok = False; why.append("index 0: element is not written at the new start")
            ctx.inst(R, b.path, ok, f"{arm}: copies {cps}, length delta {dl}" + ("" if ok else " — " + "; ".join(why)), where=b.where(),
                     site=f"{arm} shuffle")
    ctx.floor(R, "return paths of remove/swap_remove/insert analysed", n, 10)


def r4_capacity(ctx, P):
    R = "C08.R4"
    ctx.rule(R, "reserve grows only when additional > capacity - len; amortised growth = max(2 cap, required, min_non_zero_cap); "
                "zero-sized element types never grow and report capacity usize::MAX")
    n = 0
    for b in P.fn_bodies():
        nm = b.item["name"]
        if nm in ("generic_reserve", "generic_reserve_exact") and b.path.startswith(("bump_vec::BumpVec::<T, A>::", "mut_bump_vec::MutBumpVec::<T, A>::",
                                                                                      "mut_bump_vec_rev::MutBumpVecRev::<T, A>::")):
            grows = b.calls_to(lambda f: f.get("name", "").startswith("generic_grow"))
            if not grows:
                continue
            n += 1

            def need(e):
                if e[0] == "bin" and e[1] == "Gt" and strip_casts(e[2])[0] == "param":
                    r = strip_casts(e[3])
                    if r[0] == "bin" and r[1].startswith("Sub") and expr_mentions(r[2], lambda x: x[0] == "call" and x[1].split("::")[-1] == "capacity" or (x[0] == "field" and x[2] == "cap")) \
                            and len_expr(r[3]):
                        return True
                return None
            te, fe = b.cond_edges(need)
            ok = bool(te) and all(b.controlled_by(s, te, cleanup=False) for s, _ in grows)
            exact = nm.endswith("exact")
            okn = all(("exact" in t["f"]["name"]) == exact for s, t in grows)
            ctx.inst(R, b.path, ok and okn, "grows only when additional > capacity - len" + (" (exact growth)" if exact else " (amortised growth)")
                     if ok and okn else "can grow although the promised capacity suffices (or uses the wrong growth policy): the buffer address "
                     "changes while a with_capacity/reserve promise holds", where=b.where(), site="grow only when needed")
        if nm == "generic_grow_amortized" and "BumpVec" in b.path or nm == "generic_grow_amortized" and "MutBumpVec" in b.path:
            n += 1
            gt = b.calls_to(lambda f: f.get("name") in ("generic_grow_to", "grow_prepared_allocation"))
            ok = len(gt) >= 1
            if ok:
                s, t = gt[0]
                v = b.prov_operand(t["args"][-1], s)
                ok = (expr_mentions(v, lambda x: x[0] == "call" and x[1].split("::")[-1] == "checked_mul" and x[2][1] == ("int", 2, "usize")) or
                      expr_mentions(v, lambda x: x[0] == "bin" and x[1].startswith("Mul") and x[3] == ("int", 2, "usize") and
                                    expr_mentions(x[2], lambda y: y[0] == "call" and y[1].split("::")[-1] == "capacity"))) and \
                    expr_mentions(v, lambda x: x[0] == "call" and x[1].split("::")[-1] == "checked_add") and \
                    expr_mentions(v, lambda x: x[0] == "call" and x[1].split("::")[-1] == "min_non_zero_cap") and \
                    len([x for x in walk_expr(v) if x[0] == "call" and x[1].split("::")[-1] == "max"]) >= 2
            ctx.inst(R, b.path, ok, f"new capacity = {show(v)[:160]}" if gt else "no growth call", where=b.where(), site="amortised policy")
            zs = b.cond_edges(lambda e: True if (e[0] == "assoc_const" and e[2] == "IS_ZST") else None)
            okz = bool(zs[0]) and all(b.controlled_by(s, zs[1], cleanup=False) for s, _ in gt)
            ctx.inst(R, b.path, okz, "zero-sized element types never reach the growth call (capacity_overflow instead)", where=b.where(), site="zst never grows")
        if nm == "generic_grow_exact" and ("BumpVec" in b.path):
            n += 1
            gt = b.calls_to(lambda f: f.get("name") in ("generic_grow_to", "grow_prepared_allocation"))
            ok = len(gt) >= 1
            if ok:
                s, t = gt[0]
                v = strip_casts(b.prov_operand(t["args"][-1], s))
                adds = [x for x in walk_expr(v) if x[0] == "call" and x[1].split("::")[-1] == "checked_add"]
                ok = len(adds) == 1 and not expr_mentions(v, lambda x: x[0] == "call" and x[1].split("::")[-1] in ("max", "checked_mul"))
            ctx.inst(R, b.path, ok, f"exact growth requests exactly len + additional ({show(v)[:100]})" if gt else "no growth call", where=b.where(), site="exact policy")
    # ZST capacity is usize::MAX in the constructors / capacity accessors
    caps = 0
    for b in P.fn_bodies():
        if b.item["name"] == "capacity" and b.path.startswith(("bump_vec::BumpVec::<T, A>::", "mut_bump_vec::MutBumpVec::<T, A>::",
                                                               "mut_bump_vec_rev::MutBumpVecRev::<T, A>::", "fixed_bump_vec::FixedBumpVec::<'a, T>::")):
            caps += 1
    ctx.floor(R, "reserve/growth bodies checked", n, 6)
    empties = [i for i in P.facts["items"] if i["kind"].startswith("AssocConst") and i["name"] == "EMPTY" and
               ("RawFixedBumpVec" in i["path"] or "FixedBumpVec" in i["path"])]
    for it in empties:
        b = P.body(it["id"])
        if b is None:
            continue
        rv = [b.prov_place({"l": 0, "p": []}, b.term_site(rb)) for rb in b.return_blocks()]
        for r in rv:
            for alt in phi_alts(r):
                pass
        # capacity field: ite on T::IS_ZST -> MAX else 0
        okc = False
        for s, st in b.assigns():
            rr = st["r"]
            if rr["k"] == "agg" and "capacity" in rr.get("fnames", []):
                v = b.prov_operand(rr["fields"][rr["fnames"].index("capacity")], s)
                alts = phi_alts(v)
                okc = any(a[0] == "const_item" and a[1].endswith("MAX") for a in alts) or any(a[0] == "int" and a[1] >= 2**63 for a in alts)
                zs = b.cond_edges(lambda e: True if (e[0] == "assoc_const" and e[2] == "IS_ZST") else None)
                okc = okc and bool(zs[0])
        ctx.inst(R, it["path"], okc, "the empty vector reports capacity usize::MAX for zero-sized element types (selected by T::IS_ZST)",
                 where=b.where(), site="zst capacity")

    # every safe constructor of a FixedBumpVec<T> selects capacity usize::MAX for zero-sized T
    nz = 0
    for b in P.fn_bodies():
        if b.item.get("unsafe"):
            continue
        aggs = [(s_, st) for s_, st in b.assigns() if st["r"]["k"] == "agg" and st["r"].get("adt", "") == "fixed_bump_vec::FixedBumpVec"
                and "capacity" in st["r"].get("fnames", [])]
        if not aggs:
            continue
        nz += 1
        te, fe = b.cond_edges(lambda e: True if (e[0] == "assoc_const" and e[2] == "IS_ZST") else None)
        has_max = False
        for s_, st in aggs:
            v = b.prov_operand(st["r"]["fields"][st["r"]["fnames"].index("capacity")], s_)
            for a in phi_alts(v):
                a = strip_casts(a)
                if (a[0] == "const_item" and a[1].endswith("MAX")) or (a[0] == "int" and a[1] >= 2 ** 63):
                    has_max = True
        ok = bool(te) and has_max
        ctx.inst(R, b.path, ok, "builds FixedBumpVec with capacity usize::MAX under T::IS_ZST" if ok else
                 "builds a FixedBumpVec without the zero-sized special case (capacity usize::MAX under IS_ZST): for zero-sized elements "
                 "the vector reports a finite capacity, is 'full' at once and push / clone+push panic, unlike Vec", where=b.where(),
                 site="zst capacity in constructor")
    ctx.floor(R, "safe constructors of FixedBumpVec", nz, 4)


def r9_shrink_adopted(ctx, P, R="C08.R9"):
    ctx.rule(R, "a collection that shrinks its buffer with shrink_slice adopts the result: on the Some edge it stores the returned "
                "pointer (the block moves when bumping downwards) and records exactly the length it passed as the new capacity")
    n = 0
    for b in P.fn_bodies():
        impl = P.impl_of_item.get(P.outermost_fn(b.item)["id"])
        if not impl or not impl["self_ty"].startswith(VEC_TYPES_SELF) or impl.get("trait"):
            continue
        shr = b.calls_to(lambda f: f.get("name") == "shrink_slice")
        for k, (s_, t) in enumerate(shr):
            n += 1
            ve = b.variant_edges(lambda e: e[0] == "call" and e[1].split("::")[-1] == "shrink_slice")
            some = ve.get("Some", [])
            sp = [(x, tt) for x, tt in b.calls() if tt["f"].get("name") == "set_ptr" and
                  expr_mentions(b.prov_operand(tt["args"][1], x), lambda y: y[0] == "call" and y[1].split("::")[-1] == "shrink_slice")]
            sc = [(x, tt) for x, tt in b.calls() if tt["f"].get("name") == "set_cap"]
            newlen = b.prov_operand(t["args"][-1], s_)
            ok_ptr = bool(some) and bool(sp) and all(b.must_pass(None, [x.bb for x, _ in sp], exits=(RET,), cleanup=False, from_edge=e[1])[0] for e in some)
            ok_cap = bool(sc) and all(b.prov_operand(tt["args"][1], x) == newlen for x, tt in sc if b.controlled_by(x, some, cleanup=False))
            ok_cap = ok_cap and bool(some) and all(b.must_pass(None, [x.bb for x, _ in sc], exits=(RET,), cleanup=False, from_edge=e[1])[0] for e in some)
            why = []
            if not ok_ptr:
                why.append("the pointer returned by shrink_slice is not stored on every path of the Some edge: when the block moves "
                           "(downward bumping) the vector keeps pointing at freed memory")
            if not ok_cap:
                why.append(f"the recorded capacity is not the length passed to shrink_slice ({show(newlen)[:50]}): the vector claims "
                           "more room than its block has and later pushes overwrite the neighbouring allocation")
            ctx.inst(R, b.path, ok_ptr and ok_cap, f"shrink_slice(.., {show(newlen)[:40]}): pointer and capacity adopted" if ok_ptr and ok_cap
                     else "; ".join(why), where=b.where(s_), site=f"shrink_slice #{k} adopted")
    ctx.floor(R, "shrink_slice calls of the growable vectors", n, 2)


def r10_in_place_map_gate(ctx, P, R="C08.R10"):
    ctx.rule(R, "generic_map reuses the buffer of T for U only under ALIGN(T) >= ALIGN(U) and SIZE(T) >= SIZE(U) (both non-zero-sized)")
    bs = [b for b in P.fn_bodies() if b.item["name"] == "generic_map" and b.path.startswith("bump_vec::BumpVec::<T, A>::")]
    if not ctx.need(len(bs) == 1, R, "BumpVec::generic_map"):
        return
    b = bs[0]

    def ge(name):
        def pred(e):
            if e[0] == "bin" and e[1] in ("Ge", "Le"):
                l, r = (e[2], e[3]) if e[1] == "Ge" else (e[3], e[2])
                l, r = strip_casts(l), strip_casts(r)
                if l[0] == "assoc_const" and r[0] == "assoc_const" and l[2] == name and r[2] == name and l[3] == ("T",) and r[3] == ("U",):
                    return True
            return None
        return pred
    ta, _ = b.cond_edges(ge("ALIGN"))
    ts, _ = b.cond_edges(ge("SIZE"))
    guards = [(s_, st) for s_, st in b.assigns() if st["r"]["k"] == "agg" and st["r"].get("adt", "").endswith("DropGuard")]
    ok = bool(ta) and bool(ts) and bool(guards) and all(b.controlled_by(s_, ta, cleanup=False) and b.controlled_by(s_, ts, cleanup=False) for s_, _ in guards)
    ctx.inst(R, b.path, ok, "the in-place arm (DropGuard over the reused buffer) is control dependent on T::ALIGN >= U::ALIGN and T::SIZE >= U::SIZE"
             if ok else "the in-place arm of map is not gated by both T::ALIGN >= U::ALIGN and T::SIZE >= U::SIZE: a buffer of T is "
             "reused for a more strictly aligned (or larger) U - misaligned / overlapping elements", where=b.where(), site="in-place gate")


def r7_drain_keep_rest(ctx, P, R="C08.R7"):
    ctx.rule(R, "Drain::keep_rest compacts exactly: the un-yielded part is moved to the drain's start (base + len(head)), the tail "
                "directly behind it, and the new length ends where the moved tail ends (affine forms over the slice base, "
                "head/un-yielded/tail lengths); zero-sized elements only get the new length")
    S = Sym(P, inline_depth=0, effect_names=EFFECTS | {"set_len"}, reader_names=set())
    Sz = Affine({("S",): 1})
    bs = [b for b in P.fn_bodies() if b.item["name"] == "keep_rest" and "owned_slice::drain::Drain" in b.path]
    if not ctx.need(len(bs) == 1, R, "owned_slice::drain::Drain::keep_rest"):
        return
    b = bs[0]
    try:
        e = S.ret(b.id, want="eff")
    except Unanalysable as ex:
        ctx.inst(R, b.path, False, f"not analysable: {ex}", where=b.where(), site="avn")
        return
    n = 0
    for conds, leaf in ite_leaves(e):
        if leaf[0] != "ret":
            continue
        n += 1
        effs = [ef for ef in leaf[2] if ef[0] == "callfx"]
        arm = " & ".join(f"{show(c)[:28]}={k}" for c, k in conds) or "single path"
        sl = [ef for ef in effs if ef[1] == "set_len"]
        cps = [ef for ef in effs if ef[1].startswith("copy")]
        ok, why = len(sl) == 1, []
        if not ok:
            why.append("no single set_len")
        else:
            newlen = affine(sl[0][2][1], elemT)
            base = None
            for ef in cps:
                src, dst, cnt = (affine(ef[2][0], elemT), affine(ef[2][1], elemT), affine(ef[2][2], elemT))
                is_tail = expr_mentions(ef[2][0], lambda x: x[0] == "field" and x[2] == "tail_start")
                if is_tail:
                    # base = src - tail_start * S ; the moved tail must end at base + newlen * S
                    ts = [x for x in walk_expr(ef[2][0]) if x[0] == "field" and x[2] == "tail_start"][0]
                    base = src - _mul(affine(ts, elemT), Sz)
                    if dst + _mul(cnt, Sz) != base + _mul(newlen, Sz):
                        ok = False
                        why.append(f"the tail is moved to {dst} (+ {cnt} elements) but the new length ends at base + {newlen}: elements are "
                                   "lost / duplicated when head and tail are both non-empty")
                else:
                    if not expr_mentions(ef[2][0], lambda x: x[0] == "call" and x[1].split("::")[-1] == "as_ptr"):
                        ok = False
                        why.append(f"unexpected copy source {show(ef[2][0])[:60]}")
            # a move may be skipped only on a path whose condition says the part is already in place
            def cond_false(pred):
                for c, k in conds:
                    c2 = c
                    if c2[0] == "bin" and c2[1] == "Ne" and pred(c2) and k == "0":
                        return True
                    if c2[0] == "bin" and c2[1] == "Eq" and pred(c2) and k != "0":
                        return True
                return False
            zst = any(expr_mentions(c, lambda x: x[0] == "assoc_const" and x[2] == "IS_ZST") and k != "0" for c, k in conds)
            has_tail = any(expr_mentions(ef[2][0], lambda x: x[0] == "field" and x[2] == "tail_start") for ef in cps)
            has_mid = any(not expr_mentions(ef[2][0], lambda x: x[0] == "field" and x[2] == "tail_start") for ef in cps)
            if not zst and ok:
                if not has_tail and not cond_false(lambda c: expr_mentions(c, lambda x: x[0] == "field" and x[2] == "tail_start")):
                    ok = False
                    why.append("the tail is not moved on a path that does not establish `tail_start == start + unyielded_len`: with elements "
                               "taken only from the back (next_back) the tail is lost and yielded elements stay in")
                if not has_mid and not cond_false(lambda c: expr_mentions(c, lambda x: x[0] == "call" and x[1].split("::")[-1] == "as_ptr")):
                    ok = False
                    why.append("the un-yielded part is not moved on a path that does not establish that it already sits at the start")
            if len(cps) == 2 and ok:
                a, t = (cps[0], cps[1]) if not expr_mentions(cps[0][2][0], lambda x: x[0] == "field" and x[2] == "tail_start") else (cps[1], cps[0])
                if affine(a[2][1], elemT) + _mul(affine(a[2][2], elemT), Sz) != affine(t[2][1], elemT):
                    ok = False
                    why.append("the moved tail does not start where the moved un-yielded part ends")
        ctx.inst(R, b.path, ok, f"{arm}: {len(cps)} move(s), new length {show(sl[0][2][1])[:60] if sl else '?'}" + ("" if ok else " — " + "; ".join(why)),
                 where=b.where(), site=f"{arm} compaction")
    ctx.floor(R, "paths of Drain::keep_rest", n, 4)


def r6_zst_sibling_agreement(ctx, P, R="C08.R6"):
    ctx.rule(R, "sibling implementations of one operation (same method name in the slice box, the fixed vector and the "
                "growable vectors) ask IS_ZST of the same type: the stored element type decides the dangling-pointer / "
                "capacity usize::MAX convention, not the container's own element (e.g. [T; N] in into_flattened)")
    groups = {}
    for b in P.fn_bodies():
        args = set()
        for bb, t in b.switches():
            e = b.prov_operand(t["d"], b.term_site(bb))
            for x in walk_expr(e):
                if x[0] == "assoc_const" and x[2] == "IS_ZST":
                    args.add(" ".join(str(a) for a in x[3]))
        if not args:
            continue
        outer = P.outermost_fn(b.item)
        # rename-robust: generic parameter names are replaced by `_`
        gnames = [g["name"] for g in b.item.get("generics", []) if g.get("kind") != "lt"]
        norm = set()
        for a in args:
            for g in sorted(gnames, key=len, reverse=True):
                a = re.sub(r"\b" + re.escape(g) + r"\b", "_", a)
            norm.add(a)
        args = norm
        impl = P.impl_of_item.get(outer["id"])
        if not impl or impl.get("trait"):
            continue
        if b.item["id"] != outer["id"]:
            continue
        groups.setdefault(b.item["name"], []).append((b, frozenset(args)))
    n = 0
    for name, members in sorted(groups.items()):
        if len(members) < 2:
            continue
        n += 1
        votes = {}
        for b, a in members:
            votes[a] = votes.get(a, 0) + 1
        best = max(votes.values())
        major = [a for a, v in votes.items() if v == best]
        for b, a in members:
            ok = len(votes) == 1 or (a in major and len(major) == 1)
            ctx.inst(R, b.path, ok, f"`{name}`: IS_ZST asked of {sorted(a)} like its {len(members) - 1} sibling(s)" if ok else
                     f"`{name}`: IS_ZST is asked of {sorted(a)} here but of {[sorted(m) for m in major]} in the sibling "
                     "implementations: the zero-sized convention (dangling pointer, capacity usize::MAX, no growth) is applied "
                     "to a different set of types than in the siblings", where=b.where(), site=f"IS_ZST type in {name}")
    ctx.floor(R, "operation names with two or more ZST-aware sibling implementations", n, 8)


from . import stale


def run(ctx, progs):
    ctx.assume("value numbering: len/as_mut_ptr are state readers versioned by the number of preceding state writes; "
               "pointer offsets scaled by the symbolic element size; no path-feasibility reasoning")
    for lab, P in progs:
        ctx.config = lab
        r1_facades(ctx, P)
        r2_bounds(ctx, P)
        r3_shuffles(ctx, P)
        r4_capacity(ctx, P)
        r6_zst_sibling_agreement(ctx, P)
        r7_drain_keep_rest(ctx, P)
        r9_shrink_adopted(ctx, P)
        r10_in_place_map_gate(ctx, P)
        stale.rule(ctx, P, "C08.R5", ("bump_vec::BumpVec<", "mut_bump_vec::MutBumpVec<", "mut_bump_vec_rev::MutBumpVecRev<"), 20, 25)
        from . import c06
        c06.r1_len_before_drop(ctx, P, R="C08.R8")
        from . import twins
        twins.rule(ctx, P, "C08.R11", "bump_vec::BumpVec<", "mut_bump_vec::MutBumpVec<", 12 if "nodefault" in (ctx.config or "") else 15)
        c06.r11_dedup_protocol(ctx, P, R="C08.R12")
    ctx.config = None
