"""C12 — a fresh chunk always fits the request; sizes never wrap (claimed narrowly)."""
import re
from ..ir import show, phi_alts, walk_expr, expr_mentions, Site, RET, UNW
from ..sym import Sym, Unanalysable, ite_leaves, subst
from .common import *
from . import c07

EXPLANATION = (
    "Claimed narrowly: structural clauses of the size computations. C12.R1: in chunk/size_config.rs, chunk/size.rs, "
    "append_for, grow_size and reserve every + and * on a size is a checked_*/saturating_* call (no plain, wrapping or "
    "unchecked arithmetic); every plain - is on the tabled, reasoned list. C12.R2: every failure of those computations "
    "becomes None / E::capacity_overflow() at each call site; nothing is unwrapped. C12.R3: the slow path sizes the new "
    "chunk by max(hint for the requested layout, 2 x current size) with the doubling checked. C12.R4: rounding order read "
    "off the value-numbered forms: the capacity hint adds overhead, header, the requested bytes (incl. worst-case "
    "padding align - header align) and MIN_CHUNK_ALIGN slack in the tabled order for up and down; the size hint is "
    "raised to the minimum, rounded, and the overhead subtraction is followed by align_size; granted sizes go through "
    "align_size before use. NOT decided: that the rounded number really is >= header + padding + request for all "
    "layouts x header layouts x granted sizes, 'multiple of 16', '>= 2 x previous - 16' as numbers.")

SIZE_FILES = ("src/chunk/size_config.rs", "src/chunk/size.rs")
EXTRA_BODIES = re.compile(r"^raw_bump::(NonDummyChunk::<A, S>::(append_for|grow_size)|RawBump::<A, S>::reserve)$")

ADDITIVE = {"Add", "AddUnchecked", "AddWithOverflow", "Mul", "MulUnchecked", "MulWithOverflow", "Shl", "ShlUnchecked"}
SUBTRACTIVE = {"Sub", "SubUnchecked", "SubWithOverflow"}
BAD_CALLS = {"wrapping_add", "wrapping_mul", "wrapping_sub", "unchecked_add", "unchecked_mul", "unchecked_sub",
             "overflowing_add", "overflowing_mul", "wrapping_shl", "unchecked_shl"}
# tabled plain subtractions: (function name, description of the right operand) -> reason
SUB_TABLE = {
    ("up_align", "int:1"): "align is a power of two, so align >= 1",
    ("down_align", "int:1"): "align is a power of two, so align >= 1",
    ("calc_size_from_hint", "size:assumed_malloc_overhead_layout"): "size >= min >= overhead size (min includes the overhead layout)",
}


def size_bodies(P):
    return [b for b in P.bodies() if (b.item and ((b.item.get("file") or "") in SIZE_FILES or EXTRA_BODIES.match(b.path)))]


def rhs_class(b, s, op):
    e = strip_casts(b.prov_operand(op, s))
    if e[0] == "int":
        return f"int:{e[1]}"
    if e[0] == "call" and e[1] == "core::alloc::Layout::size":
        inner = strip_ref(e[2][0])
        if inner[0] == "field":
            return f"size:{inner[2]}"
        if inner[0] == "param":
            return f"size:param"
    return "other:" + show(e)[:60]


def r1_no_wrapping(ctx, P, R="C12.R1"):
    ctx.rule(R, "no plain/wrapping/unchecked + or * on sizes; plain - only where tabled with a reason")
    bodies = size_bodies(P)
    ctx.floor(R, "size-computation bodies", len(bodies), 15)
    n_ops = n_checked = 0
    for b in bodies:
        for s, st in b.assigns():
            r = st["r"]
            if r["k"] != "bin":
                continue
            op = r["op"]
            if op in ADDITIVE:
                # debug assertions (is_power_of_two etc.) come from macro expansions with their own arithmetic: none here
                n_ops += 1
                ctx.inst(R, b.path, False, f"plain `{op}` on {show(b.prov_operand(r['a'], s))} and {show(b.prov_operand(r['b'], s))}: "
                         "an overflowing size would wrap (release) or panic (debug) instead of being reported as an allocation error",
                         where=b.where(s), site=f"{op} {rhs_class(b, s, r['b'])}")
            elif op in SUBTRACTIVE:
                n_ops += 1
                key = (b.item["name"], rhs_class(b, s, r["b"]))
                ok = key in SUB_TABLE
                ctx.inst(R, b.path, ok, f"plain `-` with right operand {key[1]}: " + (SUB_TABLE[key] if ok else
                         "not on the tabled list of subtractions that cannot underflow"), where=b.where(s), site=f"Sub {key[1]}")
        for s, t in b.calls():
            nm = t["f"].get("name")
            if nm in BAD_CALLS and t["f"].get("krate") == "core":
                n_ops += 1
                ctx.inst(R, b.path, False, f"{nm} on a size: wraps instead of reporting an allocation error", where=b.where(s), site=nm)
            if nm and (nm.startswith("checked_") or nm.startswith("saturating_")) and t["f"].get("krate") == "core":
                n_checked += 1
                ctx.inst(R, b.path, True, f"{nm}({', '.join(show(b.prov_operand(a, s))[:40] for a in t['args'])})", where=b.where(s),
                         site=f"{nm}#{s.bb}")
    ctx.floor(R, "checked/saturating operations in the size computations", n_checked, 8)
    ctx.floor(R, "tabled plain subtractions", n_ops, 3)


def flatten_sum(e):
    """Ordered summands of a nest of checked_add / offset_add_layout / Option payload projections."""
    e = strip_casts(e)
    if e[0] == "field" and e[1][0] == "downcast" and e[1][2] == "Some":
        return flatten_sum(e[1][1])
    if e[0] == "call":
        nm = e[1].split("::")[-1]
        if nm == "checked_add" and len(e[2]) == 2:
            return flatten_sum(e[2][0]) + flatten_sum(e[2][1])
        if nm == "offset_add_layout" and len(e[2]) == 2:
            lay = strip_ref(e[2][1])
            return flatten_sum(e[2][0]) + [("oal", lay[2] if lay[0] == "field" else show(lay))]
    if e[0] == "int" and e[1] == 0:
        return []
    if e[0] == "const_item":
        return [("const", e[1].split("::")[-1])]
    if e[0] == "param":
        return [("param", e[2])]
    return [("expr", show(e))]


def r4_rounding_order(ctx, P, R="C12.R4"):
    ctx.rule(R, "capacity hint = overhead + header + bytes (+ worst-case padding) + MIN_CHUNK_ALIGN slack in the tabled order; "
                "size hint raised to the minimum; overhead subtraction followed by align_size")
    S = Sym(P, inline_depth=0)
    its = [i for i in P.facts["items"] if i["name"] == "calc_hint_from_capacity_bytes" and "size_config" in i["path"]]
    if ctx.need(len(its) == 1, R, "ChunkSizeConfig::calc_hint_from_capacity_bytes"):
        e = S.ret(its[0]["id"])
        leaves = [(c, l) for c, l in ite_leaves(e) if l[0] == "agg" and l[2] == "Some"]
        ctx.need(len(leaves) == 2, R, "two Some(..) results (up / down) in calc_hint_from_capacity_bytes")
        for conds, leaf in leaves:
            up = None
            for c, k in conds:
                cc = strip_ref(c)
                if cc[0] == "field" and cc[2] == "up":
                    up = (k != "0")
            summ = flatten_sum(leaf[4][0])
            want_up = [("oal", "assumed_malloc_overhead_layout"), ("oal", "chunk_header_layout"), ("param", "bytes"), ("const", "MIN_CHUNK_ALIGN")]
            want_dn = [("oal", "assumed_malloc_overhead_layout"), ("param", "bytes"), ("oal", "chunk_header_layout"), ("const", "MIN_CHUNK_ALIGN")]
            want = want_up if up else want_dn
            ctx.inst(R, its[0]["path"], summ == want and up is not None, f"{'up' if up else 'down'}: hint = " + " + ".join(f"{a}({b})" for a, b in summ) +
                     ("" if summ == want else f"; expected {want}: a chunk sized from this hint may not fit header + request after "
                      "the later down-alignment"), where=P.body(its[0]["id"]).where(), site=f"{'up' if up else 'down'} hint sum")
    its = [i for i in P.facts["items"] if i["name"] == "calc_hint_from_capacity" and "size_config" in i["path"]]
    if ctx.need(len(its) == 1, R, "ChunkSizeConfig::calc_hint_from_capacity"):
        b = P.body(its[0]["id"])
        cs = b.calls_to(lambda f: f.get("name") == "calc_hint_from_capacity_bytes")
        ok = len(cs) == 1
        if ok:
            s, t = cs[0]
            v = b.prov_operand(t["args"][1], s)
            adds = [x for x in walk_expr(v) if x[0] == "call" and x[1].split("::")[-1] == "checked_add"]
            ok = bool(adds)
            if ok:
                a0, a1 = strip_casts(adds[0][2][0]), strip_casts(adds[0][2][1])
                ok = a0[0] == "call" and a0[1] == "core::alloc::Layout::size" and mentions_param(a0, 2) and \
                    a1[0] == "call" and a1[1].split("::")[-1] == "saturating_sub" and \
                    strip_casts(a1[2][0])[1] == "core::alloc::Layout::align" and mentions_param(a1[2][0], 2) and \
                    strip_casts(a1[2][1])[1] == "core::alloc::Layout::align" and \
                    expr_mentions(a1[2][1], lambda x: x[0] == "field" and x[2] == "chunk_header_layout")
            ctx.inst(R, b.path, ok, f"bytes = {show(v)} (request size + worst-case padding align - header align)" if ok else
                     f"bytes = {show(v)}: the worst-case alignment padding is not added to the request", where=b.where(s), site="padding")
    its = [i for i in P.facts["items"] if i["name"] == "calc_size_from_hint" and "size_config" in i["path"]]
    if ctx.need(len(its) == 1, R, "ChunkSizeConfig::calc_size_from_hint"):
        b = P.body(its[0]["id"])
        # hint raised to min = overhead + header
        mx = b.calls_to(lambda f: f.get("name") == "max")
        okm = False
        for s, t in mx:
            a, c = b.prov_operand(t["args"][0], s), b.prov_operand(t["args"][1], s)
            if mentions_param(a, 2) and [x for x in flatten_sum(c)] == [("oal", "assumed_malloc_overhead_layout"), ("oal", "chunk_header_layout")]:
                okm = True
        ctx.inst(R, b.path, okm, "size_hint = max(size_hint, overhead + header)", where=b.where(), site="min")
        # rounding: power of two below the step, multiple of the step above
        rn = b.calls_to(lambda f: f.get("name") in ("checked_next_power_of_two",))
        ua = b.calls_to(lambda f: f.get("name") == "up_align")
        ctx.inst(R, b.path, len(rn) == 1 and len(ua) >= 1, "rounds to a power of two (below the page step) or a multiple of the step (checked)",
                 where=b.where(), site="rounding")
        size_step_rule(ctx, P, R)
        # overhead subtraction is followed by align_size, and the result is what is returned
        subs = [(s, st) for s, st in b.assigns() if st["r"]["k"] == "bin" and st["r"]["op"].startswith("Sub")]
        als = b.calls_to(lambda f: f.get("name") == "align_size")
        ok = len(subs) == 1 and len(als) == 1 and b.dominates(subs[0][0], als[0][0])
        if ok:
            v = b.prov_operand(als[0][1]["args"][1], als[0][0])
            ok = v[0] == "bin" and v[1].startswith("Sub")
        ctx.inst(R, b.path, ok, "size - overhead is passed through align_size before it is returned", where=b.where(), site="sub then align")
        nz = b.calls_to(lambda f: f["path"].startswith("core::num::NonZero::<") and f.get("name") == "new")
        okr = False
        for s, t in nz:
            v = b.prov_operand(t["args"][0], s)
            alts = phi_alts(v)
            okr = any(expr_mentions(a, lambda x: x[0] == "call" and x[1].split("::")[-1] == "align_size") for a in alts)
        ctx.inst(R, b.path, okr, "the returned size is the aligned one (or the rounded one when no overhead is subtracted)", where=b.where(), site="returns aligned")
    # align_size: down_align(size, up ? 16 : max(16, header align))
    its = [i for i in P.facts["items"] if i["name"] == "align_size" and "size_config" in i["path"]]
    if ctx.need(len(its) == 1, R, "ChunkSizeConfig::align_size"):
        e = S.ret(its[0]["id"])
        b = P.body(its[0]["id"])
        ok = False
        desc = show(e)
        leaves = ite_leaves(e)
        good = 0
        for conds, leaf in leaves:
            l = strip_casts(leaf)
            if l[0] == "call" and l[1].split("::")[-1] == "down_align" and strip_casts(l[2][0])[0] == "param":
                al = strip_casts(l[2][1])
                up = [k for c, k in conds if strip_ref(c)[0] == "field" and strip_ref(c)[2] == "up"]
                if up and up[0] != "0":
                    good += al[0] == "const_item" and al[1].endswith("MIN_CHUNK_ALIGN")
                elif up:
                    good += al[0] == "call" and al[1].split("::")[-1] == "max" and \
                        any(strip_casts(x)[0] == "const_item" and strip_casts(x)[1].endswith("MIN_CHUNK_ALIGN") for x in al[2]) and \
                        any(expr_mentions(x, lambda y: y[0] == "field" and y[2] == "chunk_header_layout") for x in al[2])
        ctx.inst(R, its[0]["path"], good == 2 and len(leaves) == 2, f"align_size = {desc[:200]}", where=b.where(), site="align_size form")


def size_step_rule(ctx, P, R):
    """The rounding step of calc_size_from_hint is max(ASSUMED_PAGE_SIZE, header alignment): requested sizes are multiples
    of the header alignment, so trimming the granted size to that alignment can never go below the request."""
    its = [i for i in P.facts["items"] if i["name"] == "calc_size_from_hint" and "size_config" in i["path"]]
    if not ctx.need(len(its) == 1, R, "ChunkSizeConfig::calc_size_from_hint"):
        return
    b = P.body(its[0]["id"])
    ua = b.calls_to(lambda f: f.get("name") == "up_align")
    ctx.need(len(ua) >= 1, R, "up_align call in calc_size_from_hint")
    for k, (s, t) in enumerate(ua):
        st = strip_casts(b.prov_operand(t["args"][1], s))
        ok = st[0] == "call" and st[1].split("::")[-1] == "max" and \
            any(strip_casts(x)[0] == "const_item" and strip_casts(x)[1].endswith("ASSUMED_PAGE_SIZE") for x in st[2]) and \
            any(strip_casts(x)[0] == "call" and strip_casts(x)[1] == "core::alloc::Layout::align" and
                expr_mentions(x, lambda y: y[0] == "field" and y[2] == "chunk_header_layout") for x in st[2])
        ctx.inst(R, b.path, ok, "sizes from one step upwards are rounded to max(ASSUMED_PAGE_SIZE, header alignment)" if ok else
                 f"sizes are rounded up to a multiple of {show(st)[:80]} only: with a base allocator aligned above the page size the "
                 "requested size is not a multiple of the header alignment, the granted size is trimmed below the request and the "
                 "chunk is released with a size smaller than requested", where=b.where(s), site=f"size step #{k}")


def r6_prepare_pads_layout(ctx, P, R="C12.R6"):
    ctx.rule(R, "the public prepare / commit entry points of the type-erased interface (BumpAllocatorCore::prepare_allocation, "
                "allocate_prepared(_rev) on BumpScope) pad the caller's layout to its alignment before using it: both ends of a "
                "prepared range are aligned and a fresh chunk is budgeted for one-sided padding only, which fits the request only "
                "when size % align == 0 (otherwise in_another_chunk reaches unreachable_unchecked / the range is too small)")
    n = 0
    for b in P.fn_bodies():
        if b.item["name"] not in ("prepare_allocation", "allocate_prepared", "allocate_prepared_rev"):
            continue
        if not b.path.startswith("<bump_scope::BumpScope<") or "BumpAllocatorCore" not in b.path:
            continue
        n += 1
        pads = b.calls_to(lambda f: f.get("name") == "pad_to_align")
        lay = [l for l in range(1, b.argc + 1) if b.locals[l]["ty"] == "core::alloc::Layout"]
        ok = len(pads) == 1 and bool(lay)
        if ok:
            ps = pads[0][0]
            # every use of the layout parameter other than the padding call itself comes after it and goes through its result:
            # no call (besides pad_to_align) takes the raw parameter
            raw_uses = []
            for s_, t in b.calls():
                if s_ == ps:
                    continue
                for a in t["args"]:
                    if a.get("k") in ("cp", "mv") and a["p"]["l"] == lay[0]:
                        raw_uses.append(s_)
                    elif a.get("k") in ("cp", "mv"):
                        pass
            for s_, st in b.assigns():
                r = st["r"]
                if r["k"] == "ref" and r["p"]["l"] == lay[0] and not b.dominates(s_, ps):
                    raw_uses.append(s_)
            ok = not raw_uses and all(b.dominates(ps, s_) for s_, t in b.calls() if s_ != ps and t["f"].get("name") in
                                      ("prepare_allocation_range", "in_another_chunk", "size", "align", "set_pos_addr_and_align", "copy_to"))
        ctx.inst(R, b.path, ok, "the layout is padded to its alignment first and only the padded layout is used" if ok else
                 "the caller's layout is used without Layout::pad_to_align: for a size that is not a multiple of the alignment the "
                 "prepared range can be smaller than the layout, a freshly created chunk may not fit it (unreachable_unchecked in safe "
                 "code) and the downward commit returns a misaligned block", where=b.where(), site="layout padded at the entry")
    ctx.floor(R, "prepare / commit entry points of BumpScope", n, 3)


def r7_chunk_for_layout(ctx, P, R="C12.R7"):
    ctx.rule(R, "a chunk created *for a layout* is sized by ChunkSize::from_capacity(that layout) (header, worst-case padding and "
                "slack included): in the slow path and in reserve every NonDummyChunk::new / append_for receives the layout "
                "parameter through from_capacity / for_capacity, never a bare size hint")
    n = 0
    for b in P.fn_bodies():
        if not re.match(r"raw_bump::(RawBump|NonDummyChunk)::<A, S>::(in_another_chunk|reserve|append_for)$", b.path):
            continue
        news = b.calls_to(lambda f: f.get("name") == "new" and "NonDummyChunk" in f.get("path", ""))
        for k, (s_, t) in enumerate(news):
            n += 1
            v = b.prov_operand(t["args"][0], s_)
            via_cap = expr_mentions(v, lambda x: x[0] == "call" and x[1].split("::")[-1] in ("from_capacity", "for_capacity"))
            via_hint_only = expr_mentions(v, lambda x: x[0] == "call" and x[1].split("::")[-1] == "from_hint") and not via_cap
            ok = via_cap and not via_hint_only
            ctx.inst(R, b.path, ok, f"chunk size = {show(v)[:90]}" if ok else
                     f"the chunk created for the request is sized {show(v)[:90]} - not by from_capacity(layout): header and alignment "
                     "padding are not budgeted, the request may not fit the fresh chunk (unreachable_unchecked in the slow path)",
                     where=b.where(s_), site=f"new chunk #{k} sized from the layout")
    ctx.floor(R, "chunk creations for a layout", n, 2)


def r3_growth(ctx, P, R="C12.R3"):
    ctx.rule(R, "append_for sizes the new chunk by max(hint for the layout, checked 2 x current size)")
    bs = [b for b in P.fn_bodies() if b.item["name"] == "append_for" and "NonDummyChunk" in b.path]
    if ctx.need(len(bs) == 1, R, "NonDummyChunk::append_for"):
        b = bs[0]
        news = b.calls_to(lambda f: f.get("name") == "new" and "NonDummyChunk" in f["path"])
        if ctx.need(len(news) == 1, R, "append_for: NonDummyChunk::new call"):
            s, t = news[0]
            v = b.prov_operand(t["args"][0], s)
            okc = expr_mentions(v, lambda x: x[0] == "call" and x[1].split("::")[-1] == "calc_size")
            mx = [x for x in walk_expr(v) if x[0] == "call" and x[1].split("::")[-1] == "max" and "ChunkSizeHint" in x[1]]
            ok = okc and len(mx) >= 1
            if ok:
                a, c = mx[0][2]
                both = [a, c]
                has_req = any(expr_mentions(x, lambda y: y[0] == "call" and y[1].split("::")[-1] == "for_capacity" and mentions_param(y, 2)) for x in both)
                has_grow = any(expr_mentions(x, lambda y: y[0] == "call" and y[1].split("::")[-1] == "grow_size" and mentions_param(y, 1)) for x in both)
                ok = has_req and has_grow
            ctx.inst(R, b.path, ok, f"new chunk size = {show(v)[:220]}" + ("" if ok else " — not max(required, grown)"), where=b.where(s), site="max(required, grown)")
    bs = [b for b in P.fn_bodies() if b.item["name"] == "grow_size" and "NonDummyChunk" in b.path]
    if ctx.need(len(bs) == 1, R, "NonDummyChunk::grow_size"):
        b = bs[0]
        cm = b.calls_to(lambda f: f.get("name") == "checked_mul")
        ok = len(cm) == 1
        if ok:
            s, t = cm[0]
            a0, a1 = b.prov_operand(t["args"][0], s), b.prov_operand(t["args"][1], s)
            ok = expr_mentions(a0, lambda x: x[0] == "call" and x[1].split("::")[-1] == "size" and mentions_param(x, 1)) and a1 == ("int", 2, "usize")
        ctx.inst(R, b.path, ok, "grown size = checked_mul(self.size(), 2)" if ok else "the doubling is not a checked 2 x current size", where=b.where(), site="doubling")


def run(ctx, progs):
    ctx.assume("rustc nightly's type checker and MIR construction are correct")
    ctx.assume("value numbering treats checked_add/offset_add_layout as uninterpreted additive combinators; only the ORDER and "
               "PRESENCE of summands is decided, not their numeric sufficiency")
    for lab, P in progs:
        ctx.config = lab
        r1_no_wrapping(ctx, P)
        c07.r5_overflow(ctx, P, R="C12.R2")
        r3_growth(ctx, P)
        r4_rounding_order(ctx, P)
        r6_prepare_pads_layout(ctx, P)
        r7_chunk_for_layout(ctx, P)
    ctx.config = None
