"""C05 — every chunk is returned to the base allocator exactly once and fits."""
import re
from ..ir import show, phi_alts, walk_expr, expr_mentions, Site, RET, UNW
from ..sym import Sym, Unanalysable, affine, specialise
from .common import *
from .poswrite import *
from . import c10

EXPLANATION = (
    "Static rules over polymorphic MIR. C05.R1: in the arena core the base allocator (trait method on the type "
    "parameter that instantiates the chunk header's `allocator` field) is called at exactly one allocate site "
    "(NonDummyChunk::new) and one deallocate site (NonDummyChunk::deallocate), never grow/shrink/zeroed; constructors of "
    "an unallocated arena reach neither. C05.R2: Bump::drop reaches manually_drop whose allocated arm passes the prev "
    "walk, the next walk and the release of the current chunk on every path; the walks read the link before invoking "
    "the callback on a chunk (no read after free); into_raw suppresses the drop. C05.R3: reset frees all predecessors, "
    "frees a chunk in the forward walk only if it has a successor, then unlinks, resets and makes the survivor "
    "current. C05.R4: release layout agrees with the request: same alignment expression align_of::<ChunkHeader<A>>(), "
    "pointer chunk_start(), size chunk_end - chunk_start derived from the aligned granted size; the header is not read "
    "after the release. C05.R5: a failed chunk creation links nothing: next.set / self.chunk.set / header write are "
    "dominated by the success edge of the creating call. Not decided: that the released size is >= the requested size "
    "as a number (arithmetic of C12), behaviour of a faulty base allocator.")

ALLOC_TRAIT_METHODS = {"allocate", "deallocate", "grow", "shrink", "allocate_zeroed", "grow_zeroed"}


def base_allocator_calls(P):
    """Calls of Allocator-trait methods on a type parameter inside the arena core (chunk / raw bump types)."""
    out = []
    for b in P.fn_bodies():
        impl = P.impl_of_item.get(P.outermost_fn(b.item)["id"])
        core = impl is not None and re.match(r"raw_bump::(NonDummyChunk|RawChunk|RawBump)<", impl["self_ty"])
        if not core:
            continue
        for s, t in b.calls():
            f = t["f"]
            if f.get("name") in ALLOC_TRAIT_METHODS and f.get("trait") and f["trait"].endswith("Allocator"):
                a0 = (f.get("args") or [{}])[0]
                if "param" in a0:
                    out.append((b, s, t))
    return out


def r1_who_calls_base(ctx, P):
    R = "C05.R1"
    ctx.rule(R, "exactly one base-allocator allocate site and one deallocate site in the arena core; unallocated "
                "constructors reach neither")
    calls = base_allocator_calls(P)
    by = {}
    for b, s, t in calls:
        by.setdefault(t["f"]["name"], []).append((b, s))
    for nm in sorted(by):
        sites = by[nm]
        if nm == "allocate":
            ok = len(sites) == 1 and sites[0][0].item["name"] == "new" and "NonDummyChunk" in sites[0][0].path
        elif nm == "deallocate":
            ok = len(sites) == 1 and sites[0][0].item["name"] == "deallocate" and "NonDummyChunk" in sites[0][0].path
        else:
            ok = False
        ctx.inst(R, "base allocator", ok, f"{nm}: {len(sites)} site(s) in {[b.path for b, _ in sites]}" +
                 ("" if ok else " — the arena core may call the base allocator only in NonDummyChunk::new (allocate) and "
                  "NonDummyChunk::deallocate (deallocate)"), site=nm)
    ctx.need("allocate" in by and "deallocate" in by, R, "base-allocator allocate and deallocate sites")
    # unallocated constructors never reach the base allocator
    alloc_bodies = {b.id for b, s, t in calls}
    roots = [i["id"] for i in P.facts["items"] if i["kind"] in ("Fn", "AssocFn") and i["id"] in P.raw_bodies and
             (i["path"] in ("raw_bump::RawBump::<A, S>::new", "bump::Bump::<A, S>::unallocated"))]
    ctx.need(len(roots) >= 2, R, "RawBump::new and Bump::unallocated")
    parents = P.reach_fns(roots)
    hits = [st for st in parents if st[0] in alloc_bodies]
    ctx.inst(R, "unallocated constructors", not hits, f"{len(parents)} functions reachable from the unallocated constructors; "
             + ("none calls the base allocator" if not hits else "the base allocator is reachable: " +
                " -> ".join(p for p, _ in P.path_to(parents, hits[0]))), site="never calls base allocator")
    # Default in the non-guaranteed-allocated arm
    for b in P.fn_bodies():
        if b.item["name"] == "default" and b.path.startswith("<bump::Bump<A, S> as core::default::Default>"):
            te, fe = b.cond_edges(lambda e: True if (e[0] == "assoc_const" and e[2] == "GUARANTEED_ALLOCATED") else None)
            ctors = b.calls_to(lambda f: f.get("name") in ("new_in", "new", "with_size_in", "with_capacity_in", "with_size",
                                                           "with_capacity") and f["path"].startswith("bump::Bump::"))
            ok = all(b.controlled_by(s, te, cleanup=False) for s, _ in ctors)
            ctx.inst(R, b.path, ok, f"Default allocates a chunk only when GUARANTEED_ALLOCATED ({len(ctors)} allocating constructor call(s))",
                     where=b.where(), site=f"default arm ({len(ctors)} ctor calls)")


def loop_reads_link_before_callback(ctx, R, b, link):
    """for_each_prev / for_each_next: the link of a chunk is read before the callback runs on that chunk."""
    cbs = [(s, t) for s, t in b.calls() if t["f"].get("path") in ("core::ops::FnMut::call_mut",)]
    links = b.calls_to(lambda f: f.get("name") == link and "NonDummyChunk" in f["path"])
    if not ctx.need(len(cbs) == 1 and len(links) >= 2, R, f"{b.path}: one callback call and two {link}() reads"):
        return
    cs, ct = cbs[0]
    # the callback's argument tuple: find the operand that was put into it
    cvars = []
    targ = ct["args"][1]
    if targ.get("k") in ("cp", "mv") and not targ["p"]["p"]:
        for n in b.reaching_defs(targ["p"]["l"], cs):
            _, dsite, kind, payload, proj = b._defs[n]
            if kind == "assign" and payload["k"] == "agg":
                for o in payload["fields"]:
                    cvars.append(b.root_var(o, dsite))
    ok = False
    for ls, lt in links:
        lv = b.root_var(lt["args"][0], ls)
        if b.dominates(ls, cs) and b.can_reach(cs, ls) and lv is not None and lv in cvars:
            ok = True
    # and nothing reads the chunk's link after the callback in the same iteration: the callback's successor path back
    # to the loop head contains no link read of the same value other than the dominating one (checked by dominance)
    ctx.inst(R, b.path, ok, f"{link}() of a chunk is read before the callback (which may free it) runs on that chunk" if ok else
             f"the callback runs on a chunk before its {link}() link was read: the walk would read a freed header",
             where=b.where(cs), site="link before callback")


def r2_drop(ctx, P):
    R = "C05.R2"
    ctx.rule(R, "drop releases every chunk once: prev walk, next walk and the current chunk on every path of the "
                "allocated arm; walks read links before freeing; into_raw suppresses the drop")
    d = [b for b in P.fn_bodies() if b.item["name"] == "drop" and b.path.startswith("<bump::Bump<A, S> as core::ops::Drop>")]
    if ctx.need(len(d) == 1, R, "Drop for Bump"):
        b = d[0]
        md = b.calls_to(lambda f: f.get("name") == "manually_drop")
        ok = len(md) == 1 and b.must_pass(None, [md[0][0].bb], exits=(RET,), cleanup=False, from_edge=0)[0]
        ctx.inst(R, b.path, ok, "Bump::drop calls RawBump::manually_drop on every path", where=b.where(), site="drop -> manually_drop")
    m = [b for b in P.fn_bodies() if b.item["name"] == "manually_drop" and "RawBump" in b.path]
    if ctx.need(len(m) == 1, R, "RawBump::manually_drop"):
        b = m[0]
        ve = b.variant_edges(lambda e: e[0] == "call" and e[1].split("::")[-1] == "classify")
        nd = ve.get("NonDummy", [])
        ctx.need(bool(nd), R, "manually_drop: NonDummy arm of classify()")
        fp = b.calls_to(lambda f: f.get("name") == "for_each_prev")
        fn_ = b.calls_to(lambda f: f.get("name") == "for_each_next")
        de = b.calls_to(lambda f: f.get("name") == "deallocate" and "NonDummyChunk" in f["path"])
        for what, sites in (("for_each_prev(deallocate)", fp), ("for_each_next(deallocate)", fn_), ("deallocate(current)", de)):
            ok = len(sites) == 1 and all(b.must_pass(None, [sites[0][0].bb], exits=(RET,), cleanup=False, from_edge=tgt)[0]
                                         for _, tgt, _ in nd)
            ctx.inst(R, b.path, ok, f"allocated arm passes {what} exactly once on every path" if ok else
                     f"allocated arm can return without {what} (chunks leak) or has it {len(sites)} times (double free)",
                     where=b.where(), site=what)
        # the closures passed to the walks call deallocate on their argument
        for s, t in fp + fn_:
            cl = [a.get("closure") for a in t["f"].get("args", []) if a.get("closure")]
            okc = False
            if cl and P.body(cl[0]):
                cb = P.body(cl[0])
                dc = cb.calls_to(lambda f: f.get("name") == "deallocate" and "NonDummyChunk" in f["path"])
                okc = len(dc) == 1 and mentions_param(cb.prov_operand(dc[0][1]["args"][0], dc[0][0]), 2)
            ctx.inst(R, b.path, okc, f"{t['f']['name']} callback frees its argument chunk", where=b.where(s), site=f"{t['f']['name']} callback")
        # order: current chunk last (its links are needed by the walks)
        if fp and fn_ and de:
            ok = b.dominates(fp[0][0], de[0][0]) and b.dominates(fn_[0][0], de[0][0])
            ctx.inst(R, b.path, ok, "the current chunk is released after both walks (its links are read by them)", where=b.where(), site="current last")
    for nm, link in (("for_each_prev", "prev"), ("for_each_next", "next")):
        bs = [b for b in P.fn_bodies() if b.item["name"] == nm and "NonDummyChunk" in b.path]
        if ctx.need(len(bs) == 1, R, f"NonDummyChunk::{nm}"):
            loop_reads_link_before_callback(ctx, R, bs[0], link)
    ir = [b for b in P.fn_bodies() if b.item["name"] == "into_raw" and b.path.startswith("bump::Bump::<A, S>::")]
    if ctx.need(len(ir) == 1, R, "Bump::into_raw"):
        b = ir[0]
        drops = [t for s, t in b.drops() if "bump::Bump<" in t["ty"] and not t["ty"].startswith("core::mem::ManuallyDrop")]
        md = b.calls_to(lambda f: f["path"].startswith("core::mem::ManuallyDrop::<T>::new"))
        # ManuallyDrop::new is transparent for PROV, look at the raw call list
        has_md = any(t["f"].get("path", "").startswith("core::mem::ManuallyDrop") for s, t in b.calls())
        ctx.inst(R, b.path, not drops and has_md, "into_raw wraps self in ManuallyDrop and contains no drop of the Bump"
                 if not drops and has_md else "into_raw can drop the Bump (the raw pointer would dangle / chunks freed twice)",
                 where=b.where(), site="no drop")


def r3_reset(ctx, P, R="C05.R3"):
    ctx.rule(R, "reset keeps exactly the last chunk: frees predecessors, frees in the forward walk only chunks that have a "
                "successor, then unlinks, resets and makes the survivor current")
    bs = [b for b in P.fn_bodies() if b.item["name"] == "reset" and b.path == "raw_bump::RawBump::<A, S>::reset"]
    if not ctx.need(len(bs) == 1, R, "RawBump::reset"):
        return
    b = bs[0]
    fp = b.calls_to(lambda f: f.get("name") == "for_each_prev")
    de = b.calls_to(lambda f: f.get("name") == "deallocate" and "NonDummyChunk" in f["path"])
    nx = b.calls_to(lambda f: f.get("name") == "next" and "NonDummyChunk" in f["path"])
    ve = b.variant_edges(lambda e: e[0] == "call" and e[1].split("::")[-1] == "as_non_dummy")
    some = ve.get("Some", [])
    ctx.need(bool(some) and len(fp) == 1 and len(de) == 1 and len(nx) >= 1, R, "reset: as_non_dummy/for_each_prev/deallocate/next")
    if not (some and fp and de and nx):
        return
    ok = all(b.must_pass(None, [fp[0][0].bb], exits=(RET,), cleanup=False, from_edge=tgt)[0] for _, tgt, _ in some)
    ctx.inst(R, b.path, ok, "all predecessors are freed (for_each_prev) on every path of the allocated arm", where=b.where(), site="prev freed")
    ne = b.variant_edges(lambda e: e[0] == "call" and e[1].split("::")[-1] == "next" and "NonDummyChunk" in e[1])
    some_n, none_n = ne.get("Some", []), ne.get("None", [])
    ok = b.controlled_by(de[0][0], some_n, cleanup=False)
    ctx.inst(R, b.path, ok, "a chunk is freed in the forward walk only if next() returned Some (it has a successor)" if ok else
             "the forward walk can free a chunk without a successor: the survivor itself would be freed",
             where=b.where(de[0][0]), site="free only with successor")
    # the freed chunk is the one whose next() was read (not the successor that next() returned)
    darg = b.prov_operand(de[0][1]["args"][0], de[0][0])
    dv = b.root_var(de[0][1]["args"][0], de[0][0])
    nvs = [b.root_var(t["args"][0], s) for s, t in nx if b.dominates(s, de[0][0])]
    okd = dv is not None and any(dv == nv for nv in nvs)
    ctx.inst(R, b.path, okd, f"the forward walk frees the chunk whose next() was just read ({show(darg)})" if okd else
             f"the forward walk frees {show(darg)}, which is not the chunk whose successor was just established: the "
             "surviving (last) chunk can be freed", where=b.where(de[0][0]), site="frees predecessor not successor")
    # after the walk: unlink, reset, make current; and no deallocate reachable
    unl = [(s, t) for s, t in b.calls() if t["f"].get("path") in CELL_WRITES and
           expr_mentions(b.prov_operand(t["args"][0], s), lambda x: is_header_field(x, "prev"))]
    rs = b.calls_to(lambda f: f.get("name") == "reset" and "NonDummyChunk" in f["path"])
    st = [(s, t) for s, t in b.calls() if t["f"].get("path") == "core::cell::Cell::<T>::set" and
          expr_mentions(b.prov_operand(t["args"][0], s), lambda x: x[0] == "field" and x[2] == "chunk" and mentions_param(x, 1))]
    for what, sites in (("prev.set(None)", unl), ("chunk.reset()", rs), ("self.chunk.set(survivor)", st)):
        ok = len(sites) >= 1 and all(b.must_pass(None, [s.bb for s, _ in sites], exits=(RET,), cleanup=False, from_edge=tgt)[0]
                                     for _, tgt, _ in none_n) and bool(none_n)
        ctx.inst(R, b.path, ok, f"after the walk every path passes {what}" if ok else f"a path after the walk skips {what}",
                 where=b.where(), site=what)
    reach_after = set()
    for _, tgt, _ in none_n:
        reach_after |= b.reach([tgt], cleanup=False)
    ok = de[0][0].bb not in reach_after and fp[0][0].bb not in reach_after
    ctx.inst(R, b.path, ok, "nothing is freed after the walk ended: the last chunk survives" if ok else
             "a free is reachable after the walk ended", where=b.where(), site="survivor kept")


def r4_layout_agreement(ctx, P):
    R = "C05.R4"
    ctx.rule(R, "release layout agrees with the request: same alignment atom, pointer = chunk_start, size = chunk_end - "
                "chunk_start; header not read after the release")
    req = [b for b in P.fn_bodies() if b.item["name"] == "layout" and b.path.startswith("chunk::size::ChunkSize::<A, S>")]
    rel = [b for b in P.fn_bodies() if b.item["name"] == "layout" and b.path.startswith("raw_bump::NonDummyChunk::<A, S>")]
    if not (ctx.need(len(req) == 1, R, "ChunkSize::layout") and ctx.need(len(rel) == 1, R, "NonDummyChunk::layout")):
        return

    def align_atoms(b):
        out = set()
        for s, t in b.calls():
            if t["f"].get("name") in ("from_size_align", "from_size_align_unchecked"):
                a = b.prov_operand(t["args"][1], s)
                for x in walk_expr(a):
                    if x[0] == "call" and x[1].split("::")[-1] == "align_of":
                        out.add(("align_of", x[3]))
                    if x[0] == "const_item" and "align_of" in x[1]:
                        out.add(("align_of", x[2]))
                if not out:
                    out.add(("other", show(a)))
        return out
    ra, la = align_atoms(req[0]), align_atoms(rel[0])
    ok = ra == la and len(ra) == 1 and any("ChunkHeader<A>" in g for x in ra for g in x[1])
    ctx.inst(R, "ChunkSize::layout vs NonDummyChunk::layout", ok, f"request alignment {sorted(map(str, ra))} ; release alignment "
             f"{sorted(map(str, la))}" + ("" if ok else " — the chunk would be released with a different alignment than it was "
             "requested with"), where=rel[0].where(), site="alignment atom")
    # release size = chunk_end - chunk_start (AVN), pointer = chunk_start
    S = Sym(P, inline_depth=5)
    try:
        forms = c10.direction_forms(P, S, rel[0].id, "typed")
        # layout() returns Layout::from_size_align_unchecked(size, align): look at the size argument via PROV instead
    except Unanalysable:
        forms = None
    b = rel[0]
    for s, t in b.calls():
        if t["f"].get("name") in ("from_size_align_unchecked", "from_size_align"):
            sz = b.prov_operand(t["args"][0], s)
            ok = expr_mentions(sz, lambda x: x[0] == "call" and x[1].split("::")[-1] == "size" and "NonDummyChunk" in x[1])
            ctx.inst(R, b.path, ok, f"release size = {show(sz)} (the chunk's recorded size)", where=b.where(s), site="release size")
    sz_ids = c10.find_method(P, "raw_bump::NonDummyChunk<", "size")
    if ctx.need(len(sz_ids) == 1, R, "NonDummyChunk::size"):
        f = c10.direction_forms(P, S, sz_ids[0], "typed")
        cs = c10.direction_forms(P, S, c10.find_method(P, "raw_bump::NonDummyChunk<", "chunk_start")[0], "typed")
        ce = c10.direction_forms(P, S, c10.find_method(P, "raw_bump::NonDummyChunk<", "chunk_end")[0], "typed")
        for up in (True, False):
            ok = f[up] == ce[up] - cs[up]
            ctx.inst(R, "NonDummyChunk::size", ok, f"{'up' if up else 'down'}: size = {f[up]!r} = chunk_end - chunk_start",
                     site=f"{'up' if up else 'down'} size identity")
    d = [b for b in P.fn_bodies() if b.item["name"] == "deallocate" and b.path.startswith("raw_bump::NonDummyChunk::<A, S>")]
    if ctx.need(len(d) == 1, R, "NonDummyChunk::deallocate"):
        b = d[0]
        rel_calls = [(s, t) for s, t in b.calls() if t["f"].get("name") == "deallocate" and t["f"].get("trait")]
        if ctx.need(len(rel_calls) == 1, R, "base deallocate call in NonDummyChunk::deallocate"):
            s, t = rel_calls[0]
            p = b.prov_operand(t["args"][1], s)
            l = b.prov_operand(t["args"][2], s)
            recv = b.prov_operand(t["args"][0], s)
            okp = p[0] == "call" and p[1].split("::")[-1] == "chunk_start" and mentions_param(p, 1)
            okl = l[0] == "call" and l[1].split("::")[-1] == "layout" and mentions_param(l, 1)
            okr = expr_mentions(recv, lambda x: x[0] == "call" and x[1].split("::")[-1] == "read") and \
                expr_mentions(recv, lambda x: is_header_field(x, "allocator"))
            ctx.inst(R, b.path, okp and okl, f"deallocate({show(p)}, {show(l)})", where=b.where(s), site="release args")
            ctx.inst(R, b.path, okr, f"the allocator value is moved out of the header ({show(recv)}) before the release", where=b.where(s), site="allocator moved out")
            after = [x for x, _ in b.calls() if x != s and b.can_reach(s, x) and not b.is_cleanup(x.bb)]
            ctx.inst(R, b.path, not after, "no call (hence no header read) follows the release on normal paths" if not after else
                     f"calls after the release: the freed header may be read", where=b.where(s), site="nothing after release")


def success_edges_of(b, site):
    """Edges that establish that the fallible call at `site` succeeded (Ok / Continue / Some), through `?`."""
    bb = site.bb
    ve = b.variant_edges(lambda e: expr_mentions(e, lambda x: x[0] == "call" and len(x) > 4 and x[4] == (bb,)))
    out = []
    for k in ("Ok", "Continue", "Some"):
        out += ve.get(k, [])
    return out


def r5_failure_links_nothing(ctx, P, R="C05.R5"):
    ctx.rule(R, "a failed chunk creation links nothing: next.set, self.chunk.set(new) and the header write are dominated by "
                "the success edge of the creating call")
    n = 0
    for b in P.fn_bodies():
        if not re.match(r"raw_bump::(RawBump|NonDummyChunk)::<A, S>::", b.path):
            continue
        creators = b.calls_to(lambda f: f.get("name") in ("new", "append_for") and "NonDummyChunk" in f["path"])
        if not creators:
            continue
        for s, t in b.calls():
            if t["f"].get("path") not in ("core::cell::Cell::<T>::set",):
                continue
            v = b.prov_operand(t["args"][1], s)
            dep = [c for c in creators if expr_mentions(v, lambda x: x[0] == "call" and len(x) > 4 and x[4] == (c[0].bb,)
                                                        and x[1] == c[1]["f"]["path"])]
            if not dep:
                continue
            n += 1
            ok = True
            for c in dep:
                se = success_edges_of(b, c[0])
                ok = ok and bool(se) and b.controlled_by(s, se, cleanup=False)
            recv = b.prov_operand(t["args"][0], s)
            ctx.inst(R, b.path, ok, f"{show(recv)}.set(<new chunk>) is dominated by the success edge of the creating call" if ok else
                     f"{show(recv)}.set(<new chunk>) can execute although chunk creation failed", where=b.where(s),
                     site=f"link after create bb-order {n}")
    ctx.floor(R, "link/current-chunk writes of freshly created chunks", n, 4)
    nb = [b for b in P.fn_bodies() if b.item["name"] == "new" and b.path.startswith("raw_bump::NonDummyChunk::<A, S>")]
    if ctx.need(len(nb) == 1, R, "NonDummyChunk::new"):
        b = nb[0]
        al = [(s, t) for s, t in b.calls() if t["f"].get("name") == "allocate" and t["f"].get("trait")]
        if ctx.need(len(al) == 1, R, "allocate call in NonDummyChunk::new"):
            ve = b.variant_edges(lambda e: e[0] == "call" and e[1].endswith("Allocator::allocate"))
            okedges = ve.get("Ok", [])
            ws = raw_write_sites(b)
            ok = bool(ws) and all(b.controlled_by(s, okedges, cleanup=False) for s, _ in ws)
            ctx.inst(R, b.path, ok, f"all {len(ws)} raw writes (header construction) happen on the Ok edge of allocate" if ok else
                     "a write happens before the base allocator's allocate is known to have succeeded", where=b.where(), site="write after allocate Ok")
            ee = ve.get("Err", [])
            # the Err edge returns Err(E::allocation(layout))
            okr = bool(ee) and all(any(t["f"].get("name") == "allocation" for s, t in b.calls()
                                       if s.bb in b.reach([tgt], cleanup=False)) for _, tgt, _ in ee)
            ctx.inst(R, b.path, okr, "the Err edge of allocate constructs E::allocation(layout)", where=b.where(), site="Err -> E::allocation")


def r6_requested_size_multiple(ctx, P):
    R = "C05.R6"
    ctx.rule(R, "the size requested for a chunk is a multiple of the header alignment (rounding step = max(page, header "
                "alignment)), so trimming the granted size to that alignment keeps it >= the request: the release size stays "
                "between requested and granted")
    from . import c12
    c12.size_step_rule(ctx, P, R)

def run(ctx, progs):
    ctx.assume("rustc nightly's type checker, MIR construction and trait resolution are correct")
    ctx.assume("the base allocator is the type parameter A of the chunk types; its methods are foreign code")
    for lab, P in progs:
        ctx.config = lab
        r1_who_calls_base(ctx, P)
        r2_drop(ctx, P)
        r3_reset(ctx, P)
        r4_layout_agreement(ctx, P)
        r5_failure_links_nothing(ctx, P)
        r6_requested_size_multiple(ctx, P)
        from . import c18
        c18.r5_by_value(ctx, P, R="C05.R7")
        from . import c12
        c12.r4_rounding_order(ctx, P, R="C05.R8")
        if any((b_.item.get("file") or "").endswith("bump_pool.rs") for b_ in P.fn_bodies()):
            from . import c19
            c19.r2_one_owner(ctx, P, R="C05.R9")   # a pooled arena is pushed back (or dropped) exactly once: never lost
        c12.r1_no_wrapping(ctx, P, R="C05.R10")
    ctx.config = None
