"""C13 — reclaiming the newest allocation works; opt-out settings are honoured."""
from ..ir import show, phi_alts, walk_expr, expr_mentions, Site, RET
from .common import *
from .poswrite import *
from . import c01

EXPLANATION = (
    "Static rules over polymorphic MIR. C13.R1: every position write (and every call to a reclaiming helper) in the "
    "deallocate bodies is control dependent on S::DEALLOCATES being true, in shrink / shrink_unfit / shrink_slice on "
    "S::SHRINKS being true; both are the associated consts of BumpAllocatorSettings, so this holds for every settings "
    "type. C13.R2: WithoutDealloc::deallocate calls nothing; WithoutShrink::shrink never reaches an inner shrink or "
    "deallocate and returns the old pointer when aligned; WithoutShrink::shrink_slice returns None. C13.R3: "
    "deallocate_assume_last writes the block start (up) / block end (down) through the aligning writer; in-place upward "
    "grow returns the old pointer and sets the position to up_align(old + new.size, MIN_ALIGN). C13.R4: every body that "
    "can move the position backwards (by provenance class of the written value) is one of the tabled reclaim / scope / "
    "reset / prepared-commit operations. Not decided: 'the same address again' as a number (needs C11).")

SETTINGS_TRAIT = "settings::BumpAllocatorSettings"


def setting_pred(name):
    def pred(e):
        if e[0] == "assoc_const" and e[1] == SETTINGS_TRAIT and e[2] == name:
            return True
        return None
    return pred


DEALLOC_BODIES = {"deallocate", "deallocate_assume_last"}
SHRINK_BODIES = {"shrink", "shrink_unfit", "shrink_slice"}
RECLAIM_HELPERS = {"deallocate_assume_last"}


def r1_settings_gates(ctx, P, D, R="C13.R1"):
    ctx.rule(R, "position writes in deallocate bodies are control dependent on S::DEALLOCATES, in shrink bodies on S::SHRINKS")
    n_d = n_s = 0
    for pw in D.external_sites():
        b = pw.body
        nm = b.item["name"]
        outer = P.outermost_fn(b.item)["name"]
        which = None
        if nm in DEALLOC_BODIES and "allocator_impl" in b.path:
            which = "DEALLOCATES"
        elif (nm in SHRINK_BODIES or outer in SHRINK_BODIES) and nm != "deallocate_assume_last":
            which = "SHRINKS"
        if which is None:
            continue
        te, fe = b.cond_edges(setting_pred(which))
        ok = b.controlled_by(pw.site, te, cleanup=False)
        if not ok and nm in RECLAIM_HELPERS:
            # helper without its own gate: every caller must gate the call by the setting that governs *it*
            cs = []
            for cb in P.fn_bodies():
                for s, t in cb.calls():
                    if t["f"].get("id") == b.id:
                        cs.append((cb, s))
            def caller_ok(cb, s):
                cn = cb.item["name"]
                co = P.outermost_fn(cb.item)["name"]
                w = "SHRINKS" if (cn in SHRINK_BODIES or co in SHRINK_BODIES) else "DEALLOCATES"
                return cb.controlled_by(s, cb.cond_edges(setting_pred(w))[0], cleanup=False)
            ok = bool(cs) and all(caller_ok(cb, s) for cb, s in cs)
        if which == "DEALLOCATES":
            n_d += 1
        else:
            n_s += 1
        ctx.inst(R, b.path, ok,
                 f"{pw.callee_name}({show(pw.value())}) is control dependent on S::{which} == true" if ok else
                 f"{pw.callee_name}({show(pw.value())}) is reachable with S::{which} == false: the opt-out setting is not honoured",
                 where=b.where(pw.site), site=f"{pw.callee_name}#{c01.site_ordinal(D, pw)} {which}")
    # calls to reclaiming helpers from shrink bodies
    for b in P.fn_bodies():
        nm = b.item["name"]
        outer = P.outermost_fn(b.item)["name"]
        if not (nm in SHRINK_BODIES or outer in SHRINK_BODIES):
            continue
        for s, t in b.calls():
            if t["f"].get("name") in RECLAIM_HELPERS and t["f"].get("local"):
                te, fe = b.cond_edges(setting_pred("SHRINKS"))
                ok = b.controlled_by(s, te, cleanup=False)
                n_s += 1
                ctx.inst(R, b.path, ok, f"call of {t['f']['name']} is control dependent on S::SHRINKS == true" if ok else
                         f"call of {t['f']['name']} is reachable with S::SHRINKS == false", where=b.where(s),
                         site=f"call {t['f']['name']} SHRINKS")
    ctx.floor(R, "deallocate-side position writes gated by DEALLOCATES", n_d, 2)
    ctx.floor(R, "shrink-side position writes / reclaim calls gated by SHRINKS", n_s, 5)


def impl_method(P, self_prefix, trait_suffix, name, crate_trait_only=True):
    out = []
    for im in P.facts["impls"]:
        if crate_trait_only and im.get("trait_krate") != "bump_scope":
            continue
        if not crate_trait_only and im.get("trait_krate") == "bump_scope":
            continue
        if im["self_ty"].startswith(self_prefix) and (im.get("trait") or "").endswith(trait_suffix):
            for it in im["items"]:
                if it["name"] == name and it["id"] in P.raw_bodies:
                    out.append(P.body(it["id"]))
    return out


def r2_wrappers(ctx, P, D):
    R = "C13.R2"
    ctx.rule(R, "WithoutDealloc::deallocate is empty; WithoutShrink::shrink never reaches inner shrink/deallocate and "
                "returns the old pointer when aligned; WithoutShrink::shrink_slice is None")
    wd = impl_method(P, "without_dealloc::WithoutDealloc<", "Allocator", "deallocate")
    ctx.need(len(wd) >= 1, R, "impl Allocator for WithoutDealloc: deallocate")
    for b in wd:
        calls = [t["f"].get("path") for _, t in b.calls()]
        ctx.inst(R, b.path, not calls, "deallocate performs no call at all (no-op)" if not calls else
                 f"deallocate calls {calls}: WithoutDealloc must never reclaim", where=b.where(), site="no-op")
    ws = impl_method(P, "without_dealloc::WithoutShrink<", "Allocator", "shrink")
    ctx.need(len(ws) >= 1, R, "impl Allocator for WithoutShrink: shrink")
    for b in ws:
        parents = P.reach_fns([b.id], stop=lambda fid: fid != b.id and P.items.get(fid, {}).get("parent") != b.id
                              and not P.items.get(fid, {}).get("path", "").startswith(b.path))
        bad = []
        for st in parents:
            bb = P.body(st[0])
            if bb is None or not (st[0] == b.id or P.items[st[0]]["path"].startswith(b.path)):
                continue
            for s, t in bb.calls():
                if t["f"].get("name") in ("shrink", "deallocate", "shrink_slice", "dealloc") and \
                        (t["f"].get("trait") or t["f"].get("local")):
                    if t["f"].get("id") in (x[0] for x in parents) and P.items.get(t["f"]["id"], {}).get("path", "").startswith(b.path):
                        continue
                    bad.append(f"{bb.path} -> {t['f']['path']}")
        ctx.inst(R, b.path, not bad, "shrink (incl. its nested helper) never calls an inner shrink/deallocate" if not bad else
                 f"WithoutShrink::shrink reaches {bad}", where=b.where(), site="no inner shrink/deallocate")
        # aligned arm returns the old pointer
        def aligned(e):
            return True if (e[0] == "call" and e[1].split("::")[-1] == "is_aligned_to") else None
        te, fe = b.cond_edges(aligned)
        ok_any = False
        for rb in b.return_blocks():
            rv = b.prov_place({"l": 0, "p": []}, b.term_site(rb))
            for alt in phi_alts(rv):
                if alt[0] == "agg" and alt[2] == "Ok" and expr_mentions(alt, lambda x: x[0] == "call" and x[1].endswith("slice_from_raw_parts")):
                    inner = [x for x in walk_expr(alt) if x[0] == "call" and x[1].endswith("slice_from_raw_parts")][0]
                    if strip_casts(inner[2][0])[0] == "param":
                        ok_any = True
        ctx.inst(R, b.path, ok_any and bool(te), "the aligned arm returns the caller's own pointer (no move, no reclaim)"
                 if ok_any else "no arm returns the caller's own pointer", where=b.where(), site="returns old ptr")
    # foreign Allocator traits (allocator-api2, nightly) implemented for the wrappers: must dispatch to the crate-trait
    # impl of the *same wrapper type* (which is the no-op), never to the wrapped allocator
    for prefix, nm in (("without_dealloc::WithoutDealloc<", "deallocate"), ("without_dealloc::WithoutShrink<", "shrink")):
        for b in impl_method(P, prefix, "Allocator", nm, crate_trait_only=False):
            tg = []
            for s, t in b.calls():
                if t["f"].get("name") == nm:
                    res = t["f"].get("res") or {}
                    tg.append(res.get("path", t["f"]["path"]))
            ok = len(tg) == 1 and tg[0].startswith("<" + prefix) and tg[0].endswith("as alloc::Allocator>::" + nm)
            ctx.inst(R, b.path, ok, f"foreign-trait {nm} dispatches to {tg}" + ("" if ok else " — expected the crate-trait impl "
                     "of the same wrapper (the no-op)"), where=b.where(), site="compat dispatch")
    wss = impl_method(P, "without_dealloc::WithoutShrink<", "BumpAllocatorTyped", "shrink_slice")
    ctx.need(len(wss) >= 1, R, "impl BumpAllocatorTyped for WithoutShrink: shrink_slice")
    for b in wss:
        calls = [t["f"].get("path") for _, t in b.calls()]
        rv = [b.prov_place({"l": 0, "p": []}, b.term_site(rb)) for rb in b.return_blocks()]
        ok = not calls and all(a[0] == "agg" and a[2] == "None" for r in rv for a in phi_alts(r))
        ctx.inst(R, b.path, ok, "shrink_slice returns None without calling anything" if ok else
                 f"shrink_slice calls {calls} / returns {[show(r) for r in rv]}", where=b.where(), site="None")


def r3_reclaim_boundary(ctx, P, D, R="C13.R3"):
    ctx.rule(R, "deallocate_assume_last writes the block's bump-side boundary; in-place upward grow keeps the pointer and "
                "sets pos = up_align(old + new.size, MIN_ALIGN)")
    body = P.find_body("allocator_impl::deallocate_assume_last")
    if not ctx.need(body is not None, R, "allocator_impl::deallocate_assume_last"):
        return
    up_t, up_f = body.cond_edges(setting_pred("UP"))
    ptr_params = [l for l, _ in params_of_type(body, "core::ptr::NonNull<u8>")]
    lay = [l for l, _ in params_of_type(body, "core::alloc::Layout")]
    sites = [pw for pw in D.external_sites() if pw.body.id == body.id]
    ctx.need(len(sites) == 2 and ptr_params and lay, R, "two position writes, ptr and layout parameters in deallocate_assume_last")
    for pw in sites:
        v = strip_casts(pw.value())
        in_up = body.controlled_by(pw.site, up_t, cleanup=False)
        in_down = body.controlled_by(pw.site, up_f, cleanup=False)
        if in_up:
            ok = v[0] == "param" and v[1] in ptr_params
            exp = "ptr (start of the freed block)"
        elif in_down:
            ok = v[0] == "bin" and v[1] in ("Add", "AddUnchecked") and {True} == {True} and \
                ((strip_casts(v[2])[0] == "param" and is_size_of_param(strip_casts(v[3]), lay[0])) or
                 (strip_casts(v[3])[0] == "param" and is_size_of_param(strip_casts(v[2]), lay[0])))
            exp = "ptr + layout.size() (end of the freed block)"
        else:
            ok, exp = False, "a value inside an S::UP arm"
        ok = ok and pw.callee_name == "set_pos_addr_and_align"
        ctx.inst(R, body.path, ok, f"{'up' if in_up else 'down'}: writes {show(v)} via {pw.callee_name}; expected {exp}",
                 where=body.where(pw.site), site=f"{'up' if in_up else 'down'} boundary")
    g = P.find_body("allocator_impl::grow")
    if ctx.need(g is not None, R, "allocator_impl::grow"):
        lps = [l for l, _ in params_of_type(g, "core::alloc::Layout")]
        pps = [l for l, _ in params_of_type(g, "core::ptr::NonNull<u8>")]
        done = 0
        for pw in [p for p in D.external_sites() if p.body.id == g.id]:
            v = strip_casts(pw.value())
            al = aligner_of(v)
            if al and al[0].startswith("up_align"):
                inner = strip_casts(al[1])
                ok = is_min_align(al[2]) and inner[0] == "bin" and inner[1].startswith("Add") and \
                    strip_casts(inner[2])[0] == "param" and strip_casts(inner[2])[1] in pps and \
                    is_size_of_param(strip_casts(inner[3]), lps[1])
                done += 1
                ctx.inst(R, g.path, ok, f"in-place upward grow sets pos = {show(v)}; expected up_align(old_ptr + new_layout.size(), MIN_ALIGN)",
                         where=g.where(pw.site), site="grow-up new pos")
                # the return on the paths after this write keeps the old pointer
                rets = []
                reach = g.reach([t for t, _ in g.succs(pw.site.bb)], cleanup=False)
                # first slice_from_raw_parts after the write
                for s, t in g.calls():
                    if t["f"]["path"].endswith("slice_from_raw_parts") and s.bb in reach and g.dominates(pw.site, s):
                        rets.append((s, t))
                okr = bool(rets) and all(strip_casts(g.prov_operand(t["args"][0], s))[0] == "param" for s, t in rets)
                ctx.inst(R, g.path, okr, "in-place upward grow returns the caller's own pointer (same address)",
                         where=g.where(pw.site), site="grow-up same ptr")
                # the room test: the block grows in place exactly when new.size fits between its start and the chunk's end

                def room(e):
                    if e[0] != "bin" or e[1] not in ("Le", "Ge"):
                        return None
                    lo, hi = (e[2], e[3]) if e[1] == "Le" else (e[3], e[2])
                    lo, hi = strip_casts(lo), strip_casts(hi)
                    isp = lambda x: strip_casts(x)[0] == "param" and strip_casts(x)[1] in pps
                    end = lambda x: expr_mentions(x, lambda y: y[0] == "call" and y[1].split("::")[-1] == "content_end") and \
                        not expr_mentions(x, lambda y: y[0] == "call" and y[1].split("::")[-1] in ("pos", "remaining"))
                    # new.size <= content_end - old_ptr
                    if is_size_of_param(lo, lps[1]) and hi[0] == "bin" and hi[1].startswith("Sub") and end(hi[2]) and isp(hi[3]):
                        return True
                    # old_ptr + new.size <= content_end
                    if lo[0] == "bin" and lo[1].startswith("Add") and end(hi) and \
                            ((isp(lo[2]) and is_size_of_param(strip_casts(lo[3]), lps[1])) or (isp(lo[3]) and is_size_of_param(strip_casts(lo[2]), lps[1]))):
                        return True
                    return None
                rt, rf = g.cond_edges(room)
                okroom = g.controlled_by(pw.site, rt, cleanup=False)
                ctx.inst(R, g.path, okroom, "in-place upward grow is taken exactly when new_layout.size() <= content_end - old_ptr" if okroom else
                         "the in-place upward grow is not gated by `new_layout.size() <= content_end - old_ptr` (room measured from the "
                         "block's own start): measuring from the bump position refuses grows that fit (the block moves although it is "
                         "the newest one) or accepts ones that do not", where=g.where(pw.site), site="grow-up room test")
        ctx.floor(R, "in-place upward grow position writes", done, 1)


BACKWARD_CLASSES = {"boundary", "checkpoint", "restore", "block-affine", "param"}
TABLED_MOVERS = {
    # outermost fn name -> reason
    "deallocate_assume_last": "reclaim of the newest block",
    "shrink": "shrink of the newest block (incl. nested shrink_unfit)",
    "shrink_slice": "shrink of the newest slice",
    "grow": "in-place grow of the newest block (aligner over the block's own end)",
    "reset": "chunk reset (scope replay / Bump::reset)",
    "reset_within_chunk": "checkpoint restore",
    "reset_to": "checkpoint restore: re-alignment of the restored position for the restoring allocator's MIN_ALIGN",
    "generic_alloc_try_with": "Ok-shrink / Err-rewind of alloc_try_with",
    "generic_alloc_try_with_mut": "commit / Err-rewind of alloc_try_with_mut",
    "allocate_prepared": "prepared commit",
    "allocate_prepared_rev": "prepared commit",
    "allocate_prepared_slice": "prepared commit",
    "allocate_prepared_slice_rev": "prepared commit",
}


def r4_backward_movers(ctx, P, D):
    R = "C13.R4"
    ctx.rule(R, "only tabled operations hand the writer family a value that can lie behind the current position")
    n = 0
    for pw in D.external_sites():
        classes = c01.classify_value(D, pw)
        backward = []
        for cls, detail in classes:
            if cls in BACKWARD_CLASSES:
                backward.append(cls)
            elif cls == "aligner":
                # aligner applied to the current position moves forward (in bump direction); anything else may not
                v = [a for a in phi_alts(pw.value())]
                for a in v:
                    al = aligner_of(strip_casts(a) if strip_casts(a)[0] != "call" or not strip_casts(a)[1].endswith("with_addr")
                                    else strip_casts(strip_casts(a)[2][1]))
                    if al:
                        inner = strip_casts(al[1])
                        cur = (inner[0] == "call" and inner[1].split("::")[-1] == "pos") or is_header_field(inner, "pos")
                        if not cur:
                            backward.append("aligner(non-current)")
        if not backward:
            continue
        n += 1
        outer = P.outermost_fn(pw.body.item)["name"]
        ok = outer in TABLED_MOVERS
        ctx.inst(R, pw.body.path, ok,
                 f"{pw.callee_name}({show(pw.value())}) may move the position backwards ({sorted(set(backward))}); "
                 + (f"tabled: {TABLED_MOVERS[outer]}" if ok else
                    "this body is not one of the tabled reclaim/scope/reset/commit operations: the allocated byte count "
                    "can decrease outside the documented ways"),
                 where=pw.body.where(pw.site), site=f"{pw.callee_name}#{c01.site_ordinal(D, pw)} mover")
    ctx.floor(R, "backward-capable position writes", n, 15)


WRAPPER_ADTS = ("without_dealloc::WithoutDealloc<", "without_dealloc::WithoutShrink<")
REALLOC_METHODS = {"allocate", "deallocate", "grow", "grow_zeroed", "shrink"}


def r6_wrapper_surface(ctx, P, R="C13.R6"):
    ctx.rule(R, "the opt-out wrappers keep the inner allocator's behaviour everywhere except at the promised no-ops: every impl of "
                "an Allocator trait for WithoutDealloc / WithoutShrink (and for references) overrides allocate, deallocate, grow, "
                "grow_zeroed and shrink (the trait's provided grow/shrink would move every block: allocate + copy + deallocate); and "
                "no method of a WithoutDealloc impl reaches the inner deallocate/dealloc, none of a WithoutShrink impl the inner "
                "shrink/shrink_slice")
    n = 0
    for im in P.facts["impls"]:
        tr = im.get("trait") or ""
        if not (tr == "alloc::Allocator" or tr.endswith("::Allocator")):
            continue
        st = im["self_ty"]
        if not (st.startswith(WRAPPER_ADTS) or st in ("&A", "&mut A")):
            continue
        n += 1
        have = {i["name"] for i in im["items"]}
        missing = sorted(REALLOC_METHODS - have)
        ctx.inst(R, f"impl {tr} for {st}", not missing, "overrides allocate, deallocate, grow, grow_zeroed, shrink" if not missing else
                 f"does not override {missing}: the trait's provided implementation (allocate + copy + deallocate) is used, so the newest "
                 "block is moved instead of grown / shrunk in place (and through WithoutDealloc nothing is ever reclaimed)",
                 where=f"{im.get('file')}:{im.get('line')}", site="overrides the reallocating methods")
    ctx.floor(R, "Allocator impls of wrappers and references", n, 4)
    m = 0
    for im in P.facts["impls"]:
        st = im["self_ty"]
        if not st.startswith(WRAPPER_ADTS):
            continue
        banned = ("deallocate", "dealloc") if "WithoutDealloc" in st else ("shrink", "shrink_slice")
        for it in im["items"]:
            if it["id"] not in P.raw_bodies:
                continue
            b = P.body(it["id"])
            hits = []
            for s_, t in b.calls():
                f = t["f"]
                if f.get("name") in banned and t["args"]:
                    recv = b.prov_operand(t["args"][0], s_)
                    if expr_mentions(recv, lambda x: x[0] == "field" and str(x[2]) == "0" and mentions_param(x, 1)):
                        hits.append((s_, f["name"]))
            m += 1
            # the wrapper's own no-op methods may of course be *named* dealloc/shrink; what counts is a call on the inner value
            ctx.inst(R, b.path, not hits, "does not call the inner allocator's " + "/".join(banned) if not hits else
                     f"forwards to the inner allocator's `{hits[0][1]}`: the opt-out wrapper reclaims memory after all "
                     "(allocated bytes decrease although the wrapper promises they never do)", where=b.where(hits[0][0]) if hits else b.where(),
                     site="no inner " + banned[0], nontrivial=bool(hits))
    ctx.floor(R, "methods of wrapper impls examined", m, 60)


def run(ctx, progs):
    ctx.assume("rustc nightly's type checker, MIR construction and trait resolution are correct")
    ctx.assume("S::DEALLOCATES / S::SHRINKS appear in MIR as unevaluated associated consts of BumpAllocatorSettings (polymorphic MIR)")
    for lab, P in progs:
        ctx.config = lab
        D = PosDiscipline(P)
        r1_settings_gates(ctx, P, D)
        r2_wrappers(ctx, P, D)
        r3_reclaim_boundary(ctx, P, D)
        r4_backward_movers(ctx, P, D)
        from . import c01
        c01.r3b_is_last_exact(ctx, P, R="C13.R5")
        r6_wrapper_surface(ctx, P)
    ctx.config = None
