"""The bump-position discipline: who writes `ChunkHeader.pos`, through which wrappers, and with what value.

Anchored on the field `pos` of the ADT `chunk::header::ChunkHeader` (not on function names): primary writers are
bodies that call `Cell::set/replace` on that field; the wrapper family is closed under "method of the same impl
type that passes one of its own parameters on as the written value"."""
from ..ir import show, phi_alts, walk_expr, expr_mentions, Site
from .common import *

HEADER_ADT = "chunk::header::ChunkHeader"
CELL_WRITES = {"core::cell::Cell::<T>::set": 1, "core::cell::Cell::<T>::replace": 1}

ALIGNERS = {
    # path suffix -> (value_arg, align_arg, direction)
    "up_align_usize_unchecked": (0, 1, "up"),
    "down_align_usize": (0, 1, "down"),
    "align_pos": (2, 1, "dir"),
    "bump_down": (0, 2, "down"),       # crate::bump_down(addr, size, align)
    "up_align_usize": (0, 1, "up"),
    "up_align": (0, 1, "up"),
    "down_align": (0, 1, "down"),
}


def is_header_field(e, name):
    return e[0] == "field" and e[2] == name and len(e) > 3 and e[3] == HEADER_ADT


def mentions_header_field(e, name):
    return expr_mentions(e, lambda x: is_header_field(x, name))


class PosWrite:
    """One site at which a position value is handed to the writer family (or the primary write itself)."""
    def __init__(self, body, site, term, callee_name, value_op, align_op=None, implicit_align=None):
        self.body, self.site, self.term, self.callee_name = body, site, term, callee_name
        self.value_op, self.align_op, self.implicit_align = value_op, align_op, implicit_align

    def value(self):
        return self.body.prov_operand(self.value_op, self.site)


class PosDiscipline:
    def __init__(self, P):
        self.P = P
        self.primary = {}      # fid -> [(site, term, value_op)]
        self.family = {}       # fid -> {"value_param": local, "kind": ...}
        self.sites = []        # PosWrite at callers outside the family + inside wrappers
        self.header_aggs = []  # (body, site, stmt) constructing ChunkHeader
        self._discover()

    def _discover(self):
        P = self.P
        for body in P.fn_bodies():
            for site, t in body.calls():
                p = t["f"].get("path")
                if p in CELL_WRITES and t["args"]:
                    recv = body.prov_operand(t["args"][0], site)
                    if mentions_header_field(recv, "pos") and not mentions_header_field(recv, "prev") \
                            and not mentions_header_field(recv, "next"):
                        self.primary.setdefault(body.id, []).append((site, t, t["args"][CELL_WRITES[p]]))
        for body in P.bodies():
            for site, st in body.assigns():
                r = st["r"]
                if r["k"] == "agg" and r.get("adt") == HEADER_ADT:
                    self.header_aggs.append((body, site, st))
        # wrapper family fixpoint
        fam = {}
        for fid, ws in self.primary.items():
            body = P.body(fid)
            for site, t, vop in ws:
                v = body.prov_operand(vop, site)
                ps = [x[1] for x in walk_expr(v) if x[0] == "param" and x[1] != 1]
                fam[fid] = {"value_params": sorted(set(ps)), "depth": 0}
        changed = True
        while changed:
            changed = False
            for body in P.fn_bodies():
                if body.id in fam:
                    continue
                for site, t in body.calls():
                    tid = t["f"].get("id")
                    if tid in fam and t["f"].get("local"):
                        vps = fam[tid]["value_params"]
                        if not vps:
                            continue
                        # same impl type (wrapper methods of the chunk type)
                        if P.impl_of_item.get(tid) is None or P.impl_of_item.get(tid) is not P.impl_of_item.get(body.id):
                            continue
                        ok = False
                        ps = set()
                        for vp in vps:
                            if vp - 1 < len(t["args"]):
                                v = body.prov_operand(t["args"][vp - 1], site)
                                ps |= {x[1] for x in walk_expr(v) if x[0] == "param" and x[1] != 1}
                        if ps:
                            fam[body.id] = {"value_params": sorted(ps), "depth": fam[tid]["depth"] + 1}
                            changed = True
                            break
        self.family = fam
        # sites: every call into the family from anywhere (including wrappers calling inner writers), plus
        # primary writes in bodies whose value does not come from a parameter
        for body in P.fn_bodies():
            for site, t in body.calls():
                tid = t["f"].get("id")
                if tid in fam and t["f"].get("local"):
                    vps = fam[tid]["value_params"]
                    if not vps:
                        continue
                    vop = t["args"][vps[0] - 1]
                    aop = t["args"][vps[1] - 1] if len(vps) > 1 and vps[1] - 1 < len(t["args"]) else None
                    self.sites.append(PosWrite(body, site, t, t["f"]["name"], vop, aop))
        for fid, ws in self.primary.items():
            if not fam.get(fid, {}).get("value_params"):
                body = P.body(fid)
                for site, t, vop in ws:
                    self.sites.append(PosWrite(body, site, t, "<Cell::set pos>", vop))

    def family_paths(self):
        return sorted(self.P.items[f]["path"] for f in self.family)

    def external_sites(self):
        """Sites in bodies that are not themselves wrappers of the family."""
        return [s for s in self.sites if s.body.id not in self.family or not self.family[s.body.id]["value_params"]]

    def callers(self):
        return sorted({s.body.path for s in self.external_sites()})


def aligner_of(e):
    """If e is an aligner application: (name, value_expr, align_expr, dir) else None."""
    e = strip_casts(e)
    if e[0] == "call":
        nm = e[1].split("::")[-1]
        a = ALIGNERS.get(nm)
        if a and len(e[2]) > max(a[0], a[1]):
            return nm, e[2][a[0]], e[2][a[1]], a[2]
    return None


def is_min_align(e):
    e = strip_casts(e)
    return e[0] == "assoc_const" and e[2] == "MIN_ALIGN" and e[1] == "settings::BumpAllocatorSettings"


def align_at_least_min(e):
    """alignment expression ⊒ S::MIN_ALIGN by form: MIN_ALIGN itself or max(x, MIN_ALIGN)."""
    e = strip_casts(e)
    if is_min_align(e):
        return True
    if e[0] == "call" and e[1].split("::")[-1] == "max":
        return any(align_at_least_min(a) for a in e[2])
    if e[0] == "phi":
        return all(align_at_least_min(a) for a in e[1])
    return False
