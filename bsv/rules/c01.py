"""C01 — live allocations are valid, aligned and pairwise disjoint.

Decided: the structural discipline of the bump position (R1 who writes it and with what provenance, R2 hand-out <=>
bump, R3 in-place paths gated by the is-last test, R4 slow path ordering, R5 prepared commit forms, R6/R7 every
success path of the bump primitives aligns and passed a fit test). Not decided: the integer arithmetic (C11)."""
from ..ir import show, phi_alts, walk_expr, expr_mentions, Site, RET, UNW
from .common import *
from .poswrite import *

EXPLANATION = (
    "Static rules over polymorphic MIR (every settings type S and base allocator A). C01.R1: the bump position "
    "(field `pos` of ChunkHeader) is written only through the tabled writer family, and every value handed to it "
    "is a bump result, an aligner application, a content boundary, a restore of a value read from `pos`, or a "
    "checkpoint field. C01.R2: in the allocation primitive every success path writes the position with a value "
    "from the same bump computation that yields the returned pointer; the prepare primitives never write it. "
    "C01.R3: every position write in deallocate/grow/shrink/shrink_unfit/shrink_slice is control dependent on the "
    "is-last test (upward grow also on align_fits), which compares the block end/start with the *current* position. "
    "C01.R4: slow path: each later chunk is reset and made current before it is offered; a new chunk is appended "
    "only after the walk is exhausted; the same layout sizes the new chunk and is then allocated in it. "
    "C01.R5: prepared commits return a block inside the prepared range and set the position to its bump-side end. "
    "C01.R6/R7: in bump_up/bump_down/bump_prepare_up/down every Some(..) path carries an aligner for the layout "
    "alignment (or is excused by the documented elision predicate) and is control dependent on a fit comparison. "
    "Not decided: that the computed integers are right (C11), and that callers respect `unsafe` contracts.")

IN_PLACE_ROOT_NAMES = {"deallocate", "grow", "grow_zeroed", "shrink", "shrink_slice"}


def classify_value(D, pw):
    """Provenance class of a value handed to the writer family; returns (class, detail) per phi alternative."""
    out = []
    body = pw.body
    v = pw.value()
    for alt in phi_alts(v):
        a = strip_casts(alt)
        # with_addr(base, addr): the address is what matters
        if a[0] == "call" and a[1].split("::")[-1] == "with_addr" and len(a[2]) == 2:
            inner = strip_casts(a[2][1])
            if inner[0] == "field" and inner[2] == "address":
                out.append(("checkpoint", show(alt)))
                continue
            a = inner
        al = aligner_of(a)
        if expr_mentions(a, lambda x: x[0] == "call" and x[1] in ("bumping::bump_up", "bumping::bump_down")):
            out.append(("bump-result", show(alt)))
        elif al:
            out.append(("aligner", (al[0], al[2], show(alt))))
        elif a[0] == "call" and a[1].split("::")[-1] in ("content_start", "content_end"):
            out.append(("boundary", show(alt)))
        elif (a[0] == "call" and a[1].split("::")[-1] == "pos" and "RawChunk" in a[1]) or is_header_field(a, "pos"):
            out.append(("restore", show(alt)))
        elif a[0] == "field" and a[2] == "address":
            out.append(("checkpoint", show(alt)))
        elif a[0] == "param":
            out.append(("param", show(alt)))
        elif is_block_affine(a):
            out.append(("block-affine", show(alt)))
        else:
            out.append(("raw", show(alt)))
    return out


def is_block_affine(e):
    """Built only from parameters (and their fields), Layout::size/len of parameters and +/-: an end point of the
    caller's own block or prepared range."""
    e = strip_casts(e)
    k = e[0]
    if k in ("param", "int"):
        return True
    if k == "assoc_const" and e[2] in ("SIZE",):
        return True
    if k in ("field", "deref", "ref"):
        return is_block_affine(e[1])
    if k == "bin" and e[1] in ("Add", "Sub", "Mul", "AddUnchecked", "SubUnchecked", "MulUnchecked"):
        return is_block_affine(e[2]) and is_block_affine(e[3])
    if k == "call" and e[1].split("::")[-1] in ("add", "sub", "size", "byte_add", "byte_sub", "len"):
        return all(is_block_affine(a) for a in e[2])
    return False


ALIGNING_WRAPPERS = {"set_pos_addr_and_align", "set_pos_addr_and_align_from"}


def r1_single_writer(ctx, P, D):
    R = "C01.R1"
    ctx.rule(R, "ChunkHeader.pos is written only by the writer family; each written value has a tabled provenance class")
    prim = sorted(P.items[f]["path"] for f in D.primary)
    ctx.need(len(D.primary) >= 2, R, "primary writers of ChunkHeader.pos (Cell::set on field pos)")
    # the primary writers must live in the impl of the chunk type or of Checkpoint
    for fid in D.primary:
        it = P.items[fid]
        impl = P.impl_of_item.get(fid)
        self_ty = impl["self_ty"] if impl else "?"
        ok = impl is not None and (self_ty.startswith("raw_bump::NonDummyChunk<") or self_ty == "bump_scope_guard::Checkpoint")
        ctx.inst(R, it["path"], ok, f"primary writer of ChunkHeader.pos lives in impl of {self_ty}"
                 + ("" if ok else " — a new direct writer of the bump position outside the chunk/checkpoint types"),
                 where=P.body(fid).where(), site="primary writer")
    # header constructions: only NonDummyChunk::new and the dummy statics
    for body, site, st in D.header_aggs:
        it = body.item
        ok = it["kind"].startswith("Static") or (it["name"] == "new" and "NonDummyChunk" in it["path"])
        ctx.inst(R, body.path, ok, "constructs a ChunkHeader" + ("" if ok else " outside NonDummyChunk::new / the dummy statics"),
                 where=body.where(site), site="ChunkHeader aggregate")
    n = 0
    for pw in D.sites:
        in_family = pw.body.id in D.family and D.family[pw.body.id]["value_params"]
        classes = classify_value(D, pw)
        for k, (cls, detail) in enumerate(classes):
            n += 1
            if in_family:
                ok = cls in ("param", "aligner")
            else:
                ok = cls in ("bump-result", "aligner", "boundary", "restore", "checkpoint") or \
                    (cls in ("block-affine", "param") and pw.callee_name in ALIGNING_WRAPPERS)
            d = detail if isinstance(detail, str) else detail[2]
            ctx.inst(R, pw.body.path, ok,
                     f"{pw.callee_name}({d}) — provenance class `{cls}`" +
                     ("" if ok else " is not one of bump-result / aligner / boundary / restore / checkpoint / "
                      "block end through an aligning wrapper: the position is moved by a value that no rule accounts for"),
                     where=pw.body.where(pw.site), site=f"{pw.callee_name}#{site_ordinal(D, pw)} alt{k}")
    ctx.floor(R, "position-write value alternatives classified", n, 28)
    ctx.floor(R, "bodies handing values to the writer family", len(D.callers()), 13)


def site_ordinal(D, pw):
    same = [s for s in D.sites if s.body.id == pw.body.id and s.callee_name == pw.callee_name]
    same.sort(key=lambda s: (s.site.bb, s.site.idx))
    return same.index(pw)


def bump_call_pred(names):
    def pred(e):
        # Try::branch(bump_up(..)) or bump_up(..)
        return expr_mentions(e, lambda x: x[0] == "call" and x[1] in names)
    return pred


def r2_handout(ctx, P, D):
    R = "C01.R2"
    ctx.rule(R, "allocation primitive: every success path writes the position from the same bump result it returns; "
                "prepare primitives contain no position write")
    prims = []
    for body in P.fn_bodies():
        calls = {t["f"].get("path") for _, t in body.calls()}
        if calls & {"bumping::bump_up", "bumping::bump_down", "bumping::bump_prepare_up", "bumping::bump_prepare_down"}:
            prims.append(body)
    alloc = [b for b in prims if any(pw.body.id == b.id for pw in D.sites)]
    prep = [b for b in prims if b not in alloc]
    ctx.need(len(alloc) >= 1, R, "allocation primitive (calls bump_up/bump_down and writes the position)")
    ctx.need(len(prep) >= 2, R, "prepare primitives (call bump_*/bump_prepare_*, no position write)")
    for body in alloc:
        for bname in ("bumping::bump_up", "bumping::bump_down"):
            bsites = body.calls_to(lambda f: f["path"] == bname)
            for bs, bt in bsites:
                ve = body.variant_edges(lambda e, bb=bs.bb: expr_mentions(
                    e, lambda x: x[0] == "call" and x[1] == bname and x[4] == (bb,)))
                cont = ve.get("Continue") or ve.get("Some") or []
                if not ctx.need(bool(cont), R, f"{body.path}: success edge of {bname}"):
                    continue
                wblocks = [pw.site.bb for pw in D.sites if pw.body.id == body.id and expr_mentions(
                    pw.value(), lambda x: x[0] == "call" and x[1] == bname and x[4] == (bs.bb,))]
                ok = True
                for (bb, tgt, lab) in cont:
                    good, wit = body.must_pass(None, wblocks, exits=(RET,), cleanup=False, from_edge=tgt)
                    ok = ok and good
                ctx.inst(R, body.path, ok,
                         f"every path from the success of {bname.split('::')[-1]} to a return passes a position write "
                         f"fed by that same result" if ok else
                         f"a success path of {bname.split('::')[-1]} returns without moving the position past the block "
                         f"(the next allocation would overlap it)",
                         where=body.where(bs), site=f"{bname.split('::')[-1]} -> write")
                # returned pointer stems from the same bump call
                for rb in body.return_blocks():
                    rv = body.prov_place({"l": 0, "p": []}, body.term_site(rb))
                    somes = [a for a in phi_alts(rv) if a[0] == "agg" and a[2] == "Some"]
                    mine = [a for a in somes if expr_mentions(a, lambda x: x[0] == "call" and x[1] in (
                        "bumping::bump_up", "bumping::bump_down"))]
                    ctx.inst(R, body.path, len(mine) == len(somes) and somes,
                             f"returned Some(..) values derive from a bump result: {[show(a) for a in somes][:2]}",
                             where=body.where(body.term_site(rb)), site=f"return value bb-class {len(somes)}")
    for body in prep:
        fam_calls = [t for _, t in body.calls() if t["f"].get("id") in D.family]
        ctx.inst(R, body.path, not fam_calls, "prepare primitive performs no position write" if not fam_calls else
                 f"prepare primitive writes the position via {[t['f']['name'] for t in fam_calls]}",
                 where=body.where(), site="no position write")


def is_last_pred(body):
    """Recognise the is-last condition: a call to a fn named is_last, or an equality between something derived from
    a pointer parameter and the current position."""
    def one(e):
        if e[0] == "call" and e[1].split("::")[-1] == "is_last":
            return True
        if (e[0] == "call" and e[1] == "core::cmp::PartialEq::eq") or (e[0] == "bin" and e[1] == "Eq"):
            a, b = (e[2][0], e[2][1]) if e[0] == "call" else (e[2], e[3])

            def has_pos(x):
                return expr_mentions(x, lambda y: (y[0] == "call" and y[1].split("::")[-1] == "pos" and "Chunk" in y[1])
                                     or is_header_field(y, "pos"))

            def has_ptr_param(x):
                return expr_mentions(x, lambda y: y[0] == "param" and "NonNull<" in body.locals[y[1]]["ty"])
            return (has_pos(a) and has_ptr_param(b)) or (has_pos(b) and has_ptr_param(a))
        return False

    def pred(e):
        alts = phi_alts(e)
        if all(one(a) for a in alts):
            return True
        return None
    return pred


def gated_by(body, site, pred):
    te, fe = body.cond_edges(pred)
    return body.controlled_by(site, te, cleanup=False), te


def r3_in_place_gated(ctx, P, D):
    R = "C01.R3"
    ctx.rule(R, "position writes of deallocate/grow/shrink/shrink_unfit/shrink_slice are control dependent on the "
                "is-last test; upward in-place grow also on align_fits")
    # bodies of the in-place family: reachable from Allocator::{deallocate,grow,grow_zeroed,shrink} / shrink_slice
    # implementations on the bump types, restricted to bodies that contain an external position-write site
    roots = []
    for it in P.facts["items"]:
        if it["kind"] in ("AssocFn", "Fn") and it["name"] in IN_PLACE_ROOT_NAMES and it["id"] in P.raw_bodies:
            roots.append(it["id"])
    parents = P.reach_fns(roots)
    reach = {st[0] for st in parents}
    fam_stop = set(D.family)
    n = 0
    n_grow_align = 0
    # callers index
    callers = {}
    for fid in reach:
        b = P.body(fid)
        if b is None:
            continue
        for s, t in b.calls():
            tid = t["f"].get("id")
            if tid:
                callers.setdefault(tid, []).append((b, s))
    for pw in D.external_sites():
        b = pw.body
        if b.id not in reach:
            continue
        # slow-path / allocation primitives are not in-place operations
        if b.item["name"] in ("alloc", "reset", "align_to") or "in_another_chunk" in b.path:
            continue
        classes = {c for c, _ in classify_value(D, pw)}
        if classes == {"restore"}:
            ctx.inst(R, b.path, True, f"{pw.callee_name}: restore of a position read earlier (undo), not a move",
                     where=b.where(pw.site), site=f"{pw.callee_name}#{site_ordinal(D, pw)} gate")
            continue
        n += 1
        ok, te = gated_by(b, pw.site, is_last_pred(b))
        how = "is-last test in this body"
        if not ok:
            # assume-last helper: every caller must gate the call
            cs = callers.get(b.id, [])
            if cs:
                ok = all(gated_by(cb, s, is_last_pred(cb))[0] for cb, s in cs)
                how = f"every call site ({len(cs)}) of this assume-last helper is gated by the is-last test"
        ctx.inst(R, b.path, ok,
                 f"{pw.callee_name}({show(pw.value())}) is control dependent on the {how}" if ok else
                 f"{pw.callee_name}({show(pw.value())}) can execute without the is-last test having succeeded: a block "
                 f"that is not the newest would be reclaimed/extended over its neighbours",
                 where=b.where(pw.site), site=f"{pw.callee_name}#{site_ordinal(D, pw)} gate")
        # upward in-place grow: additionally align_fits
        if b.item["name"] == "grow" and "up_align" in show(pw.value()):
            def af(e):
                return True if (e[0] == "call" and e[1].split("::")[-1] in ("align_fits", "is_aligned_to")) else None
            te2, _ = b.cond_edges(af)
            ok2 = b.controlled_by(pw.site, te2, cleanup=False)
            n_grow_align += 1
            ctx.inst(R, b.path, ok2, "upward in-place grow is control dependent on align_fits" if ok2 else
                     "upward in-place grow does not depend on align_fits: a block grown in place may violate the new "
                     "layout's alignment", where=b.where(pw.site), site="grow align_fits")
    ctx.floor(R, "in-place position writes checked for the is-last gate", n, 8)
    ctx.floor(R, "upward in-place grow sites checked for align_fits", n_grow_align, 1)


def r4_slow_path(ctx, P, D):
    R = "C01.R4"
    ctx.rule(R, "slow path: later chunks are reset and made current before being offered; append only after the walk "
                "is exhausted; the layout that sizes the new chunk is the one allocated in it")
    body = None
    for b in P.fn_bodies():
        if b.item["name"] == "in_another_chunk" and b.item["kind"] == "AssocFn" and "RawBump" in b.path:
            body = b
    if not ctx.need(body is not None, R, "RawBump::in_another_chunk"):
        return
    fcalls = [(s, t) for s, t in body.calls() if t["f"].get("path") in (
        "core::ops::FnMut::call_mut", "core::ops::FnOnce::call_once", "core::ops::Fn::call")]
    ctx.need(len(fcalls) == 2, R, f"two invocations of the allocation callback in in_another_chunk (found {len(fcalls)})")
    resets = body.calls_to(lambda f: f.get("name") == "reset" and "NonDummyChunk" in f["path"])
    nexts = body.calls_to(lambda f: f.get("name") == "next" and "NonDummyChunk" in f["path"])
    sets = [(s, t) for s, t in body.calls() if t["f"].get("path") == "core::cell::Cell::<T>::set"
            and expr_mentions(body.prov_operand(t["args"][0], s), lambda x: x[0] == "field" and x[2] == "chunk")]
    appends = body.calls_to(lambda f: f.get("name") == "append_for")
    news = body.calls_to(lambda f: f.get("name") == "new" and "NonDummyChunk" in f["path"])
    ctx.need(len(nexts) >= 1 and len(appends) == 1 and len(news) >= 1, R, "next()/append_for/NonDummyChunk::new calls in the slow path")
    # classify the two callback sites: the one reachable from a `next()` success without passing append_for is the walk
    for k, (fs, ft) in enumerate(sorted(fcalls, key=lambda x: x[0].bb)):
        in_walk = any(body.dominates(ns, fs) for ns, _ in nexts) and not any(body.dominates(a, fs) for a, _ in appends) \
            and any(body.can_reach(fs, ns) for ns, _ in nexts)
        if in_walk:
            r_ok = any(body.dominates(rs, fs) and any(body.dominates(ns, rs) for ns, _ in nexts) for rs, _ in resets)
            ctx.inst(R, body.path, r_ok, "existing next chunk is reset() (stale position from an earlier scope) before it "
                     "is offered to the allocation callback" if r_ok else
                     "a later chunk is offered without being reset: its stale position lets new blocks overlap memory "
                     "that was handed out before a scope exit... or wastes it", where=body.where(fs), site="walk: reset before offer")
            s_ok = any(body.dominates(ss, fs) and any(body.dominates(ns, ss) for ns, _ in nexts) for ss, _ in sets)
            ctx.inst(R, body.path, s_ok, "the chunk is made current (self.chunk.set) before the callback allocates in it"
                     if s_ok else "the callback allocates in a chunk that is not the current one",
                     where=body.where(fs), site="walk: current before offer")
        else:
            s_ok = any(body.dominates(ss, fs) and not any(body.can_reach(ss, ns) for ns, _ in nexts) for ss, _ in sets)
            ctx.inst(R, body.path, s_ok, "the new chunk is made current before the callback allocates in it" if s_ok else
                     "the callback allocates in the new chunk before it is made current",
                     where=body.where(fs), site="new: current before offer")
            # value set is the result of new/append_for (success)
    # append only when next() returned None
    for a_s, a_t in appends:
        ve = body.variant_edges(lambda e: e[0] == "call" and e[1].split("::")[-1] == "next" and "NonDummyChunk" in e[1])
        none_edges = ve.get("None", [])
        ok = body.controlled_by(a_s, none_edges, cleanup=False)
        ctx.inst(R, body.path, ok, "append_for is reached only after next() returned None (existing chunks are tried "
                 "first)" if ok else "a new chunk can be appended while a later chunk exists (the list would fork / "
                 "memory is requested although chunks are available)", where=body.where(a_s), site="append after exhaustion")
        # same layout
        le = body.prov_operand(a_t["args"][1], a_s)
        okl = mentions_param(le, 2)
        ctx.inst(R, body.path, okl, f"append_for is sized by the requested layout ({show(le)})" if okl else
                 f"append_for is sized by {show(le)}, not by the layout that is then allocated", where=body.where(a_s),
                 site="append layout")
    for fs, ft in fcalls:
        ae = body.prov_operand(ft["args"][1], fs)
        okl = mentions_param(ae, 2)
        ctx.inst(R, body.path, okl, f"callback receives the requested layout ({show(ae)})", where=body.where(fs),
                 site=f"callback layout bb-order {sorted(x[0].bb for x in fcalls).index(fs.bb)}")
    # from_capacity in the unallocated arm
    fcs = body.calls_to(lambda f: f.get("name") == "from_capacity")
    for s, t in fcs:
        le = body.prov_operand(t["args"][0], s)
        ctx.inst(R, body.path, mentions_param(le, 2), f"first chunk is sized by the requested layout ({show(le)})",
                 where=body.where(s), site="from_capacity layout")
    # unreachable_unchecked: at most one, dominated by the second callback
    uu = body.calls_to(lambda f: f["path"] == "core::hint::unreachable_unchecked")
    for s, t in uu:
        ok = any(body.dominates(fs, s) and any(body.dominates(a, fs) for a, _ in news + appends) is False or
                 body.dominates(fs, s) for fs, _ in fcalls)
        ve = body.variant_edges(lambda e: e[0] == "call" and e[1] in ("core::ops::FnMut::call_mut",))
        ok = ok and len(uu) == 1
        ctx.inst(R, body.path, ok, "the only unreachable_unchecked is dominated by the allocation attempt in the freshly "
                 "created chunk", where=body.where(s), site="unreachable_unchecked")


def run(ctx, progs):
    ctx.assume("rustc nightly's type checker, MIR construction and trait resolution are correct")
    ctx.assume("the fact exporter and PROV reconstruction faithfully render MIR; transparent-call table (NonNull::addr, "
               "NonZero::get, cast, likely/unlikely, ...) lists identity wrappers only")
    ctx.assume("only the library target is analysed")
    for lab, P in progs:
        ctx.config = lab
        D = PosDiscipline(P)
        r1_single_writer(ctx, P, D)
        r2_handout(ctx, P, D)
        r3_in_place_gated(ctx, P, D)
        r4_slow_path(ctx, P, D)
        from . import c15
        c15.r4_commit_forms(ctx, P, D, R="C01.R5")
    ctx.config = None
