"""C01 — live allocations are valid, aligned and pairwise disjoint.

Decided: the structural discipline of the bump position (R1 who writes it and with what provenance, R2 hand-out <=>
bump, R3 in-place paths gated by the is-last test, R4 slow path ordering, R5 prepared commit forms, R6/R7 every
success path of the bump primitives aligns and passed a fit test). Not decided: the integer arithmetic (C11)."""
from ..ir import show, phi_alts, walk_expr, expr_mentions, Site, RET, UNW
from .common import *
from .poswrite import *

EXPLANATION = (
    "Static rules over polymorphic MIR (every settings type S and base allocator A). C01.R1: the bump position "
    "(field `pos` of ChunkHeader) is written only through the tabled writer family, and every value handed to it "
    "is a bump result, an aligner application, a content boundary, a restore of a value read from `pos`, or a "
    "checkpoint field. C01.R2: in the allocation primitive every success path writes the position with a value "
    "from the same bump computation that yields the returned pointer; the prepare primitives never write it. "
    "C01.R3: every position write in deallocate/grow/shrink/shrink_unfit/shrink_slice is control dependent on the "
    "is-last test (upward grow also on align_fits), which compares the block end/start with the *current* position. "
    "C01.R4: slow path: each later chunk is reset and made current before it is offered; a new chunk is appended "
    "only after the walk is exhausted; the same layout sizes the new chunk and is then allocated in it. "
    "C01.R5: prepared commits return a block inside the prepared range and set the position to its bump-side end. "
    "C01.R6/R7: in bump_up/bump_down/bump_prepare_up/down every Some(..) path carries an aligner for the layout "
    "alignment (or is excused by the documented elision predicate) and is control dependent on a fit comparison. "
    "Not decided: that the computed integers are right (C11), and that callers respect `unsafe` contracts.")

IN_PLACE_ROOT_NAMES = {"deallocate", "grow", "grow_zeroed", "shrink", "shrink_slice"}


def classify_value(D, pw):
    """Provenance class of a value handed to the writer family; returns (class, detail) per phi alternative."""
    out = []
    body = pw.body
    v = pw.value()
    for alt in phi_alts(v):
        a = strip_casts(alt)
        # with_addr(base, addr): the address is what matters
        if a[0] == "call" and a[1].split("::")[-1] == "with_addr" and len(a[2]) == 2:
            inner = strip_casts(a[2][1])
            if inner[0] == "field" and inner[2] == "address":
                out.append(("checkpoint", show(alt)))
                continue
            a = inner
        al = aligner_of(a)
        if expr_mentions(a, lambda x: x[0] == "call" and x[1] in ("bumping::bump_up", "bumping::bump_down")):
            out.append(("bump-result", show(alt)))
        elif al:
            out.append(("aligner", (al[0], al[2], show(alt))))
        elif a[0] == "call" and a[1].split("::")[-1] in ("content_start", "content_end"):
            out.append(("boundary", show(alt)))
        elif (a[0] == "call" and a[1].split("::")[-1] == "pos" and "RawChunk" in a[1]) or is_header_field(a, "pos"):
            out.append(("restore", show(alt)))
        elif a[0] == "field" and a[2] == "address":
            out.append(("checkpoint", show(alt)))
        elif a[0] == "param":
            out.append(("param", show(alt)))
        elif is_block_affine(a):
            out.append(("block-affine", show(alt)))
        else:
            out.append(("raw", show(alt)))
    return out


def is_block_affine(e):
    """Built only from parameters (and their fields), Layout::size/len of parameters and +/-: an end point of the
    caller's own block or prepared range."""
    e = strip_casts(e)
    k = e[0]
    if k in ("param", "int"):
        return True
    if k == "assoc_const" and e[2] in ("SIZE",):
        return True
    if k in ("field", "deref", "ref"):
        return is_block_affine(e[1])
    if k == "bin" and e[1] in ("Add", "Sub", "Mul", "AddUnchecked", "SubUnchecked", "MulUnchecked"):
        return is_block_affine(e[2]) and is_block_affine(e[3])
    if k == "call" and e[1].split("::")[-1] in ("add", "sub", "size", "byte_add", "byte_sub", "len"):
        return all(is_block_affine(a) for a in e[2])
    return False


ALIGNING_WRAPPERS = {"set_pos_addr_and_align", "set_pos_addr_and_align_from"}


def r1_single_writer(ctx, P, D):
    R = "C01.R1"
    ctx.rule(R, "ChunkHeader.pos is written only by the writer family; each written value has a tabled provenance class")
    prim = sorted(P.items[f]["path"] for f in D.primary)
    ctx.need(len(D.primary) >= 2, R, "primary writers of ChunkHeader.pos (Cell::set on field pos)")
    # the primary writers must live in the impl of the chunk type or of Checkpoint
    for fid in D.primary:
        it = P.items[fid]
        impl = P.impl_of_item.get(fid)
        self_ty = impl["self_ty"] if impl else "?"
        ok = impl is not None and (self_ty.startswith("raw_bump::NonDummyChunk<") or self_ty == "bump_scope_guard::Checkpoint")
        ctx.inst(R, it["path"], ok, f"primary writer of ChunkHeader.pos lives in impl of {self_ty}"
                 + ("" if ok else " — a new direct writer of the bump position outside the chunk/checkpoint types"),
                 where=P.body(fid).where(), site="primary writer")
    # header constructions: only NonDummyChunk::new and the dummy statics
    for body, site, st in D.header_aggs:
        it = body.item
        ok = it["kind"].startswith("Static") or (it["name"] == "new" and "NonDummyChunk" in it["path"])
        ctx.inst(R, body.path, ok, "constructs a ChunkHeader" + ("" if ok else " outside NonDummyChunk::new / the dummy statics"),
                 where=body.where(site), site="ChunkHeader aggregate")
    n = 0
    for pw in D.sites:
        in_family = pw.body.id in D.family and D.family[pw.body.id]["value_params"]
        classes = classify_value(D, pw)
        for k, (cls, detail) in enumerate(classes):
            n += 1
            if in_family:
                ok = cls in ("param", "aligner")
            else:
                ok = cls in ("bump-result", "aligner", "boundary", "restore", "checkpoint") or \
                    (cls in ("block-affine", "param") and pw.callee_name in ALIGNING_WRAPPERS)
            d = detail if isinstance(detail, str) else detail[2]
            ctx.inst(R, pw.body.path, ok,
                     f"{pw.callee_name}({d}) — provenance class `{cls}`" +
                     ("" if ok else " is not one of bump-result / aligner / boundary / restore / checkpoint / "
                      "block end through an aligning wrapper: the position is moved by a value that no rule accounts for"),
                     where=pw.body.where(pw.site), site=f"{pw.callee_name}#{site_ordinal(D, pw)} alt{k}")
    ctx.floor(R, "position-write value alternatives classified", n, 28)
    ctx.floor(R, "bodies handing values to the writer family", len(D.callers()), 13)


def site_ordinal(D, pw):
    same = [s for s in D.sites if s.body.id == pw.body.id and s.callee_name == pw.callee_name]
    same.sort(key=lambda s: (s.site.bb, s.site.idx))
    return same.index(pw)


def bump_call_pred(names):
    def pred(e):
        # Try::branch(bump_up(..)) or bump_up(..)
        return expr_mentions(e, lambda x: x[0] == "call" and x[1] in names)
    return pred


def r2_handout(ctx, P, D):
    R = "C01.R2"
    ctx.rule(R, "allocation primitive: every success path writes the position from the same bump result it returns; "
                "prepare primitives contain no position write")
    prims = []
    for body in P.fn_bodies():
        calls = {t["f"].get("path") for _, t in body.calls()}
        if calls & {"bumping::bump_up", "bumping::bump_down", "bumping::bump_prepare_up", "bumping::bump_prepare_down"}:
            prims.append(body)
    alloc = [b for b in prims if any(pw.body.id == b.id for pw in D.sites)]
    prep = [b for b in prims if b not in alloc]
    ctx.need(len(alloc) >= 1, R, "allocation primitive (calls bump_up/bump_down and writes the position)")
    ctx.need(len(prep) >= 2, R, "prepare primitives (call bump_*/bump_prepare_*, no position write)")
    for body in alloc:
        for bname in ("bumping::bump_up", "bumping::bump_down"):
            bsites = body.calls_to(lambda f: f["path"] == bname)
            for bs, bt in bsites:
                ve = body.variant_edges(lambda e, bb=bs.bb: expr_mentions(
                    e, lambda x: x[0] == "call" and x[1] == bname and x[4] == (bb,)))
                cont = ve.get("Continue") or ve.get("Some") or []
                if not ctx.need(bool(cont), R, f"{body.path}: success edge of {bname}"):
                    continue
                wblocks = [pw.site.bb for pw in D.sites if pw.body.id == body.id and expr_mentions(
                    pw.value(), lambda x: x[0] == "call" and x[1] == bname and x[4] == (bs.bb,))]
                ok = True
                for (bb, tgt, lab) in cont:
                    good, wit = body.must_pass(None, wblocks, exits=(RET,), cleanup=False, from_edge=tgt)
                    ok = ok and good
                ctx.inst(R, body.path, ok,
                         f"every path from the success of {bname.split('::')[-1]} to a return passes a position write "
                         f"fed by that same result" if ok else
                         f"a success path of {bname.split('::')[-1]} returns without moving the position past the block "
                         f"(the next allocation would overlap it)",
                         where=body.where(bs), site=f"{bname.split('::')[-1]} -> write")
                # returned pointer stems from the same bump call
                for rb in body.return_blocks():
                    rv = body.prov_place({"l": 0, "p": []}, body.term_site(rb))
                    somes = [a for a in phi_alts(rv) if a[0] == "agg" and a[2] == "Some"]
                    mine = [a for a in somes if expr_mentions(a, lambda x: x[0] == "call" and x[1] in (
                        "bumping::bump_up", "bumping::bump_down"))]
                    ctx.inst(R, body.path, len(mine) == len(somes) and somes,
                             f"returned Some(..) values derive from a bump result: {[show(a) for a in somes][:2]}",
                             where=body.where(body.term_site(rb)), site=f"return value bb-class {len(somes)}")
    for body in prep:
        fam_calls = [t for _, t in body.calls() if t["f"].get("id") in D.family]
        ctx.inst(R, body.path, not fam_calls, "prepare primitive performs no position write" if not fam_calls else
                 f"prepare primitive writes the position via {[t['f']['name'] for t in fam_calls]}",
                 where=body.where(), site="no position write")


def is_last_pred(body):
    """Recognise the is-last condition: a call to a fn named is_last, or an equality between something derived from
    a pointer parameter and the current position."""
    def one(e):
        if e[0] == "call" and e[1].split("::")[-1] == "is_last":
            return True
        if (e[0] == "call" and e[1] == "core::cmp::PartialEq::eq") or (e[0] == "bin" and e[1] == "Eq"):
            a, b = (e[2][0], e[2][1]) if e[0] == "call" else (e[2], e[3])

            def has_pos(x):
                return expr_mentions(x, lambda y: (y[0] == "call" and y[1].split("::")[-1] == "pos" and "Chunk" in y[1])
                                     or is_header_field(y, "pos"))

            def has_ptr_param(x):
                return expr_mentions(x, lambda y: y[0] == "param" and "NonNull<" in body.locals[y[1]]["ty"])
            return (has_pos(a) and has_ptr_param(b)) or (has_pos(b) and has_ptr_param(a))
        return False

    def pred(e):
        alts = phi_alts(e)
        if all(one(a) for a in alts):
            return True
        return None
    return pred


def gated_by(body, site, pred):
    te, fe = body.cond_edges(pred)
    return body.controlled_by(site, te, cleanup=False), te


def r3_in_place_gated(ctx, P, D):
    R = "C01.R3"
    ctx.rule(R, "position writes of deallocate/grow/shrink/shrink_unfit/shrink_slice are control dependent on the "
                "is-last test; upward in-place grow also on align_fits")
    # bodies of the in-place family: reachable from Allocator::{deallocate,grow,grow_zeroed,shrink} / shrink_slice
    # implementations on the bump types, restricted to bodies that contain an external position-write site
    roots = []
    for it in P.facts["items"]:
        if it["kind"] in ("AssocFn", "Fn") and it["name"] in IN_PLACE_ROOT_NAMES and it["id"] in P.raw_bodies:
            roots.append(it["id"])
    parents = P.reach_fns(roots)
    reach = {st[0] for st in parents}
    fam_stop = set(D.family)
    n = 0
    n_grow_align = 0
    # callers index
    callers = {}
    for fid in reach:
        b = P.body(fid)
        if b is None:
            continue
        for s, t in b.calls():
            tid = t["f"].get("id")
            if tid:
                callers.setdefault(tid, []).append((b, s))
    for pw in D.external_sites():
        b = pw.body
        if b.id not in reach:
            continue
        # slow-path / allocation primitives are not in-place operations
        if b.item["name"] in ("alloc", "reset", "align_to") or "in_another_chunk" in b.path:
            continue
        classes = {c for c, _ in classify_value(D, pw)}
        if classes == {"restore"}:
            ctx.inst(R, b.path, True, f"{pw.callee_name}: restore of a position read earlier (undo), not a move",
                     where=b.where(pw.site), site=f"{pw.callee_name}#{site_ordinal(D, pw)} gate")
            continue
        n += 1
        ok, te = gated_by(b, pw.site, is_last_pred(b))
        how = "is-last test in this body"
        if not ok:
            # assume-last helper: every caller must gate the call
            cs = callers.get(b.id, [])
            if cs:
                ok = all(gated_by(cb, s, is_last_pred(cb))[0] for cb, s in cs)
                how = f"every call site ({len(cs)}) of this assume-last helper is gated by the is-last test"
        ctx.inst(R, b.path, ok,
                 f"{pw.callee_name}({show(pw.value())}) is control dependent on the {how}" if ok else
                 f"{pw.callee_name}({show(pw.value())}) can execute without the is-last test having succeeded: a block "
                 f"that is not the newest would be reclaimed/extended over its neighbours",
                 where=b.where(pw.site), site=f"{pw.callee_name}#{site_ordinal(D, pw)} gate")
        # upward in-place grow: additionally align_fits
        if b.item["name"] == "grow" and "up_align" in show(pw.value()):
            def af(e):
                return True if (e[0] == "call" and e[1].split("::")[-1] in ("align_fits", "is_aligned_to")) else None
            te2, _ = b.cond_edges(af)
            ok2 = b.controlled_by(pw.site, te2, cleanup=False)
            n_grow_align += 1
            ctx.inst(R, b.path, ok2, "upward in-place grow is control dependent on align_fits" if ok2 else
                     "upward in-place grow does not depend on align_fits: a block grown in place may violate the new "
                     "layout's alignment", where=b.where(pw.site), site="grow align_fits")
    ctx.floor(R, "in-place position writes checked for the is-last gate", n, 8)
    ctx.floor(R, "upward in-place grow sites checked for align_fits", n_grow_align, 1)


def r3b_is_last_exact(ctx, P, R="C01.R3"):
    b = P.find_body("allocator_impl::is_last")
    if not ctx.need(b is not None, R, "allocator_impl::is_last"):
        return
    eqs = []
    for rb in b.return_blocks():
        e = b.prov_place({"l": 0, "p": []}, b.term_site(rb))
        for x in walk_expr(e):
            if (x[0] == "call" and x[1].split("::")[-1] in ("eq", "ne")) or (x[0] == "bin" and x[1] in ("Eq", "Ne")):
                eqs.append(x)
    ctx.need(len(eqs) >= 2, R, f"two equality tests (up / down) in is_last (found {len(eqs)})")
    for k, x in enumerate(eqs):
        sides = [strip_ref(a) for a in (x[2] if x[0] == "call" else x[2:4])]
        rounded = [sd for sd in sides if expr_mentions(sd, lambda y: y[0] == "call" and "align" in y[1].split("::")[-1])
                   or expr_mentions(sd, lambda y: y[0] == "bin" and y[1] in ("BitAnd", "BitOr", "Rem", "Div", "Shr", "Shl"))]
        has_pos = any(expr_mentions(sd, lambda y: y[0] == "call" and y[1].split("::")[-1] == "pos") for sd in sides)
        has_ptr = any(mentions_param(sd, 2) for sd in sides)
        ok = not rounded and has_pos and has_ptr
        ctx.inst(R, b.path, ok, f"is_last compares the exact block boundary with the position: {show(x)[:120]}" if ok else
                 f"is_last compares {show(x)[:140]}: a rounded boundary also matches when a shorter live block (a split-off part, "
                 "a block allocated under a lowered minimum alignment) lies between the block and the position - that block is "
                 "then overwritten by in-place growth or handed out again after deallocation", where=b.where(),
                 site=f"is_last exact boundary #{k}")


def r4_slow_path(ctx, P, D):
    R = "C01.R4"
    ctx.rule(R, "slow path: later chunks are reset before being offered and the one that satisfied the request becomes current; append only after the walk "
                "is exhausted; the layout that sizes the new chunk is the one allocated in it")
    body = None
    for b in P.fn_bodies():
        if b.item["name"] == "in_another_chunk" and b.item["kind"] == "AssocFn" and "RawBump" in b.path:
            body = b
    if not ctx.need(body is not None, R, "RawBump::in_another_chunk"):
        return
    fcalls = [(s, t) for s, t in body.calls() if t["f"].get("path") in (
        "core::ops::FnMut::call_mut", "core::ops::FnOnce::call_once", "core::ops::Fn::call")]
    ctx.need(len(fcalls) == 2, R, f"two invocations of the allocation callback in in_another_chunk (found {len(fcalls)})")
    resets = body.calls_to(lambda f: f.get("name") == "reset" and "NonDummyChunk" in f["path"])
    nexts = body.calls_to(lambda f: f.get("name") == "next" and "NonDummyChunk" in f["path"])
    sets = [(s, t) for s, t in body.calls() if t["f"].get("path") == "core::cell::Cell::<T>::set"
            and expr_mentions(body.prov_operand(t["args"][0], s), lambda x: x[0] == "field" and x[2] == "chunk")]
    appends = body.calls_to(lambda f: f.get("name") == "append_for")
    news = body.calls_to(lambda f: f.get("name") == "new" and "NonDummyChunk" in f["path"])
    ctx.need(len(nexts) >= 1 and len(appends) == 1 and len(news) >= 1, R, "next()/append_for/NonDummyChunk::new calls in the slow path")
    # classify the two callback sites: the one reachable from a `next()` success without passing append_for is the walk
    for k, (fs, ft) in enumerate(sorted(fcalls, key=lambda x: x[0].bb)):
        in_walk = any(body.dominates(ns, fs) for ns, _ in nexts) and not any(body.dominates(a, fs) for a, _ in appends) \
            and any(body.can_reach(fs, ns) for ns, _ in nexts)
        if in_walk:
            r_ok = any(body.dominates(rs, fs) and any(body.dominates(ns, rs) for ns, _ in nexts) for rs, _ in resets)
            ctx.inst(R, body.path, r_ok, "existing next chunk is reset() (stale position from an earlier scope) before it "
                     "is offered to the allocation callback" if r_ok else
                     "a later chunk is offered without being reset: its stale position lets new blocks overlap memory "
                     "that was handed out before a scope exit... or wastes it", where=body.where(fs), site="walk: reset before offer")
            s_before = any(body.dominates(ss, fs) and any(body.dominates(ns, ss) for ns, _ in nexts) for ss, _ in sets)
            # or: once the callback returned Some, every return path makes exactly the offered chunk current
            offered = body.prov_operand(ft["args"][1], fs)
            offered = offered[4][0] if offered[0] == "agg" and offered[4] else None
            same = [ss.bb for ss, st in sets if offered is not None and body.prov_operand(st["args"][1], ss) == offered]
            some_edges = [e for e in body.variant_edges(lambda e: e[0] == "call" and e[1] == ft["f"]["path"]).get("Some", [])
                          if fs.bb in (e[0],) or (body.dominates(fs, Site(e[0], 0)) and not any(
                              o is not fs and body.dominates(fs, o) and body.dominates(o, Site(e[0], 0)) for o, _ in fcalls))]
            s_after = bool(same) and bool(some_edges) and all(
                body.must_pass(None, same, exits=(RET,), cleanup=False, from_edge=e[1])[0] for e in some_edges)
            s_ok = s_before or s_after
            ctx.inst(R, body.path, s_ok, "the offered chunk is made current (self.chunk.set) " +
                     ("before the callback allocates in it" if s_before else "on every return path after the callback allocated in it")
                     if s_ok else "the callback allocates in a chunk that does not become the current one: the next "
                     "allocation bumps a different chunk and later scope exits/reset lose track of the block",
                     where=body.where(fs), site="walk: offered chunk becomes current")
        else:
            s_ok = any(body.dominates(ss, fs) and not any(body.can_reach(ss, ns) for ns, _ in nexts) for ss, _ in sets)
            ctx.inst(R, body.path, s_ok, "the new chunk is made current before the callback allocates in it" if s_ok else
                     "the callback allocates in the new chunk before it is made current",
                     where=body.where(fs), site="new: current before offer")
            # value set is the result of new/append_for (success)
    # append only when next() returned None
    for a_s, a_t in appends:
        ve = body.variant_edges(lambda e: e[0] == "call" and e[1].split("::")[-1] == "next" and "NonDummyChunk" in e[1])
        none_edges = ve.get("None", [])
        ok = body.controlled_by(a_s, none_edges, cleanup=False)
        ctx.inst(R, body.path, ok, "append_for is reached only after next() returned None (existing chunks are tried "
                 "first)" if ok else "a new chunk can be appended while a later chunk exists (the list would fork / "
                 "memory is requested although chunks are available)", where=body.where(a_s), site="append after exhaustion")
        # same layout
        le = body.prov_operand(a_t["args"][1], a_s)
        okl = mentions_param(le, 2)
        ctx.inst(R, body.path, okl, f"append_for is sized by the requested layout ({show(le)})" if okl else
                 f"append_for is sized by {show(le)}, not by the layout that is then allocated", where=body.where(a_s),
                 site="append layout")
    for fs, ft in fcalls:
        ae = body.prov_operand(ft["args"][1], fs)
        okl = mentions_param(ae, 2)
        ctx.inst(R, body.path, okl, f"callback receives the requested layout ({show(ae)})", where=body.where(fs),
                 site=f"callback layout bb-order {sorted(x[0].bb for x in fcalls).index(fs.bb)}")
    # from_capacity in the unallocated arm
    fcs = body.calls_to(lambda f: f.get("name") == "from_capacity")
    for s, t in fcs:
        le = body.prov_operand(t["args"][0], s)
        ctx.inst(R, body.path, mentions_param(le, 2), f"first chunk is sized by the requested layout ({show(le)})",
                 where=body.where(s), site="from_capacity layout")
    # unreachable_unchecked: at most one, dominated by the second callback
    uu = body.calls_to(lambda f: f["path"] == "core::hint::unreachable_unchecked")
    for s, t in uu:
        ok = any(body.dominates(fs, s) and any(body.dominates(a, fs) for a, _ in news + appends) is False or
                 body.dominates(fs, s) for fs, _ in fcalls)
        ve = body.variant_edges(lambda e: e[0] == "call" and e[1] in ("core::ops::FnMut::call_mut",))
        ok = ok and len(uu) == 1
        ctx.inst(R, body.path, ok, "the only unreachable_unchecked is dominated by the allocation attempt in the freshly "
                 "created chunk", where=body.where(s), site="unreachable_unchecked")


def run(ctx, progs):
    ctx.assume("rustc nightly's type checker, MIR construction and trait resolution are correct")
    ctx.assume("the fact exporter and PROV reconstruction faithfully render MIR; transparent-call table (NonNull::addr, "
               "NonZero::get, cast, likely/unlikely, ...) lists identity wrappers only")
    ctx.assume("only the library target is analysed")
    for lab, P in progs:
        ctx.config = lab
        D = PosDiscipline(P)
        r1_single_writer(ctx, P, D)
        r2_handout(ctx, P, D)
        r3_in_place_gated(ctx, P, D)
        r4_slow_path(ctx, P, D)
        from . import c15
        c15.r4_commit_forms(ctx, P, D, R="C01.R5")
        r3b_is_last_exact(ctx, P)
        r6r7_primitives(ctx, P)
        from . import c10
        c10.r1_min_aligned(ctx, P, D, R="C01.R8")
        from . import c16, c13, c18, c10 as _c10
        c16.r1_partitions(ctx, P, R="C01.R9")
        c13.r3_reclaim_boundary(ctx, P, D, R="C01.R10")
        c18.r4_conversions(ctx, P, R="C01.R11")
        _c10.r1d_aligner_direction(ctx, P, D, R="C01.R12")
        from . import c17
        c17.r3_twins(ctx, P, R="C01.R13")
        from . import c08
        c08.r9_shrink_adopted(ctx, P, R="C01.R14")
        c08.r10_in_place_map_gate(ctx, P, R="C01.R15")
        from . import c12 as _c12
        _c12.r6_prepare_pads_layout(ctx, P, R="C01.R16")
        from . import c07 as _c07
        _c07.r7_address_subtraction(ctx, P, R="C01.R17")
    ctx.config = None


# ------------------------------------------------------------------------------------------------- R6 / R7
from ..sym import Sym, Unanalysable, ite_leaves


def _sc(e):
    while isinstance(e, tuple) and e and e[0] in ("cast", "ref", "deref"):
        e = e[2] if e[0] == "cast" else e[1]
    return e


def _is_field(e, name):
    e = _sc(e)
    return e[0] == "field" and e[2] == name


def _layout_fn(e, which):
    e = _sc(e)
    return e[0] == "call" and e[1] == "core::alloc::Layout::" + which and _is_field(e[2][0], "layout")


def _align_arg_covers(a, want):
    """alignment operand `a` is at least `want` ('layout' or 'min') by form"""
    a = _sc(a)
    if want == "layout" and _layout_fn(a, "align"):
        return True
    if want == "min" and _is_field(a, "min_align"):
        return True
    if a[0] == "call" and a[1].split("::")[-1] == "max":
        return any(_align_arg_covers(x, want) for x in a[2])
    return False


def _aligned(e, want):
    """expression is the result of an aligner whose modulus covers `want`"""
    e = _sc(e)
    if e[0] == "call" and e[1].split("::")[-1] in ("up_align_unchecked", "down_align") and len(e[2]) == 2:
        return _align_arg_covers(e[2][1], want)
    # NonZero payload of checked up_align: (up_align(x, a) as Some).0 .get()
    if expr_mentions(e, lambda x: x[0] == "call" and x[1].split("::")[-1] == "up_align" and len(x[2]) == 2 and _align_arg_covers(x[2][1], want)) \
            and e[0] in ("field", "downcast", "call"):
        return True
    # aligned_down + align  with aligned_down = (start - 1) & !(align - 1)
    if e[0] == "bin" and e[1].startswith("Add"):
        a, b = _sc(e[2]), _sc(e[3])
        if want == "layout" and _layout_fn(b, "align") and a[0] == "bin" and a[1] == "BitAnd":
            m = _sc(a[3])
            if m[0] == "un" and m[1] == "Not" and _sc(m[2])[0] == "bin" and _sc(m[2])[1].startswith("Sub") and _layout_fn(_sc(m[2])[2], "align"):
                return True
    return False


def _cond_true(conds, pred):
    """some path condition satisfies pred(expr) with a true outcome (or its negation with false)"""
    for c, k in conds:
        c = _sc(c)
        val = (k != "0")
        if c[0] == "un" and c[1] == "Not":
            c, val = _sc(c[2]), not val
        r = pred(c)
        if r is True and val:
            return True
        if r is False and not val:
            return True
    return False


def _cmp(c, op, l, r):
    """c is `l op r` (True) or the swapped/negated spelling (returns False meaning: holds when c is false)"""
    c = _sc(c)
    if c[0] != "bin":
        return None
    a, b = c[2], c[3]
    swap = {"Lt": "Gt", "Gt": "Lt", "Le": "Ge", "Ge": "Le", "Eq": "Eq"}
    neg = {"Lt": "Ge", "Gt": "Le", "Le": "Gt", "Ge": "Lt"}
    if c[1] == op and l(a) and r(b):
        return True
    if c[1] == swap.get(op) and l(b) and r(a):
        return True
    if c[1] == neg.get(op) and l(a) and r(b):
        return False
    if c[1] == swap.get(neg.get(op, ""), "") and l(b) and r(a):
        return False
    return None


def _consistent(conds):
    seen = {}
    for c, k in conds:
        v = (k != "0")
        if c in seen and seen[c] != v:
            return False
        seen[c] = v
    return True


def r6r7_primitives(ctx, P, R6="C01.R6", R7="C01.R7"):
    ctx.rule(R6, "bump primitives: on every Some(..) path the returned pointer is produced by an aligner for layout.align() and the "
                 "new position by an aligner for min_align, or the path carries the tabled elision predicate")
    ctx.rule(R7, "bump primitives: every Some(..) path carries the negative outcome of a fit comparison against the range bound")
    S = Sym(P, inline_depth=1, opaque_names={"up_align_unchecked", "down_align", "up_align", "debug_assert_valid", "cold"})
    flag = lambda n: (lambda c: True if _is_field(c, n) else None)
    al = lambda c: _layout_fn(c, "align")
    sz = lambda c: _layout_fn(c, "size")
    mn = lambda c: _is_field(c, "min_align")

    def elide_layout_up(conds):
        return _cond_true(conds, flag("align_is_const")) and _cond_true(conds, lambda c: _cmp(c, "Le", al, mn))

    def elide_min(conds):
        a = _cond_true(conds, flag("align_is_const")) and _cond_true(conds, flag("size_is_multiple_of_align")) and \
            _cond_true(conds, lambda c: _cmp(c, "Ge", al, mn))
        b = _cond_true(conds, flag("size_is_const")) and _cond_true(
            conds, lambda c: True if (_sc(c)[0] == "bin" and _sc(c)[1] == "Eq" and _sc(_sc(c)[2])[0] == "bin" and _sc(_sc(c)[2])[1] == "Rem"
                                      and sz(_sc(_sc(c)[2])[2]) and mn(_sc(_sc(c)[2])[3]) and _sc(_sc(c)[3]) == ("int", 0, "usize")) else None)
        return a or b

    def elide_layout_down(conds):
        return _cond_true(conds, flag("size_is_multiple_of_align")) and _cond_true(conds, flag("align_is_const")) and \
            _cond_true(conds, lambda c: _cmp(c, "Le", al, mn))

    def fit(conds, value_exprs):
        # negative outcome of: bound < candidate | size > remaining
        def is_rem(x):
            x = _sc(x)
            return x[0] == "call" and x[1].split("::")[-1] == "wrapping_sub"

        def pr(c):
            c = _sc(c)
            if c[0] != "bin" or c[1] not in ("Lt", "Gt", "Le", "Ge"):
                return None
            a, b = _sc(c[2]), _sc(c[3])
            m_end = lambda x: expr_mentions(x, lambda y: y[0] == "field" and y[2] in ("end", "start") and expr_mentions(y, lambda z: z[0] == "param"))
            if (is_rem(a) or is_rem(b)) and (expr_mentions(a, lambda y: sz(y)) or expr_mentions(b, lambda y: sz(y))):
                # size > remaining  (must be false)
                if c[1] == "Gt" and expr_mentions(a, lambda y: sz(y)):
                    return False
                if c[1] == "Lt" and expr_mentions(b, lambda y: sz(y)):
                    return False
                return None
            if m_end(a) and m_end(b):
                # one side is a bare bound (props.end / props.start), the other the candidate
                bare_a = a[0] == "field"
                bare_b = b[0] == "field"
                if bare_a != bare_b or (bare_a and bare_b):
                    # `end < new_pos` / `new_pos > end` / `end' < start` / `start' > end` must be false
                    if c[1] in ("Lt", "Gt"):
                        return False
            return None
        return _cond_true(conds, pr)

    n6 = n7 = 0
    for nm in ("bump_up", "bump_down", "bump_prepare_up", "bump_prepare_down"):
        it = P.find("bumping::" + nm)
        if not ctx.need(it is not None, R6, "bumping::" + nm):
            continue
        b = P.body(it["id"])
        try:
            e = S.ret(it["id"])
        except Unanalysable as ex:
            ctx.inst(R6, b.path, False, f"not analysable: {ex}", where=b.where(), site="avn")
            continue
        leaves = [(c, l) for c, l in ite_leaves(e) if l[0] == "agg" and l[2] == "Some" and _consistent(c)]
        ctx.need(len(leaves) >= 2, R6, f"{nm}: Some(..) return paths")
        bad6, bad7, bad7b = [], [], []
        for conds, leaf in leaves:
            v = leaf[4][0]
            if nm == "bump_up":
                v = _sc(v)
                new_pos, ptr = v[4][v[3].index("new_pos")], v[4][v[3].index("ptr")]
                ok_ptr = _aligned(ptr, "layout") or elide_layout_up(conds)
                ok_pos = _aligned(new_pos, "min") or elide_min(conds)
                vals = [new_pos, ptr]
            elif nm == "bump_down":
                ok_ptr = _aligned(v, "layout") or elide_layout_down(conds)
                ok_pos = _aligned(v, "min") or elide_min(conds)
                vals = [v]
            else:
                v = _sc(v)
                st, en = v[4][v[3].index("start")], v[4][v[3].index("end")]
                if nm == "bump_prepare_up":
                    ok_ptr = (_aligned(st, "layout") or elide_layout_up(conds)) and _aligned(en, "layout")
                else:
                    ok_ptr = (_aligned(en, "layout") or elide_layout_up(conds)) and _aligned(st, "layout")
                ok_pos = True
                vals = [st, en]
            n6 += 1
            if not (ok_ptr and ok_pos):
                bad6.append((conds, leaf, ok_ptr, ok_pos))
            n7 += 1
            if not fit(conds, vals):
                bad7.append((conds, leaf))
            elif nm.startswith("bump_prepare"):
                # the range that is handed out is the range that was measured: `size > end' - start'` (false) with
                # exactly the returned start' / end' - trimming a bound *after* the test can shrink the range below
                # layout.size() when the size is not a multiple of the alignment
                def measured(c):
                    c = _sc(c)
                    if c[0] == "bin" and c[1] in ("Gt", "Lt"):
                        for x in (c[2], c[3]):
                            x = _sc(x)
                            if x[0] == "call" and x[1].split("::")[-1] == "wrapping_sub" and len(x[2]) == 2:
                                return False if (_sc(x[2][0]) == _sc(en) and _sc(x[2][1]) == _sc(st)) else None
                    return None
                if not _cond_true(conds, measured):
                    bad7b.append((conds, leaf))
        for conds, leaf, okp, okn in bad6[:3]:
            what = ("the returned block" if not okp else "") + (" and " if not okp and not okn else "") + ("the new position" if not okn else "")
            ctx.inst(R6, b.path, False, f"a success path returns {show(leaf)[:140]} where {what} is neither produced by a covering aligner nor "
                     f"excused by the tabled elision predicate; path: " + " & ".join(f"{show(c)[:40]}={k}" for c, k in conds)[:300],
                     where=b.where(), site=f"unaligned path {'ptr' if not okp else ''}{'pos' if not okn else ''}")
        for conds, leaf in bad7[:3]:
            ctx.inst(R7, b.path, False, f"a success path returns {show(leaf)[:120]} without a fit comparison against the range bound: a block "
                     "beyond the chunk (or from a dummy chunk) would be handed out; path: " +
                     " & ".join(f"{show(c)[:40]}={k}" for c, k in conds)[:300], where=b.where(), site="no fit test")
        for conds, leaf in bad7b[:2]:
            ctx.inst(R7, b.path, False, f"a success path returns {show(leaf)[:120]} but the fit test on that path measured a different "
                     "range: a bound is trimmed after the test, so for a size that is not a multiple of the alignment the returned range "
                     "can be smaller than layout.size() (down: the block is then placed below the free space)", where=b.where(),
                     site="fit test on the returned range")
        if nm.startswith("bump_prepare"):
            ctx.inst(R7, b.path, not bad7b, f"{len(leaves)} Some(..) paths: the measured range is the returned range", where=b.where(),
                     site="all paths measure the returned range")
        ctx.inst(R6, b.path, not bad6, f"{len(leaves)} consistent Some(..) paths: every one aligns (or carries the elision predicate)", where=b.where(), site="all paths aligned")
        ctx.inst(R7, b.path, not bad7, f"{len(leaves)} consistent Some(..) paths: every one passed a fit test", where=b.where(), site="all paths fit-tested")
    ctx.floor(R6, "success paths of the bump primitives", n6, 20)
