"""C06 — every value stored in the arena is dropped exactly once (shape rules that std's vector code relies on)."""
import re
from ..ir import show, phi_alts, walk_expr, expr_mentions, Site, RET, UNW
from .common import *

EXPLANATION = (
    "Counting drops over histories is not decided; decided is the shape that makes exactly-once hold. C06.R1: at every site "
    "that drops a sub-range of a collection in place (drop_in_place on a slice outside an owner's Drop), a store that "
    "lowers the recorded length dominates the drop. C06.R2: critical sections are discovered, not listed: a body is "
    "critical when a raw operation (ptr::read, copy*, drop_in_place, length store, write_with) can be followed by user "
    "code (closure, Clone, Iterator::next, PartialEq, element Drop - directly or through local helpers / closures); for "
    "every tabled (body, callback) instance unwinding out of the callback must drop the tabled guard type; tabled "
    "'safe-order' instances carry the reason why the state is consistent at the callback; new critical pairs that are "
    "not tabled are listed as UNCLASSIFIED (no alarm). C06.R2b: ExtractIf::next advances the index after the predicate "
    "and before the read/copy. C06.R3: ownership hand-over of appended slices: the fallible reserve precedes the copy, "
    "take_owned_slice() post-dominates the copy on normal paths and no user code runs in between. C06.R4: owners drop "
    "their pointee: Drop of BumpBox, the IntoIter types, MutBumpVecRev, BumpVec, BumpBoxSliceInitializer reaches "
    "drop_in_place on its own buffer. Not decided: exact counts, leaks explicitly allowed, panics thrown by Drop. C06.R11: dedup_by advances gap.read between predicate and drop of the duplicate, and compares with the last retained slot.")

COLL_FILES = re.compile(r"src/(bump_box|fixed_bump_vec|bump_vec|mut_bump_vec|mut_bump_vec_rev|owned_slice|set_len_on_drop|"
                        r"bump_string|mut_bump_string|fixed_bump_string|owned_str|destructure|polyfill)")
USER_TRAITS = {"core::ops::FnMut::call_mut", "core::ops::FnOnce::call_once", "core::ops::Fn::call", "core::clone::Clone::clone",
               "core::cmp::PartialEq::eq", "core::iter::Iterator::next", "core::iter::DoubleEndedIterator::next_back",
               "core::cmp::PartialOrd::partial_cmp", "core::cmp::Ord::cmp", "core::default::Default::default",
               "core::iter::IntoIterator::into_iter"}
RAW_NAMES = {"read", "drop_in_place", "copy", "copy_nonoverlapping", "write", "set_len", "inc_len", "dec_len", "copy_to",
             "copy_from", "copy_to_nonoverlapping", "swap", "write_with", "set_ptr", "set_cap"}
LEN_FIELDS = {"len", "end", "ptr", "read", "write", "idx", "del", "old_len"}


def coll_bodies(P):
    return [b for b in P.fn_bodies() if COLL_FILES.search(b.item.get("file") or "")]


def direct_user_sites(b):
    out = []
    for s, t in b.calls():
        f = t["f"]
        if f.get("path") in USER_TRAITS and "param" in ((f.get("args") or [{}])[0]):
            out.append((s, t, f["path"].split("::")[-1]))
        if f.get("name") == "drop_in_place" and f.get("krate") == "core":
            tys = [a.get("s") for a in f.get("args", []) if a["k"] == "ty"]
            if tys and re.search(r"\b[A-Z]\b", tys[0]):
                out.append((s, t, "drop_in_place<" + tys[0] + ">"))
    for s, t in b.drops():
        if t.get("param") and not b.is_cleanup(s.bb):
            out.append((s, t, "drop<" + t["param"] + ">"))
    return out


def user_reach(P, bodies):
    ur = {b.id for b in bodies if direct_user_sites(b)}
    changed = True
    while changed:
        changed = False
        for b in bodies:
            if b.id in ur:
                continue
            for tid, rb, kind, site in P.out_edges(b.id):
                if tid in ur and kind in ("call", "closure-arg", "closure", "fnarg"):
                    ur.add(b.id)
                    changed = True
                    break
    return ur


def critical_pairs(P, b, ur):
    """[(site, term, name)] of user-code sites that can be preceded by a raw operation."""
    U = list(direct_user_sites(b))
    for s, t in b.calls():
        f = t["f"]
        if "path" not in f:
            continue
        tg = [tid for tid, rb in P.callee_targets(f)] + [a["closure"] for a in f.get("args", []) if a.get("closure")]
        if any(x in ur for x in tg):
            U.append((s, t, "via " + f.get("name", "?")))
    if not U:
        return []
    M = [s for s, t in b.calls() if t["f"].get("name") in RAW_NAMES]
    for s, st in b.assigns():
        pl = st["p"]
        if pl["p"] and any(isinstance(pe, dict) and pe.get("n") in LEN_FIELDS for pe in pl["p"]):
            M.append(s)
    # an in-place element drop is itself the raw operation: the element is dead while its Drop (user code) runs
    return [(us, ut, n) for us, ut, n in U if n.startswith("drop_in_place<") or any(b.can_reach(ms, us) for ms in M)]


def guards_on_unwind(P, b, site):
    must, may, ends = b.unwind_walk(site)
    gt = set()
    for d in must:
        for a in (d[3] if len(d) > 3 else ()):
            if a in P.drop_impl:
                gt.add(a.split("::")[-1])
        if "closure" in d[2]:
            gt.add("closure")
    return gt


# (path regex, callback-name regex) -> required guard type on the unwind path
GUARDED = [
    (r"^bump_box::BumpBox::<'a, \[T\]>::retain$", r"^(call_mut|drop_in_place<T>)$", "PanicGuard", "std Vec::retain protocol"),
    (r"^bump_box::BumpBox::<'a, \[T\]>::dedup_by$", r"^(call_mut|drop_in_place<T>)$", "FillGapOnDrop", "std Vec::dedup_by protocol"),
    (r"^bump_box::BumpBox::<'a, \[T\]>::map_in_place$", r"^call_mut$", "DropGuard", "in-place map: guard drops mapped prefix and unmapped suffix"),
    (r"^bump_vec::BumpVec::<T, A>::generic_map$", r"^call_mut$", "DropGuard", "map with reuse of the allocation"),
    (r"^bump_vec::BumpVec::<T, A>::map_in_place$", r"^via map_in_place$", "DropGuard", "guard restores the vector's buffer description"),
    (r"^bump_box::BumpBox::<'a, str>::retain$", r"^call_mut$", "SetLenOnDrop", "String::retain protocol"),
    (r"^fixed_bump_vec::FixedBumpVec::<'a, T>::extend_with_unchecked$", r"^via write_with$", "SetLenOnDropByPtr", "length committed by the guard"),
    (r"^mut_bump_vec_rev::MutBumpVecRev::<T, A>::extend_with$", r"^via write_with$", "SetLenOnDrop", "length committed by the guard"),
    (r"^<bump_vec::splice::Splice<'_, I, A> as core::ops::Drop>::drop$", r"^via fill$", "IntoIter", "collected remainder is dropped on unwind"),
    (r"^bump_vec::BumpVec::<T, A>::splice$", r"^into_iter$", "Drain", "the Drain restores the tail"),
    (r"^<bump_vec::drain::Drain<'_, T, A> as core::ops::Drop>::drop$", r"^drop_in_place<\[T\]>$", "DropGuard", "tail is moved back even if an element's Drop panics"),
    (r"^<bump_vec::into_iter::IntoIter<T, A> as core::ops::Drop>::drop$", r"^drop_in_place<\[T\]>$", "DropGuard", "buffer is released even if an element's Drop panics"),
]
# critical pairs that are consistent by order, with the reason (one symbol each)
SAFE_ORDER = [
    (r"::(clear|truncate)$", r"^drop_in_place<\[T\]>$", "length is lowered before the drop (C06.R1)"),
    (r"^polyfill::non_null::truncate$", r"^drop_in_place<\[T\]>$", "length is lowered before the drop (C06.R1)"),
    (r"::generic_extend_from_within_clone$", r"^clone$", "each clone is written and counted before the next clone runs (verified by C06.R6)"),
    (r"^bump_vec::splice::<impl bump_vec::drain::Drain<'_, T, A>>::fill$", r"^next$", "the vector's length hides the gap while the iterator runs"),
    (r"ExtractIf<'_, T, F> as core::iter::Iterator>::next$", r"^call_mut$", "index advanced after the predicate (C06.R2b)"),
    (r"^polyfill::iter::partition_in_place$", r".*", "swap-based: the slice is valid at every callback"),
    (r"DropGuard<.*> as core::ops::Drop>::drop$", r"^drop_in_place<\[U\]>$", "guard's own cleanup"),
    (r"^<bump_vec::drain::Drain<'_, T, A> as core::ops::Drop>::drop$", r"^via truncate$", "inner DropGuard moves the tail back"),
    (r"^<owned_slice::drain::Drain<'_, T> as core::ops::Drop>::drop$", r"^via truncate$", "zero-sized arm: the iterator was forgotten and truncate lowers the length before dropping (C06.R1, C06.R5)"),
    (r".*", r"^drop<(F|P|impl .*)>$", "drop of the callback object itself at scope end, after the state was committed"),
    (r"( as core::ops::Drop>::drop|::drop_inner)$", r"^drop_in_place<", "the owner's final drop of its own elements: nothing observes them afterwards"),
    (r"::(extend_with_unchecked|extend_with)$", r"^drop<T>$", "drop of the unused template value after the length was committed"),
]


def r1_len_before_drop(ctx, P, R="C06.R1"):
    ctx.rule(R, "a length-lowering store dominates every in-place drop of a sub-range of a collection")
    n = 0
    bodies = coll_bodies(P)
    callers = {}
    for cb in bodies:
        for s, t in cb.calls():
            if t["f"].get("local") and t["f"].get("id"):
                callers.setdefault(t["f"]["id"], set()).add(P.outermost_fn(cb.item)["name"])
    for b in bodies:
        outer = P.outermost_fn(b.item)
        if outer["name"] == "drop" or b.item["name"] == "drop":
            continue   # owners' Drop: nothing observes the collection afterwards
        if callers.get(outer["id"]) == {"drop"}:
            continue   # helper called only from Drop impls
        for s, t in b.calls():
            f = t["f"]
            if f.get("name") != "drop_in_place" or f.get("krate") != "core":
                continue
            tys = [a.get("s") for a in f.get("args", []) if a["k"] == "ty"]
            if not tys or not tys[0].startswith("["):
                continue
            n += 1
            stores = [ms for ms, mt in b.calls() if mt["f"].get("name") in ("set_len", "dec_len")]
            for ms, st in b.assigns():
                pl = st["p"]
                if pl["p"] and any(isinstance(pe, dict) and pe.get("n") == "len" for pe in pl["p"]):
                    stores.append(ms)
            ok = any(b.dominates(ms, s) for ms in stores)
            ctx.inst(R, b.path, ok, f"drop_in_place::<{tys[0]}> is dominated by a store to the length" if ok else
                     f"drop_in_place::<{tys[0]}> runs before the length was lowered: if an element's Drop panics the owner's Drop "
                     "drops those elements a second time", where=b.where(s), site=f"drop_in_place<{tys[0]}>")
    ctx.floor(R, "in-place slice drops outside owners' Drop", n, 4)


def r2_guards(ctx, P):
    R = "C06.R2"
    ctx.rule(R, "tabled critical sections: unwinding out of the user callback drops the tabled guard; safe-order instances tabled "
                "with reason; untabled critical pairs are reported as UNCLASSIFIED (no alarm)")
    bodies = coll_bodies(P)
    ur = user_reach(P, bodies)
    n_guard = n_safe = n_unc = 0
    seen_guard_rows = set()
    for b in bodies:
        for us, ut, name in critical_pairs(P, b, ur):
            row = None
            for k, (prx, crx, guard, why) in enumerate(GUARDED):
                if re.search(prx, b.path) and re.search(crx, name):
                    row = (k, guard, why)
                    break
            if row:
                k, guard, why = row
                seen_guard_rows.add(k)
                gt = guards_on_unwind(P, b, us)
                ok = guard in gt or ("closure" in gt and guard.startswith("SetLenOnDrop"))
                n_guard += 1
                ctx.inst(R, b.path, ok, f"callback `{name}`: unwinding drops {sorted(gt)}; required guard {guard} ({why})" if ok else
                         f"callback `{name}` runs in a critical section but unwinding out of it does not drop the {guard} guard "
                         f"(drops on that path: {sorted(gt)}): elements would be dropped twice or lost", where=b.where(us),
                         site=f"{name} guarded by {guard}")
                continue
            safe = [why for prx, crx, why in SAFE_ORDER if re.search(prx, b.path) and re.search(crx, name)]
            if safe:
                n_safe += 1
                ctx.inst(R, b.path, True, f"callback `{name}`: tabled safe order - {safe[0]}", where=b.where(us),
                         site=f"{name} safe-order", nontrivial=False)
            else:
                gt = guards_on_unwind(P, b, us)
                n_unc += 1
                ctx.unclass(R, b.path, f"critical pair with callback `{name}` is not tabled (guards dropped on unwind: {sorted(gt)})")
    nodef = "nodefault" in (ctx.config or "")
    missing = [GUARDED[k][0] for k in range(len(GUARDED)) if k not in seen_guard_rows and not (nodef and ("plice" in GUARDED[k][0] or "bump_vec::drain::Drain" in GUARDED[k][0]))]
    for m in missing:
        ctx.need(False, R, f"tabled critical section {m} (no critical pair found for it any more)")
    ctx.floor(R, "guarded critical (body, callback) pairs", n_guard, 12 if nodef else 14)
    ctx.note(f"{ctx.config}: {n_guard} guarded, {n_safe} safe-order, {n_unc} unclassified critical pairs; {len(ur)} collection "
             "bodies can reach user code")


def r2b_extract_if(ctx, P):
    R = "C06.R2b"
    ctx.rule(R, "ExtractIf::next: index += 1 post-dominates the predicate call and dominates the read/copy of that element")
    bs = [b for b in P.fn_bodies() if b.item["name"] == "next" and "extract_if::ExtractIf" in b.path]
    if not ctx.need(len(bs) == 1, R, "ExtractIf::next"):
        return
    b = bs[0]
    preds = [(s, t) for s, t in b.calls() if t["f"].get("path") == "core::ops::FnMut::call_mut"]
    idx_stores = [s for s, st in b.assigns() if st["p"]["p"] and any(isinstance(pe, dict) and pe.get("n") == "index" for pe in st["p"]["p"])]
    reads = [(s, t) for s, t in b.calls() if t["f"].get("name") in ("read", "copy_to_nonoverlapping", "copy_to", "copy_nonoverlapping")]
    if not ctx.need(len(preds) == 1 and idx_stores and reads, R, "ExtractIf::next: predicate call, index store, read/copy"):
        return
    ps = preds[0][0]
    ok1, _ = b.must_pass(ps, [s.bb for s in idx_stores], exits=(RET,), cleanup=False)
    ok2 = all(any(b.dominates(i, r) and b.dominates(ps, i) for i in idx_stores) for r, _ in reads)
    # the store must not be on the unwind path of the predicate (a panicking predicate leaves the element in place)
    ok3 = not any(b.is_cleanup(i.bb) for i in idx_stores)
    ctx.inst(R, b.path, ok1 and ok2 and ok3, "index is advanced after the predicate returned and before the element is read or moved" if ok1 and ok2 and ok3
             else "the index update is not between the predicate call and the read/copy: a panicking predicate leaks or double-drops "
             "the current element", where=b.where(ps), site="index after predicate")


def r3_handover(ctx, P):
    R = "C06.R3"
    ctx.rule(R, "append hand-over: fallible reserve before the copy, take_owned_slice() after the copy on every normal path, no "
                "user code in between")
    bodies = coll_bodies(P)
    ur = user_reach(P, bodies)
    n = 0
    for b in bodies:
        takes = b.calls_to(lambda f: f.get("name") == "take_owned_slice" and (f.get("trait") or "").endswith("TakeOwnedSlice"))
        refs = b.calls_to(lambda f: f.get("name") == "owned_slice_ref")
        if not takes or not refs:
            continue
        copies = copy_sites(b)
        if not copies:
            continue
        n += 1
        ok = True
        why = []
        for c in copies:
            src = c.prov("src")
            if not expr_mentions(src, lambda x: x[0] == "call" and x[1].split("::")[-1] == "owned_slice_ref"):
                continue
            g, _ = b.must_pass(c.site, [s.bb for s, _ in takes], exits=(RET,), cleanup=False)
            if not g:
                ok = False
                why.append("a returning path after the copy skips take_owned_slice(): the source would drop the moved elements again")
            if any(b.can_reach(ts, c.site) for ts, _ in takes):
                ok = False
                why.append("take_owned_slice() can run before the copy: on a later failure the elements are lost")
            # fallible calls after the copy / between copy and take
            E = None
            for g_ in b.item.get("generics", []):
                if (g_["name"] + ": error_behavior::ErrorBehavior") in b.item.get("preds", []):
                    E = g_["name"]
            for s, t in b.calls():
                f = t["f"]
                if "path" not in f:
                    continue
                fallible = E and any(a.get("param") == E for a in f.get("args", [])) and f.get("trait") != "error_behavior::ErrorBehavior"
                usery = any(x in ur for x in [tid for tid, rb in P.callee_targets(f)]) or (f.get("path") in USER_TRAITS and "param" in ((f.get("args") or [{}])[0]))
                if (fallible or usery) and b.can_reach(c.site, s) and any(b.can_reach(s, ts) for ts, _ in takes) and s != c.site:
                    ok = False
                    why.append(f"{f['name']} (fallible or user code) runs between the copy and take_owned_slice()")
                if fallible and b.can_reach(refs[0][0], s) and not b.can_reach(s, c.site) and s != c.site and b.can_reach(c.site, s):
                    ok = False
                    why.append(f"fallible {f['name']} after the copy")
        ctx.inst(R, b.path, ok, "reserve, copy, then take_owned_slice() on every normal path" if ok else "; ".join(sorted(set(why))),
                 where=b.where(), site="hand-over order")
    ctx.floor(R, "bodies that copy out of an owned slice and take it", n, 5)


OWNER_DROPS = [
    ("bump_box::BumpBox", "drop_in_place"),
    ("owned_slice::into_iter::IntoIter", "drop_in_place"),
    ("bump_vec::into_iter::IntoIter", "drop_in_place"),
    ("mut_bump_vec::into_iter::IntoIter", "drop_in_place"),
    ("mut_bump_vec_rev::MutBumpVecRev", "drop_in_place"),
    ("bump_vec::BumpVec", "drop_in_place"),
    ("bump_box::slice_initializer::BumpBoxSliceInitializer", "drop_in_place"),
]


def r4_owners_drop(ctx, P):
    R = "C06.R4"
    ctx.rule(R, "Drop of every owning type reaches drop_in_place on its own buffer")
    for adt, what in OWNER_DROPS:
        did = P.drop_impl.get(adt)
        if not ctx.need(did is not None, R, f"Drop impl for {adt}"):
            continue
        parents = P.reach_fns([did], opaque_traits=("alloc::Allocator",))
        hit = None
        for st in parents:
            bb = P.body(st[0])
            if bb is None:
                continue
            for s, t in bb.calls():
                if t["f"].get("name") == "drop_in_place" and t["f"].get("krate") == "core":
                    hit = (bb, s, t)
            for s, t in bb.drops():
                if "bump_box::BumpBox<" in t["ty"] or "IntoIter" in t["ty"]:
                    hit = hit or (bb, s, t)
        ok = hit is not None
        desc = "?"
        if ok:
            bb, s, t = hit
            desc = f"reaches {t.get('f', {}).get('path', 'drop of ' + t.get('ty', '?'))} in {bb.path}"
            if t.get("f"):
                a = bb.prov_operand(t["args"][0], s)
                ok = mentions_param(a, 1) or st[0] != did
                desc += f" on {show(a)[:80]}"
        ctx.inst(R, adt, ok, "Drop " + desc if ok else "Drop of the owner never drops its elements (leak) or drops something else",
                 where=P.body(did).where(), site="drop glue")


def owner_adts(P):
    """ADTs whose Drop impl reaches drop_in_place (they own elements)."""
    out = set()
    for adt, did in P.drop_impl.items():
        parents = P.reach_fns([did], opaque_traits=("alloc::Allocator",))
        for st in parents:
            bb = P.body(st[0])
            if bb is not None and any(t["f"].get("name") == "drop_in_place" and t["f"].get("krate") == "core" for s, t in bb.calls()):
                out.add(adt)
                break
    return out


def r5_double_accounting(ctx, P):
    R = "C06.R5"
    ctx.rule(R, "no path drops the elements of an owning local explicitly (extent derived from that local) and then drops the local itself")
    owners = owner_adts(P)
    ctx.floor(R, "owning types (Drop reaches drop_in_place)", len(owners), 6)
    n = 0
    for b in coll_bodies(P):
        for ds, dt in b.drops():
            if b.is_cleanup(ds.bb) or dt["p"]["p"]:
                continue
            adts = [a for a in dt.get("adts", []) if a in owners]
            if not adts or (dt.get("adt") not in owners):
                continue
            L = dt["p"]["l"]
            if L <= b.argc and b.item["name"] == "drop":
                pass
            n += 1
            bad = []
            for s, t in b.calls():
                nm = t["f"].get("name")
                if nm not in ("set_len", "truncate", "drop_in_place", "dec_len", "inc_len"):
                    continue
                if not b.can_reach(s, ds) or b.is_cleanup(s.bb):
                    continue
                pl = b.prov_place({"l": L, "p": []}, s)
                if pl[0] in ("undef", "unknown", "param"):
                    continue
                for a in t["args"]:
                    av = b.prov_operand(a, s)
                    if expr_mentions(av, lambda x: x == pl) and expr_mentions(av, lambda x: x[0] == "call" and x[1].split("::")[-1] in ("len", "as_slice", "as_mut_slice")):
                        bad.append((nm, show(av)[:100]))
            nmv = b.locals[L].get("name") or f"_{L}"
            ctx.inst(R, b.path, not bad, f"owning local `{nmv}` ({dt['adt'].split('::')[-1]}) is dropped once; no explicit drop of its extent precedes it" if not bad else
                     f"the elements of `{nmv}` are dropped explicitly ({bad[0][0]}({bad[0][1]}) takes its extent from `{nmv}`) and `{nmv}` "
                     f"({dt['adt'].split('::')[-1]}, which drops its remaining elements) is dropped afterwards on the same path: double drop",
                     where=b.where(ds), site=f"drop of {nmv}")
    ctx.floor(R, "drops of owning locals examined", n, 10)


def r6_counted_per_iteration(ctx, P):
    R = "C06.R6"
    ctx.rule(R, "loops that write the result of user code (Clone::clone, Iterator::next, a closure) into spare capacity count each "
                "element before the next user call: every path from the raw write back to the user call passes a length update "
                "(inc_len / set_len / push_unchecked / store to len); otherwise a panicking callback leaves written elements outside "
                "the length (never dropped, or overwritten by the tail move-back). Bodies whose progress is tracked by a tabled "
                "guard (C06.R2) are exempt")
    LENUP = {"inc_len", "set_len", "push_unchecked", "push_mut_unchecked"}
    n = 0
    for b in coll_bodies(P):
        if any(re.search(prx, b.path) for prx, crx, g, why in GUARDED):
            continue
        users = [(s_, t, nm) for s_, t, nm in direct_user_sites(b) if not nm.startswith("drop") and b.can_reach(s_, s_, cleanup=False)]
        if not users:
            continue
        writes = [(s_, t) for s_, t in b.calls() if t["f"].get("name") == "write" and t["f"].get("krate") == "core" and b.can_reach(s_, s_, cleanup=False)]
        if not writes:
            continue
        lens = [s_.bb for s_, t in b.calls() if t["f"].get("name") in LENUP]
        lens += [s_.bb for s_, st in b.assigns() if st["p"]["p"] and isinstance(st["p"]["p"][-1], dict) and st["p"]["p"][-1].get("n") == "len"]
        k = 0
        for ws, wt in writes:
            for us, ut, nm in users:
                if not (b.can_reach(ws, us, cleanup=False) and b.can_reach(us, ws, cleanup=False)):
                    continue
                n += 1
                ok, _ = b.must_pass(ws, lens, exits=(us.bb,), cleanup=False)
                ctx.inst(R, b.path, ok, f"each result of `{nm}` is written and counted before `{nm}` runs again" if ok else
                         f"a path leads from the raw write of an element back to `{nm}` without updating the length: if the callback "
                         "panics then, the elements written so far are not part of the collection - they are never dropped (or are "
                         "overwritten when the tail is moved back)", where=b.where(ws), site=f"{nm} loop #{k} counts per iteration")
                k += 1
    ctx.floor(R, "callback/write loops without a guard", n, 4 if "nodefault" in (ctx.config or "") else 5)


def r7_forgotten_callback_results(ctx, P):
    R = "C06.R7"
    ctx.rule(R, "a value produced by user code (Clone::clone, a closure, an iterator) is not mem::forget-ten while more user "
                "code can still run in the same operation: a forgotten value has no owner, so if the next callback panics it "
                "is never dropped (zero-sized elements are 'stored' by forgetting them - they need the initializer/guard like "
                "sized ones)")
    n = nall = 0
    for b in P.fn_bodies():
        fs = [(s_, t) for s_, t in b.calls() if t["f"].get("path") == "core::mem::forget"]
        if not fs:
            continue
        nall += len(fs)
        users = [s_ for s_, t, nm in direct_user_sites(b) if not nm.startswith("drop")]
        for k, (s_, t) in enumerate(fs):
            v = b.prov_operand(t["args"][0], s_)
            made_by_user = expr_mentions(v, lambda x: x[0] == "call" and x[1] in USER_TRAITS)
            op = t["args"][0]
            if not made_by_user and op.get("k") in ("mv", "cp") and not op["p"]["p"]:
                # Clone::clone is transparent for provenance: look at the defining call itself
                for nd in b.reaching_defs(op["p"]["l"], s_):
                    d = b._defs[nd]
                    if d[2] == "call" and d[3]["f"].get("path") in USER_TRAITS and "param" in ((d[3]["f"].get("args") or [{}])[0]):
                        made_by_user = True
            if not made_by_user:
                continue
            n += 1
            later = [u for u in users if b.can_reach(s_, u, cleanup=False)]
            ok = not later
            ctx.inst(R, b.path, ok, "the forgotten callback result is the last user-produced value of the operation" if ok else
                     f"mem::forget({show(v)[:60]}) and then user code can run again ({len(later)} site(s), e.g. line "
                     f"{b.line_of(later[0])}): if that panics the forgotten value is lost - it is in no slice, no guard drops it",
                     where=b.where(s_), site=f"forget of callback result #{k}")
    ctx.inst(R, "mem::forget sites", True, f"{nall} mem::forget call(s) inspected, {n} of them forget a value produced by user code",
             site="population")
    ctx.floor(R, "mem::forget call sites inspected", nall, 5)


def r10_ranged_iter_and_retain_guard(ctx, P, R="C06.R10"):
    ctx.rule(R, "drain/extract ranges and the retain guard are exact: IntoIter::new_ranged covers `range.end - range.start` "
                "elements in both its arms; BumpBox<[T]>::retain advances the guard's read index past the element before that "
                "element is dropped (a panicking Drop must not see it restored into the slice)")
    # ---- new_ranged
    bs = [b for b in P.fn_bodies() if b.item["name"] == "new_ranged" and "owned_slice::into_iter::IntoIter" in b.path]
    if ctx.need(len(bs) == 1, R, "owned_slice::into_iter::IntoIter::new_ranged"):
        b = bs[0]
        z = b.calls_to(lambda f: f.get("name") == "new_zst")
        if ctx.need(len(z) == 1, R, "new_zst call in new_ranged"):
            s_, t = z[0]
            v = strip_casts(b.prov_operand(t["args"][0], s_))
            ok = v[0] == "bin" and v[1].startswith("Sub") and \
                expr_mentions(v[2], lambda x: x[0] == "field" and x[2] == "end") and expr_mentions(v[3], lambda x: x[0] == "field" and x[2] == "start")
            ctx.inst(R, b.path, ok, f"zero-sized arm: new_zst({show(v)})" if ok else
                     f"zero-sized arm: the iterator is sized {show(v)} instead of range.end - range.start: draining a range that does "
                     "not start at 0 yields / drops too many zero-sized values", where=b.where(s_), site="zst range length")
    # ---- retain guard
    bs = [b for b in P.fn_bodies() if b.item["name"] == "retain" and b.path.startswith("bump_box::BumpBox::<'a, [T]>::")]
    if ctx.need(len(bs) == 1, R, "BumpBox<[T]>::retain"):
        b = bs[0]
        aggs = [(s_, st) for s_, st in b.assigns() if st["r"]["k"] == "agg" and st["r"].get("adt", "").endswith("PanicGuard")]
        drops = [(s_, t) for s_, t in b.calls() if t["f"].get("name") == "drop_in_place"]
        if ctx.need(len(aggs) == 1 and drops, R, "PanicGuard construction and drop_in_place in retain"):
            gs, gst = aggs[0]
            fn = gst["r"]["fnames"]
            rd = strip_casts(b.prov_operand(gst["r"]["fields"][fn.index("read")], gs))
            wr = strip_casts(b.prov_operand(gst["r"]["fields"][fn.index("write")], gs))
            # first drop after the guard construction that is not inside the loop
            first = [d for d in drops if b.dominates(gs, d[0]) and not b.can_reach(d[0], d[0], cleanup=False)]
            ok = rd[0] == "bin" and rd[1].startswith("Add") and strip_casts(rd[3]) == ("int", 1, "usize") and strip_casts(rd[2]) == wr
            ok = ok and bool(first)
            if ok:
                # the read field is not stepped again between the construction and that first drop... and not right after it
                stores = [x for x, st in b.assigns() if st["p"]["p"] and any(isinstance(pe, dict) and pe.get("n") == "read" for pe in st["p"]["p"])
                          and not b.can_reach(x, x, cleanup=False)]
                ok = not stores
            ctx.inst(R, b.path, ok, "guard { read: i + 1, write: i } is in place before element i is dropped" if ok else
                     f"the guard is built with read = {show(rd)[:40]} (write = {show(wr)[:30]}) and stepped around the first drop: if that "
                     "element's Drop panics the guard treats it as still alive - it stays in the slice and is dropped again", where=b.where(gs),
                     site="retain guard skips the dropped element")


def r11_dedup_protocol(ctx, P, R="C06.R11"):
    ctx.rule(R, "dedup_by (std's protocol): the duplicate is dropped only after gap.read was advanced past it (a panicking Drop must "
                "not leave it inside the range the guard restores), and the predicate compares the candidate with the last *retained* "
                "element (slot gap.write - 1), not with its original neighbour")
    bs = [b for b in P.fn_bodies() if b.item["name"] == "dedup_by" and b.path.startswith("bump_box::BumpBox::<'a, [T]>::")]
    if not ctx.need(len(bs) == 1, R, "BumpBox<[T]>::dedup_by"):
        return
    b = bs[0]
    drops = [(s_, t) for s_, t in b.calls() if t["f"].get("name") == "drop_in_place"]
    rd_stores = [x for x, st in b.assigns() if st["p"]["p"] and any(isinstance(pe, dict) and pe.get("n") == "read" for pe in st["p"]["p"])]
    preds = [(s_, t) for s_, t in b.calls() if t["f"].get("path") == "core::ops::FnMut::call_mut"]
    if ctx.need(bool(drops) and bool(rd_stores) and len(preds) == 1, R, "drop_in_place, gap.read stores and the predicate call in dedup_by"):
        ds = drops[0][0]
        ok = any(b.dominates(x, ds) and b.dominates(preds[0][0], x) for x in rd_stores)
        ctx.inst(R, b.path, ok, "gap.read is advanced between the predicate and the drop of the duplicate" if ok else
                 "the duplicate is dropped before gap.read is advanced: if its Drop panics, the guard copies it back into the slice and "
                 "it is dropped a second time with the owner", where=b.where(ds), site="read advanced before drop")
        ps, pt = preds[0]

        def gap_fields(local, seen):
            """Names of the gap struct's fields that flow (through single-assignment temporaries) into `local`."""
            if local in seen:
                return set()
            seen.add(local)
            out = set()

            def of_place(pl):
                named = [pe.get("n") for pe in pl["p"] if isinstance(pe, dict) and pe.get("n") in ("read", "write")]
                if named:
                    out.add(named[0])
                else:
                    out.update(gap_fields(pl["l"], seen))

            def of_op(o):
                if isinstance(o, dict) and o.get("k") in ("cp", "mv"):
                    of_place(o["p"])

            for _, st in b.assigns():
                if st["p"]["l"] == local and not st["p"]["p"]:
                    r = st["r"]
                    for k in ("o", "a", "b"):
                        of_op(r.get(k))
                    for o in r.get("fields", []) or []:
                        of_op(o)
                    if isinstance(r.get("p"), dict):
                        of_place(r["p"])
            for _, t in b.calls():
                if t["dest"]["l"] == local and not t["dest"]["p"]:
                    for o in t["args"]:
                        of_op(o)
            return out

        tup = pt["args"][1]["p"]["l"]
        comps = []
        for _, st in b.assigns():
            if st["p"]["l"] == tup and not st["p"]["p"] and st["r"].get("k") == "agg":
                comps = [gap_fields(o["p"]["l"], set()) for o in st["r"].get("fields", []) if o.get("k") in ("cp", "mv")]
        ok2 = len(comps) == 2 and comps[0] == {"read"} and comps[1] == {"write"}
        ctx.inst(R, b.path, ok2, "same_bucket(slot[read], slot[write - 1])" if ok2 else
                 f"the predicate's arguments are computed from gap fields {comps}: the candidate (slot read) must be compared with the last "
                 "retained element (slot write - 1); comparing with its original neighbour changes the result for merging / non-transitive predicates",
                 where=b.where(ps), site="compares with the retained element")


def run(ctx, progs):
    ctx.assume("rustc's drop elaboration: a moved value is not dropped again; unwind edges and drop flags are as in MIR")
    ctx.assume("user code = calls of foreign-trait methods on type parameters (closures, Clone, PartialEq, Iterator) and drops of "
               "parameter-typed values, directly or through local helpers/closures (transitive closure over the call graph)")
    for lab, P in progs:
        ctx.config = lab
        r1_len_before_drop(ctx, P)
        r2_guards(ctx, P)
        r2b_extract_if(ctx, P)
        r3_handover(ctx, P)
        r4_owners_drop(ctx, P)
        r5_double_accounting(ctx, P)
        r6_counted_per_iteration(ctx, P)
        r7_forgotten_callback_results(ctx, P)
        r10_ranged_iter_and_retain_guard(ctx, P)
        r11_dedup_protocol(ctx, P)
        from . import c08
        c08.r7_drain_keep_rest(ctx, P, R="C06.R8")
        from . import c16
        c16.r5_merge_consumes_operands(ctx, P, R="C06.R9")
    ctx.config = None
