"""C15 — exclusive-borrow collections use free space without moving the pointer."""
import re
from ..ir import show, phi_alts, walk_expr, expr_mentions, Site, RET, UNW
from ..sym import Sym, Unanalysable, affine, specialise, Affine, subst
from .common import *
from .poswrite import *

EXPLANATION = (
    "Static rules over polymorphic MIR. C15.R1: bodies of MutBumpVec, MutBumpVecRev, MutBumpString, the prepared-"
    "allocation helpers of RawFixedBumpVec/RawFixedBumpString and the *_mut helpers call, of all allocator-interface "
    "methods, only (try_)prepare_slice_allocation(_rev), the statistics accessors and - only in the finalisers "
    "(into_slice_ptr) - allocate_prepared_slice(_rev); tabled exceptions: the args.as_str() fast path of the fmt helpers "
    "(control dependent on Some) and alloc_try_with_mut (prepare, then commit or rewind after the closure). C15.R2: from "
    "the prepare primitives no position write is reachable except the reset of a later chunk inside the slow path. "
    "C15.R3: the Drop glue of the three types reaches no allocator method. C15.R4 (= C01.R5): prepared commits in "
    "affine normal form: returned block and new position relative to the prepared range, copy source/destination/count, "
    "for up/down and forward/reverse; growth re-prepares and copies len elements. Not decided: the numbers.")

BASE_ALLOC = ("alloc::Allocator",)   # calls on the base allocator type parameter: another object, opaque
MUT_TYPES = ("mut_bump_vec::MutBumpVec<", "mut_bump_vec_rev::MutBumpVecRev<", "mut_bump_string::MutBumpString<")
ALLOC_TRAITS = ("traits::bump_allocator_core::BumpAllocatorCore", "traits::bump_allocator_typed::BumpAllocatorTyped",
                "traits::mut_bump_allocator_typed::MutBumpAllocatorTyped", "alloc::Allocator",
                "traits::bump_allocator_core_scope::BumpAllocatorCoreScope", "traits::bump_allocator_typed_scope::BumpAllocatorTypedScope",
                "traits::mut_bump_allocator_typed_scope::MutBumpAllocatorTypedScope", "traits::bump_allocator::BumpAllocator",
                "traits::bump_allocator_scope::BumpAllocatorScope", "traits::mut_bump_allocator_core::MutBumpAllocatorCore")
EB_ALLOC_HELPERS = {"allocate_layout", "allocate_sized", "allocate_slice", "prepare_slice_allocation", "prepare_slice_allocation_rev"}
ALLOWED = {"prepare_slice_allocation", "prepare_slice_allocation_rev", "try_prepare_slice_allocation",
           "try_prepare_slice_allocation_rev", "typed_stats", "any_stats", "stats", "is_claimed", "checkpoint"}
COMMIT = {"allocate_prepared_slice", "allocate_prepared_slice_rev"}
FINALISERS = {"into_slice_ptr"}
FMT_HELPERS = {"alloc_fmt_mut", "try_alloc_fmt_mut", "alloc_cstr_fmt_mut", "try_alloc_cstr_fmt_mut"}
FMT_FAST = {"alloc_str", "try_alloc_str", "alloc_cstr_from_str", "try_alloc_cstr_from_str"}
MUT_HELPERS = {"alloc_iter_mut", "try_alloc_iter_mut", "alloc_iter_mut_rev", "try_alloc_iter_mut_rev"} | FMT_HELPERS


def is_alloc_iface_call(f):
    tr = f.get("trait") or ""
    if tr in ALLOC_TRAITS or (tr.endswith("::Allocator") and f.get("krate") != "bump_scope"):
        return True
    if tr == "error_behavior::ErrorBehavior" and f.get("name") in EB_ALLOC_HELPERS:
        return True
    return False


def mut_bodies(P):
    """[(body, kind)] kind in type/raw/helper"""
    out = []
    for b in P.fn_bodies():
        outer = P.outermost_fn(b.item)
        impl = P.impl_of_item.get(outer["id"])
        st = impl["self_ty"] if impl else ""
        if st.startswith(MUT_TYPES):
            out.append((b, "type"))
        elif st.startswith("fixed_bump_vec::raw::RawFixedBumpVec<") and outer["name"] in ("prepare_allocation", "grow_prepared_allocation"):
            out.append((b, "raw"))
        elif st.startswith("fixed_bump_string::raw::RawFixedBumpString") and outer["name"] in ("prepare_allocation",):
            out.append((b, "raw"))
        elif outer["name"] in MUT_HELPERS and outer["path"].startswith("traits::mut_bump_allocator_typed_scope::MutBumpAllocatorTypedScope::"):
            out.append((b, "helper"))
    return out


def r1_interface(ctx, P):
    R = "C15.R1"
    ctx.rule(R, "Mut* collections and *_mut helpers use only the prepare/commit interface; commit only in finalisers")
    mbs = mut_bodies(P)
    ctx.floor(R, "bodies of the exclusive-borrow collections and helpers", len(mbs), 150)
    n = 0
    n_commit = 0
    for b, kind in mbs:
        outer = P.outermost_fn(b.item)
        for s, t in b.calls():
            f = t["f"]
            if "path" not in f or not is_alloc_iface_call(f):
                continue
            nm = f["name"]
            # collection-level methods of the same name on the collection itself are not allocator calls
            n += 1
            if nm in ALLOWED:
                ok, why = True, "prepare/statistics interface"
            elif nm in COMMIT:
                ok = outer["name"] in FINALISERS
                why = "commit in a finaliser" if ok else f"commit outside a finaliser ({outer['name']})"
                n_commit += 1
            elif outer["name"] in FMT_HELPERS and nm in FMT_FAST:
                ve = b.variant_edges(lambda e: e[0] == "call" and e[1].endswith("Arguments::<'a>::as_str"))
                ok = b.controlled_by(s, ve.get("Some", []), cleanup=False)
                why = "args.as_str() fast path (final contents allocated directly)" if ok else "direct allocation outside the as_str() fast path"
            else:
                ok, why = False, "moves the bump position while the collection is being filled"
            ctx.inst(R, b.path, ok, f"{f['path'].split('::')[-2]}::{nm}: {why}", where=b.where(s), site=f"{nm}")
    # transitively: local helper functions (not themselves Mut bodies, not allocator-trait methods) called from Mut bodies
    mut_ids = {b.id for b, _ in mbs}
    seen = set()
    work = []
    for b, kind in mbs:
        for s, t in b.calls():
            f = t["f"]
            if f.get("local") and not f.get("trait") and f.get("id") not in mut_ids and f.get("id") in P.raw_bodies:
                work.append((f["id"], b.path, 1))
    nh = 0
    while work:
        fid, root, depth = work.pop()
        if fid in seen:
            continue
        seen.add(fid)
        hb = P.body(fid)
        for s, t in hb.calls():
            f = t["f"]
            if "path" not in f:
                continue
            if is_alloc_iface_call(f):
                nm = f["name"]
                nh += 1
                ok = nm in ALLOWED
                ctx.inst(R, hb.path, ok, f"helper reached from {root}: {f['path'].split('::')[-2]}::{nm}" +
                         ("" if ok else " — an allocating/position-moving call on behalf of an exclusive-borrow collection"),
                         where=hb.where(s), site=f"helper {nm}")
            elif f.get("local") and not f.get("trait") and f.get("id") not in mut_ids and f.get("id") in P.raw_bodies and depth < 4:
                work.append((f["id"], root, depth + 1))
    ctx.inst(R, "helpers", True, f"{len(seen)} local helper functions reachable from the Mut* bodies examined ({nh} allocator-interface calls)", site="helper summary")
    ctx.floor(R, "allocator-interface calls in those bodies", n, 10)
    ctx.floor(R, "commit calls (finalisers)", n_commit, 2)
    # alloc_try_with_mut: prepare, closure, then commit/rewind
    bs = [b for b in P.fn_bodies() if b.item["name"] == "generic_alloc_try_with_mut"]
    if ctx.need(len(bs) == 1, R, "generic_alloc_try_with_mut"):
        b = bs[0]
        D = PosDiscipline(P)
        users = [(s, t) for s, t in b.calls() if t["f"].get("name") == "write_with"]
        prep = b.calls_to(lambda f: f.get("name") == "prepare_sized_allocation")
        writes = [pw for pw in D.external_sites() if pw.body.id == b.id]
        rts = b.calls_to(lambda f: f.get("name") == "reset_to")
        ok = bool(users) and bool(prep) and bool(writes) and all(b.dominates(users[0][0], pw.site) for pw in writes) and \
            all(b.dominates(users[0][0], s) for s, _ in rts) and not b.calls_to(lambda f: f.get("name") in ("alloc_sized", "generic_alloc_uninit", "alloc"))
        ctx.inst(R, b.path, ok, "uses prepare_sized_allocation; the position is written only after the closure ran (commit) or "
                 "rewound (Err)" if ok else "alloc_try_with_mut moves the position before the closure ran", where=b.where(), site="prepare then commit")


def r2_prepare_never_writes(ctx, P, D):
    R = "C15.R2"
    ctx.rule(R, "no position write is reachable from the prepare primitives except resetting a later chunk in the slow path")
    roots = [i["id"] for i in P.facts["items"] if i["kind"] in ("Fn", "AssocFn") and i["id"] in P.raw_bodies and
             re.match(r"raw_bump::(RawBump|RawChunk)::<A, S>::prepare_", i["path"])]
    ctx.floor(R, "prepare primitives", len(roots), 6)
    fam = set(D.family) | set(D.primary)

    def edge_filter(src, dst, kind, site):
        si, di = P.items.get(src), P.items.get(dst)
        if si and di and si["name"] == "in_another_chunk" and di["name"] == "reset" and "NonDummyChunk" in di["path"]:
            return False
        # the allocation callback is a parameter: RawChunk::alloc is never passed from a prepare root (checked below)
        return True
    parents = P.reach_fns(roots, edge_filter=edge_filter, opaque_traits=BASE_ALLOC)
    hits = [st for st in parents if st[0] in fam]
    for st in hits:
        chain = " -> ".join(p for p, _ in P.path_to(parents, st))
        ctx.inst(R, P.items[st[0]]["path"], False, f"a position write is reachable from a prepare primitive: {chain}", site="reachable")
    ctx.inst(R, "prepare call graph", not hits, f"{len(parents)} functions reachable from {len(roots)} prepare primitives; no position "
             "writer except the lazy reset of a later chunk", site="summary")
    # positive control: with the excluded edge the writer IS reachable (the exception is real, not vacuous)
    parents2 = P.reach_fns(roots, opaque_traits=BASE_ALLOC)
    ctx.inst(R, "prepare call graph", any(st[0] in fam for st in parents2), "control: through in_another_chunk -> NonDummyChunk::reset "
             "the writer family is reachable (later empty chunk becomes current)", site="control")


def r3_drop_glue(ctx, P):
    R = "C15.R3"
    ctx.rule(R, "dropping (or unwinding out of) MutBumpVec / MutBumpVecRev / MutBumpString reaches no allocator method")
    for adt in ("mut_bump_vec::MutBumpVec", "mut_bump_vec_rev::MutBumpVecRev", "mut_bump_string::MutBumpString"):
        if not ctx.need(adt in P.adts, R, f"ADT {adt}"):
            continue
        a = P.adts[adt]
        gen = "<" + ", ".join(g["name"] for g in a["generics"]) + ">" if a["generics"] else ""
        targets = P.drop_targets(adt + gen)
        parents = P.reach_fns(targets) if targets else {}
        bad = []
        for st in parents:
            bb = P.body(st[0])
            if bb is None:
                continue
            for s, t in bb.calls():
                if "path" in t["f"] and is_alloc_iface_call(t["f"]):
                    bad.append(f"{bb.path} -> {t['f']['path']}")
        ctx.inst(R, adt, not bad, f"drop glue ({len(targets)} Drop impl(s), {len(parents)} reachable functions) calls no allocator method"
                 if not bad else f"drop glue reaches {bad[:3]}", site="drop glue")


def elem_T(call):
    ty = call[3][0] if call[3] else "?"
    if ty == "u8":
        return Affine({}, 1)
    return Affine({("sizeof", ty): 1})


def r4_commit_forms(ctx, P, D, R="C15.R4"):
    ctx.rule(R, "prepared commits: returned block, new position and copy in affine form relative to the prepared range")
    S = Sym(P, inline_depth=2, opaque_names={"set_pos_addr_and_align", "set_pos_addr_and_align_from", "as_non_dummy_unchecked"})
    # expected forms: (fn name) -> {up: (ret_ptr, pos, copy(src,dst,count)|None), down: ...}
    # slice variants: params (self, start|end, len, cap) ; T sized by sizeof atom
    def A(**kw):
        return kw
    n = 0
    for nm in ("allocate_prepared_slice", "allocate_prepared_slice_rev", "allocate_prepared", "allocate_prepared_rev"):
        bs = [b for b in P.fn_bodies() if b.item["name"] == nm and b.path.startswith("<bump_scope::BumpScope<")]
        if not ctx.need(len(bs) == 1, R, f"BumpScope::{nm}"):
            continue
        b = bs[0]
        up_t, up_f = b.cond_edges(lambda e: True if (e[0] == "assoc_const" and e[2] == "UP") else None)
        slice_v = "slice" in nm
        rev = nm.endswith("_rev")
        if slice_v:
            p = ("param", 2, b.locals[2].get("name"))
            ln = ("param", 3, b.locals[3].get("name"))
            cap = ("param", 4, b.locals[4].get("name"))
            tys = b.locals[2]["ty"]
            m = re.match(r"core::ptr::NonNull<(.*)>$", tys)
            szT = Affine({("sizeof", m.group(1) if m else "T"): 1})
            LEN = _mulA(Affine({ln: 1}), szT)
            CAP = _mulA(Affine({cap: 1}), szT)
            if not rev:
                START = Affine({p: 1})
                END = START + CAP
            else:
                END = Affine({p: 1})
                START = END - CAP
            count_exp = Affine({ln: 1})
        else:
            rng = ("param", 3, b.locals[3].get("name"))
            lay = ("param", 2, b.locals[2].get("name"))
            START = Affine({("field", rng, "start", "core::ops::Range"): 1})
            END = Affine({("field", rng, "end", "core::ops::Range"): 1})
            LEN = Affine({("call", "core::alloc::Layout::size", (("ref", lay),), (), (0,)): 1})
            count_exp = LEN

        def norm(e):
            def fn(x):
                if x[0] == "call" and x[1] == "core::alloc::Layout::size":
                    return ("call", x[1], x[2], (), (0,))
                if x[0] == "call" and len(x) > 4:
                    return (x[0], x[1], x[2], x[3], (0,))
                return None
            return subst(e, fn)

        # expectations per arm
        for up in (True, False):
            if not rev:
                # data was written from START upwards
                ret = START if up else END - LEN
                src = None if up else START
            else:
                # data was written from END downwards
                ret = START if up else END - LEN
                src = (END - LEN) if up else None
            pos = ret + LEN if up else ret
            arm = "up" if up else "down"
            edges = up_t if up else up_f
            ws = [pw for pw in D.external_sites() if pw.body.id == b.id and b.controlled_by(pw.site, edges, cleanup=False)]
            ok = len(ws) == 1
            got_pos = affine(norm(ws[0].value()), elem_T) if ok else None
            okp = ok and got_pos == pos
            n += 1
            ctx.inst(R, b.path, okp, f"{arm}: new position = {got_pos!r}; expected {pos!r} (bump-side end of the block)",
                     where=b.where(ws[0].site) if ok else b.where(), site=f"{arm} position")
            cps = [c for c in copy_sites(b) if b.controlled_by(c.site, edges, cleanup=False)]
            if src is None:
                ctx.inst(R, b.path, not cps, f"{arm}: data already sits at the bump side, no copy" if not cps else
                         f"{arm}: unexpected copy", where=b.where(), site=f"{arm} copy")
            else:
                okc = len(cps) == 1
                if okc:
                    c = cps[0]
                    gs, gd, gc = affine(norm(c.prov("src")), elem_T), affine(norm(c.prov("dst")), elem_T), affine(norm(c.prov("count")), elem_T)
                    okc = gs == src and gd == ret and gc == count_exp and not c.nonoverlapping
                    desc = f"{arm}: copy(src = {gs!r}, dst = {gd!r}, count = {gc!r}, memmove = {not c.nonoverlapping}); expected src = {src!r}, dst = {ret!r}, count = {count_exp!r}"
                else:
                    desc = f"{arm}: expected exactly one copy, found {len(cps)}"
                ctx.inst(R, b.path, okc, desc, where=b.where(cps[0].site) if cps else b.where(), site=f"{arm} copy")
        # returned block per arm via the evaluator
        try:
            e = S.ret(b.id)
            for up in (True, False):
                sp = specialise(e, lambda c: (1 if up else 0) if (c[0] == "assoc_const" and c[2] == "UP") else None)
                retp = sp
                if slice_v:
                    # NonNull::slice_from_raw_parts(ptr, len)
                    cands = [x for x in walk_expr(sp) if x[0] == "call" and x[1].endswith("slice_from_raw_parts")]
                    okr = len(cands) >= 1
                    if okr:
                        gp, gl = affine(norm(cands[0][2][0]), elem_T), affine(norm(cands[0][2][1]), elem_T)
                        expp = START if up else END - LEN
                        okr = gp == expp and gl == Affine({ln: 1})
                        desc = f"{'up' if up else 'down'}: returns (ptr = {gp!r}, len = {gl!r}); expected ptr = {expp!r}, len = {ln[2]}"
                    else:
                        desc = "no slice_from_raw_parts in the return value"
                else:
                    gp = affine(norm(sp), elem_T)
                    expp = START if up else END - LEN
                    okr = gp == expp
                    desc = f"{'up' if up else 'down'}: returns {gp!r}; expected {expp!r}"
                ctx.inst(R, b.path, okr, desc, where=b.where(), site=f"{'up' if up else 'down'} returned block")
        except Unanalysable as ex:
            ctx.inst(R, b.path, False, f"not analysable: {ex}", where=b.where(), site="avn")
    ctx.floor(R, "commit position forms", n, 8)
    # growth re-prepares and copies len elements
    g = [b for b in P.fn_bodies() if b.item["name"] == "grow_prepared_allocation" and "RawFixedBumpVec" in b.path]
    if ctx.need(len(g) == 1, R, "RawFixedBumpVec::grow_prepared_allocation"):
        b = g[0]
        cps = copy_sites(b)
        ok = len(cps) == 1
        if ok:
            c = cps[0]
            cnt, src, dst = c.prov("count"), c.prov("src"), c.prov("dst")
            ok = expr_mentions(cnt, lambda x: x[0] == "call" and x[1].split("::")[-1] == "len") and mentions_param(src, 1) and \
                expr_mentions(dst, lambda x: x[0] == "call" and x[1].split("::")[-1] == "prepare_slice_allocation")
            desc = f"copy(src = {show(src)}, dst = {show(dst)}, count = {show(cnt)})"
        else:
            desc = f"{len(cps)} copies"
        ctx.inst(R, b.path, ok, "growth: " + desc, where=b.where(), site="grow copy")
    g = [b for b in P.fn_bodies() if b.item["name"] == "generic_grow_to" and "MutBumpVecRev" in b.path]
    if ctx.need(len(g) == 1, R, "MutBumpVecRev::generic_grow_to"):
        b = g[0]
        cps = copy_sites(b)
        ok = len(cps) == 1
        if ok:
            c = cps[0]
            cnt, src, dst = c.prov("count"), c.prov("src"), c.prov("dst")
            # dst = new_end - len (in elements): affine form  1*<prepared end> - 1*(len * sizeof T), count = len
            ad = affine(dst, elem_T)
            ac = affine(cnt, elem_T)
            pos_terms = [k for k, v in ad.terms.items() if v == 1]
            neg_terms = [k for k, v in ad.terms.items() if v == -1]
            ok = len(ad.terms) == 2 and len(pos_terms) == 1 and len(neg_terms) == 1 and ad.const == 0 and \
                expr_mentions(pos_terms[0], lambda x: x[0] == "call" and x[1].split("::")[-1] == "prepare_slice_allocation_rev") and \
                neg_terms[0][0] == "mul" and any(x[0] == "sizeof" for x in neg_terms[0][1:]) and \
                any(strip_ref(x)[0] == "field" and strip_ref(x)[2] == "len" for x in neg_terms[0][1:]) and \
                len(ac.terms) == 1 and ac.const == 0 and all(strip_ref(k)[0] == "field" and strip_ref(k)[2] == "len" and v == 1 for k, v in ac.terms.items())
            desc = f"copy(src = {show(src)}, dst = {show(dst)}, count = {show(cnt)})"
        else:
            desc = f"{len(cps)} copies"
        ctx.inst(R, b.path, ok, "reverse growth: " + desc, where=b.where(), site="grow copy rev")


def r5_direction_after_prepare(ctx, P, R="C15.R5"):
    ctx.rule(R, "type-erased paths read the bump direction from the current chunk header (is_upwards_allocating); that is the "
                "static dummy header - with the opposite geometry - until the allocator has a chunk, so every such query is "
                "dominated by the success edge of a prepare_allocation(_rev) / allocate call in the same function")
    n = 0
    for b in P.fn_bodies():
        qs = b.calls_to(lambda f: f.get("name") == "is_upwards_allocating" and "for_trait_object" in f.get("path", ""))
        if not qs:
            continue
        ve = b.variant_edges(lambda e: e[0] == "call" and e[1].split("::")[-1] in
                             ("prepare_allocation", "prepare_allocation_rev", "allocate"))
        oke = ve.get("Ok", [])
        for k, (s, t) in enumerate(qs):
            n += 1
            ok = b.controlled_by(s, oke, cleanup=False)
            ctx.inst(R, b.path, ok, "direction is queried after a successful prepare/allocate (a real chunk exists)" if ok else
                     "is_upwards_allocating is called before the prepare/allocate call succeeded: on a still unallocated arena it "
                     "reads the dummy header and reports the wrong direction, so the buffer is anchored at the wrong end of the "
                     "free range (padding before the committed block)", where=b.where(s), site=f"direction query #{k}")
    ctx.floor(R, "direction queries on type-erased paths", n, 2)


def _mulA(a, b):
    from ..sym import _mul
    return _mul(a, b)


def run(ctx, progs):
    ctx.assume("rustc nightly's type checker, MIR construction and trait resolution are correct")
    ctx.assume("affine value numbering: pointer add/sub scaled by the symbolic pointee size; calls uninterpreted")
    for lab, P in progs:
        ctx.config = lab
        D = PosDiscipline(P)
        r1_interface(ctx, P)
        r2_prepare_never_writes(ctx, P, D)
        r3_drop_glue(ctx, P)
        r4_commit_forms(ctx, P, D)
        r5_direction_after_prepare(ctx, P)
        from . import c17
        c17.r2_forwarding_impls(ctx, P, R="C15.R6")
        from . import c12 as _c12
        _c12.r6_prepare_pads_layout(ctx, P, R="C15.R7")
        from . import stale
        stale.rule(ctx, P, "C15.R8", ("mut_bump_vec::MutBumpVec<", "mut_bump_vec_rev::MutBumpVecRev<", "mut_bump_string::MutBumpString<"), 8, 10)
    ctx.config = None
