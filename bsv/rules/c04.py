"""C04 — references into a scope cannot outlive it in safe code (oracle: rustc on a generated witness corpus)."""
import os, re, time, json, hashlib
from ..ir import show, phi_alts, walk_expr, expr_mentions
from .. import witness as W
from ..core import REPORTS_DIR
from .common import *

LEVEL = "exploration"
EXPLANATION = (
    "The property quantifies over safe programs; the decision procedure for one program is rustc's borrow checker, "
    "trait solver and const evaluator. A generator builds the product producers x handles x escape routes (plus "
    "Send/Sync and settings-conversion witnesses); each witness must be rejected with an expected diagnostic inside its "
    "own function, and its twin - the same code with the offending step moved or removed - must be accepted, so that a "
    "rejection measures the lifetime discipline and not a typo. Everything is compiled against the rlib built from "
    "/repo's working tree in this run. Supporting MIR rules: C04.R1 every unsafe impl Send/Sync carries the bounds of "
    "its payload; C04.R2 the functions that launder a lifetime through unsafe are enumerated and every public one is "
    "exercised by the corpus; C04.R3 every lifetime in the return type of a safe function is anchored in its arguments "
    "(type-level, from the resolved signatures); C04.R4 a by-value handle argument keeps its lifetime in a handle-returning "
    "function; C04.R5 every impl of a …Scope<'a> marker trait anchors 'a in Self or in a …Scope<'a> bound. Not decided: programs outside the generated grammar; unsafe callers.")
EXPLORATION_RULE = (
    "one evaluation = one generated program function judged by rustc (witnesses must be rejected, twins accepted); "
    "distinct = distinct (escape route, handle, producer) triples; non-trivial = the twin of the witness compiles, i.e. "
    "the rejection is caused by the escaping step alone")


class HarnessBroken(Exception):
    pass


def judge_named(ctx, h, R, items, codes, site, tag, what):
    """items: [(name, witness body, twin body)]: twins must compile, witnesses must be rejected with one of `codes`."""
    if not items:
        return 0
    tw = [(f"{tag}{i:02d}_twin", tb) for i, (n, wb, tb) in enumerate(items)]
    ws = [(f"{tag}{i:02d}", wb) for i, (n, wb, tb) in enumerate(items)]
    src, ranges = W.render(tw)
    p = os.path.join(h.scratch, f"{tag}_twins.rs")
    open(p, "w").write(src)
    rc, diags = h.rustc(p)
    if rc != 0 or diags:
        raise HarnessBroken(f"CONTROL-BROKEN: {tag} twins do not compile: {[(d['code'], d['msg'][:100]) for d in diags[:3]]}")
    src, ranges = W.render(ws)
    p = os.path.join(h.scratch, f"{tag}_witnesses.rs")
    open(p, "w").write(src)
    rc, diags = h.rustc(p)
    per, outside = W.judge(diags, ranges)
    if outside:
        raise HarnessBroken(f"CONTROL-BROKEN: diagnostics outside any {tag} witness: {[(d['code'], d['msg'][:100]) for d in outside[:3]]}")
    for i, (n, wb, tb) in enumerate(items):
        classes = per.get(f"{tag}{i:02d}", [])
        if classes and not (set(classes) & codes):
            raise HarnessBroken(f"CONTROL-BROKEN: {tag} witness `{n}` fails with unexpected {classes}")
        ok = bool(set(classes) & codes)
        ctx.inst(R, n, ok, f"rejected by rustc: {sorted(set(classes))}; twin accepted" if ok else
                 f"this program COMPILES: {what}\n" + wb, site=site, detail=None if ok else {"witness_source": wb, "twin_source": tb})
    return 2 * len(items)


def run_pool_subset(ctx, tier, R="C19.W"):
    """The pool-related part of the corpus, evaluated (and reported) under C19."""
    ctx.rule(R, "pool witnesses: allocations and handles obtained through a pool guard cannot outlive pool.reset()/drop, Stats "
                "cannot outlive the guard, Send/Sync of pool and guard follow the base allocator (rustc as oracle, twins accepted)")
    h = W.Harness()
    try:
        try:
            h.build_rlib()
        except RuntimeError as e:
            raise HarnessBroken(str(e))
        corpus = [w for w in W.build_corpus(tier) if w.handle.startswith("pool")]
        n = judge_named(ctx, h, R, [(f"{w.route} / {w.handle}", w.body, w.twin) for w in corpus], W.BORROW_CODES, "borrow witness", "pw",
                        "a reference into a pooled arena survives the point where the pool may reuse that memory")
        n += judge_named(ctx, h, R, W.POOL_WITNESSES, W.BORROW_CODES, "pool witness", "pp",
                         "a handle that observes a pooled arena outlives the guard / the pool is reset while guards are alive")
        ctx.extra["programs_judged"] = n
        ctx.floor(R, "pool witness programs", len(corpus) + len(W.POOL_WITNESSES), 10)
    finally:
        h.close()


def run_corpus(ctx, tier):
    R = "C04.W"
    ctx.rule(R, "every witness program is rejected by rustc with an expected diagnostic; every twin is accepted")
    h = W.Harness()
    stats = {"programs": 0}
    try:
        try:
            h.build_rlib()
        except RuntimeError as e:
            raise HarnessBroken(str(e))
        corpus = W.build_corpus(tier)
        byid = {w.wid: w for w in corpus}
        # ---- twins first: if they do not compile the corpus measures nothing
        src, ranges = W.render([(w.wid + "_twin", w.twin) for w in corpus])
        p = os.path.join(h.scratch, "twins.rs")
        open(p, "w").write(src)
        rc, diags = h.rustc(p)
        per, outside = W.judge(diags, ranges)
        bad = {k: v for k, v in per.items() if v}
        if bad or outside or rc != 0:
            k = next(iter(bad), None)
            raise HarnessBroken(f"CONTROL-BROKEN: {len(bad)} twin(s) do not compile (e.g. {k}: {bad.get(k)} "
                                f"{byid[k[:-5]].route if k else ''}); outside diagnostics: {[(d['code'], d['msg'][:80]) for d in outside[:3]]}")
        stats["programs"] += len(corpus)
        # ---- borrow witnesses
        src, ranges = W.render([(w.wid, w.body) for w in corpus])
        p = os.path.join(h.scratch, "witnesses.rs")
        open(p, "w").write(src)
        rc, diags = h.rustc(p)
        per, outside = W.judge(diags, ranges)
        if outside:
            raise HarnessBroken(f"CONTROL-BROKEN: diagnostics outside any witness: {[(d['code'], d['msg'][:100]) for d in outside[:3]]}")
        stats["programs"] += len(corpus)
        samples = []
        for w in corpus:
            classes = per.get(w.wid, [])
            wrong = [c for c in classes if c not in w.codes]
            if wrong and not (set(classes) & w.codes):
                raise HarnessBroken(f"CONTROL-BROKEN: witness {w.wid} ({w.route} / {w.handle}) fails with unexpected {classes}")
            ok = bool(set(classes) & w.codes)
            detail = None
            if not ok:
                detail = {"witness_source": w.body, "twin_source": w.twin}
            ctx.inst(R, f"{w.route} / {w.handle}", ok,
                     f"rejected by rustc: {sorted(set(classes))}; twin accepted" if ok else
                     "this program COMPILES although it keeps a reference into scope memory past the point where that memory may be "
                     "reused: \n" + w.body, site="borrow witness", detail=detail)
            if len(samples) < 6 and ok:
                samples.append({"route": w.route, "handle": w.handle, "program": w.body, "rustc": sorted(set(classes)), "twin": w.twin})
        # ---- owner-overwrite witnesses
        ow = [(f"o{i:02d}", wb) for i, (n, wb, tb) in enumerate(W.OWNER_WITNESSES)]
        ot = [(f"o{i:02d}_twin", tb) for i, (n, wb, tb) in enumerate(W.OWNER_WITNESSES)]
        src, ranges = W.render(ot)
        p = os.path.join(h.scratch, "owner_twins.rs")
        open(p, "w").write(src)
        rc, diags = h.rustc(p)
        if rc != 0 or diags:
            raise HarnessBroken(f"CONTROL-BROKEN: owner-overwrite twins do not compile: {[(d['code'], d['msg'][:100]) for d in diags[:3]]}")
        src, ranges = W.render(ow)
        p = os.path.join(h.scratch, "owner_witnesses.rs")
        open(p, "w").write(src)
        rc, diags = h.rustc(p)
        per, outside = W.judge(diags, ranges)
        if outside:
            raise HarnessBroken(f"CONTROL-BROKEN: diagnostics outside any owner-overwrite witness: {[(d['code'], d['msg'][:100]) for d in outside[:3]]}")
        stats["programs"] += 2 * len(ow)
        for i, (n, wb, tb) in enumerate(W.OWNER_WITNESSES):
            classes = per.get(f"o{i:02d}", [])
            if classes and not (set(classes) & W.BORROW_CODES):
                raise HarnessBroken(f"CONTROL-BROKEN: owner-overwrite witness `{n}` fails with unexpected {classes}")
            ok = bool(set(classes) & W.BORROW_CODES)
            ctx.inst(R, n, ok, f"rejected by rustc: {sorted(set(classes))}; twin accepted" if ok else
                     "this program COMPILES: safe code stores an owned BumpScope value into the storage of an owning arena; the same "
                     "chunks are then owned twice (double free) or borrowed memory changes its owner (use after free)\n" + wb,
                     site="owner-overwrite witness", detail=None if ok else {"witness_source": wb, "twin_source": tb})
        stats["programs"] += judge_named(ctx, h, R, W.POOL_WITNESSES, W.BORROW_CODES, "pool witness", "pp",
                                         "a handle that observes a pooled arena outlives the guard / the pool is reset while guards are alive")
        # ---- trait-bound witnesses
        fns = [(f"t{i:02d}", wb.replace("{{", "{").replace("}}", "}")) for i, (n, wb, tb) in enumerate(W.TRAIT_WITNESSES)]
        tw = [(f"t{i:02d}_twin", tb.replace("{{", "{").replace("}}", "}")) for i, (n, wb, tb) in enumerate(W.TRAIT_WITNESSES)]
        src, ranges = W.render(tw, W.NOTSEND)
        p = os.path.join(h.scratch, "trait_twins.rs")
        open(p, "w").write(src)
        rc, diags = h.rustc(p)
        if rc != 0 or diags:
            raise HarnessBroken(f"CONTROL-BROKEN: trait twins do not compile: {[(d['code'], d['msg'][:100]) for d in diags[:3]]}")
        src, ranges = W.render(fns, W.NOTSEND)
        p = os.path.join(h.scratch, "trait_witnesses.rs")
        open(p, "w").write(src)
        rc, diags = h.rustc(p)
        per, outside = W.judge(diags, ranges)
        if outside:
            raise HarnessBroken(f"CONTROL-BROKEN: diagnostics outside any trait witness: {[(d['code'], d['msg'][:100]) for d in outside[:3]]}")
        stats["programs"] += 2 * len(fns)
        for i, (n, wb, tb) in enumerate(W.TRAIT_WITNESSES):
            classes = per.get(f"t{i:02d}", [])
            if classes and not ({"E0277", "E0599"} & set(classes)):
                raise HarnessBroken(f"CONTROL-BROKEN: trait witness `{n}` fails with unexpected {classes}")
            ok = bool({"E0277", "E0599"} & set(classes))
            ctx.inst(R, n, ok, f"rejected by rustc: {sorted(set(classes))} (required trait bound not satisfied); twin accepted" if ok else
                     "this program COMPILES: a required trait bound (thread safety / scope marker) is missing\n" + wb, site="Send/Sync witness",
                     detail=None if ok else {"witness_source": wb})
        # ---- conversion witnesses (post-monomorphisation const assertions: need code generation)
        for i, (n, wb, tb) in enumerate(W.CONVERSION_WITNESSES):
            src, ranges = W.render([(f"c{i:02d}t", tb.replace("{{", "{").replace("}}", "}"))])
            p = os.path.join(h.scratch, f"conv{i}t.rs")
            open(p, "w").write(src)
            rc, diags = h.rustc(p, emit="obj")
            if rc != 0:
                raise HarnessBroken(f"CONTROL-BROKEN: conversion twin `{n}` does not compile: {[(d['code'], d['msg'][:100]) for d in diags[:3]]}")
            src, ranges = W.render([(f"c{i:02d}w", wb.replace("{{", "{").replace("}}", "}"))])
            p = os.path.join(h.scratch, f"conv{i}w.rs")
            open(p, "w").write(src)
            rc, diags = h.rustc(p, emit="obj")
            codes = [d["code"] for d in diags]
            if diags and "E0080" not in codes:
                raise HarnessBroken(f"CONTROL-BROKEN: conversion witness `{n}` fails with unexpected {codes}: {diags[0]['msg'][:120]}")
            ok = "E0080" in codes
            stats["programs"] += 2
            ctx.inst(R, n, ok, f"rejected at compile time: {diags[0]['msg'][:90]}; nearest allowed conversion accepted" if ok else
                     "this settings conversion COMPILES although it weakens a guarantee\n" + wb, site="conversion witness",
                     detail=None if ok else {"witness_source": wb})
        ctx.extra["samples_programs"] = samples
        ctx.extra["programs_judged"] = stats["programs"]
        ctx.floor(R, "witness programs", len(corpus), 100 if tier == "quick" else 400)
    finally:
        h.close()


def r1_unsafe_auto_traits(ctx, P):
    R = "C04.R1"
    ctx.rule(R, "every unsafe impl Send/Sync in the crate carries the Send/Sync bounds of its payload parameters")
    n = 0
    for im in P.facts["impls"]:
        tr = im.get("trait")
        if tr not in ("core::marker::Send", "core::marker::Sync") or im.get("negative"):
            continue
        n += 1
        params = [g["name"] for g in im["generics"] if g["kind"] == "ty"]
        preds = im["preds"]
        st = im["self_ty"]
        missing = []
        for p_ in params:
            # settings / marker parameters carry no data
            if p_ in ("S",) and "BumpAllocatorSettings" in " ".join(x for x in preds if x.startswith(p_ + ":")):
                continue
            need = tr.split("::")[-1]
            has = any(x.startswith(p_ + ": ") and (x.endswith("::" + need) or x.endswith("::Send") or x.endswith("::Sync")) for x in preds)
            if not has:
                missing.append(p_)
        ok = not missing
        ctx.inst(R, f"unsafe impl {tr.split('::')[-1]} for {st}", ok, f"bounds: {[x for x in preds if 'Send' in x or 'Sync' in x]}" if ok else
                 f"type parameters {missing} are not required to be Send/Sync: a value containing a !Send payload could cross threads",
                 where=f"{im.get('file')}:{im.get('line')}", site="auto trait bounds")
    ctx.floor(R, "unsafe impl Send/Sync", n, 3)


LAUNDER_NAMES = {"transmute_ref", "transmute_mut", "transmute_value", "transmute_lifetime", "transmute_lifetime_mut"}


def r2_laundering_sites(ctx, P):
    R = "C04.R2"
    ctx.rule(R, "functions that change a lifetime through unsafe are enumerated; the public ones are exercised by the corpus")
    covered = " ".join(w for _, w, _ in PRODUCER_TEXT()) 
    n = 0
    pubs = []
    for b in P.fn_bodies():
        hits = [t["f"]["name"] for s, t in b.calls() if t["f"].get("name") in LAUNDER_NAMES]
        casts = [st for s, st in b.assigns() if st["r"]["k"] == "cast" and st["r"]["ck"].startswith("Transmute")]
        if not hits and not casts:
            continue
        # only those whose signature mentions a lifetime-carrying scope/box type in the output
        out = b.item.get("output", "")
        if not re.search(r"(BumpScope|BumpBox|Bump<|FixedBump|&)", out):
            continue
        n += 1
        outer = P.outermost_fn(b.item)
        if outer.get("reachable") and not outer.get("unsafe"):
            pubs.append(outer["name"])
    pubs = sorted(set(pubs))
    unc = [p_ for p_ in pubs if p_ not in covered and p_ not in ("deref", "deref_mut", "as_ref", "as_mut", "borrow", "borrow_mut", "from", "into")]
    for p_ in unc:
        ctx.unclass(R, p_, "public safe function that changes a lifetime/type through unsafe and is not named by any witness template")
    ctx.inst(R, "lifetime-laundering functions", True, f"{n} functions reinterpret a lifetime/type through unsafe; {len(pubs)} public safe entry "
             f"points, {len(pubs) - len(unc)} named in the corpus, {len(unc)} listed as UNCOVERED (gap in the corpus, not a violation)", site="coverage")
    ctx.floor(R, "lifetime-laundering functions", n, 10)


# ADTs that point into arena memory (their lifetime parameter is the only thing that keeps the memory alive for them)
HANDLE = re.compile(r"\b(BumpBox|FixedBumpVec|FixedBumpString|BumpVec|BumpString|MutBumpVec|MutBumpVecRev|MutBumpString|"
                    r"IntoIter|Drain|Splice|ExtractIf|BumpScope|BumpScopeGuard|BumpClaimGuard|Stats|Chunk|ChunkPrevIter|"
                    r"ChunkNextIter|AnyStats|AnyChunk|AnyChunkPrevIter|AnyChunkNextIter|Checkpoint)\b")


def _sig_fns(P):
    for it in P.facts["items"]:
        if it["kind"] in ("Fn", "AssocFn") and "out_regions" in it and not it.get("unsafe"):
            yield it


def r3_output_lifetimes_anchored(ctx, P):
    R = "C04.R3"
    ctx.rule(R, "every lifetime in the return type of a safe function is anchored: it occurs in an argument type, or in a "
                "bound of a type parameter that occurs in an argument type, or is 'static; otherwise the caller may pick "
                "'static for a value that points into the arena. Functions without arguments (empty-handle constructors) "
                "and crate-private lifetime choosers are listed, not flagged")
    n = nun = 0
    for it in _sig_fns(P):
        ins = set(x for l in it["in_regions"] for x in l)
        inparams = set(x for l in it["in_params"] for x in l)
        for r in it["out_regions"]:
            n += 1
            if r == "static" or r in ins:
                continue
            if any(r in pr["regions"] and (set(pr["params"]) & inparams) for pr in it["pred_regions"]):
                continue
            nun += 1
            where = f"{it.get('file')}:{it.get('line')}"
            if not it["inputs"]:
                ctx.inst(R, it["path"], True, f"returns {it['output']} with a free lifetime but takes no argument: it cannot "
                         "point into any arena (empty-handle constructor)", where=where, site="no-argument constructor")
            elif not it.get("reachable"):
                ctx.inst(R, it["path"], True, f"crate-private lifetime chooser ({it['inputs']} -> {it['output']}): not nameable "
                         "from outside; every public caller's own signature is subject to this rule", where=where,
                         site="crate-private chooser")
            else:
                ctx.inst(R, it["path"], False, f"safe public function ({', '.join(it['inputs'])}) -> {it['output']}: the lifetime "
                         f"of the result ({r}) is not tied to any argument, so safe code can obtain the result with 'static "
                         "and use it after the scope ended / the arena was reset or dropped", where=where,
                         site="unanchored output lifetime")
    ctx.floor(R, "output lifetimes of safe functions examined", n, 500 if ctx.config != "nodefault" else 350)
    ctx.floor(R, "unanchored output lifetimes classified", nun, 15)


def r4_handle_inputs_connected(ctx, P):
    R = "C04.R4"
    ctx.rule(R, "a safe function that takes an arena handle by value and returns an arena handle or reference keeps the "
                "handle's lifetime: it occurs in the return type or in a bound of a type parameter of the return type "
                "(otherwise memory of a short scope can be re-labelled with a longer-lived allocator's lifetime)")
    n = 0
    for it in _sig_fns(P):
        out = it["output"]
        if not (HANDLE.search(out) or "&" in out):
            continue
        conn = set(it["out_regions"]) | set(it.get("out_alias_regions", []))
        outp = set(it["out_params"])
        for pr in it["pred_regions"]:
            if set(pr["params"]) & outp:
                conn |= set(pr["regions"])
        for ty, regs in zip(it["inputs"], it["in_regions"]):
            if ty.startswith("&") or not HANDLE.search(ty):
                continue
            for r in regs:
                n += 1
                ok = r == "static" or r in conn
                ctx.inst(R, it["path"], ok, f"argument {ty}: lifetime {r} reappears in {out}" if ok else
                         f"argument {ty}: its lifetime {r} does not reappear in the result {out} nor in the bounds of the "
                         "result's type parameters: the memory it owns gets a lifetime unrelated to the scope it came from",
                         where=f"{it.get('file')}:{it.get('line')}", site=f"handle argument {HANDLE.search(ty).group(1)} {r}")
    ctx.floor(R, "by-value handle arguments of handle-returning functions", n, 50 if ctx.config != "nodefault" else 35)


def r5_scope_marker_impls(ctx, P):
    R = "C04.R5"
    ctx.rule(R, "every impl of a scope marker trait (…Scope<'a>: 'allocations made through Self live for 'a') anchors 'a: it "
                "occurs in the Self type, or Self is built from a type parameter that is itself bounded by a …Scope<'a> trait "
                "with the same 'a; otherwise 'a is free and into_slice()/alloc() hand out 'static references")
    n = 0
    for im in P.facts["impls"]:
        tr = im.get("trait") or ""
        if im.get("trait_krate") != "bump_scope" or not tr.endswith("Scope") or not im.get("trait_regions"):
            continue
        for r in im["trait_regions"]:
            n += 1
            in_self = r in im.get("self_regions", [])
            via = [pr["s"] for pr in im.get("pred_regions", []) if r in pr["regions"] and (set(pr["params"]) & set(im.get("self_params", [])))
                   and re.search(r"Scope<", pr["s"])]
            ok = in_self or bool(via)
            ctx.inst(R, f"impl {tr.split('::')[-1]}<{r}> for {im['self_ty']}", ok,
                     ("the lifetime occurs in the Self type" if in_self else f"anchored by the bound {via[0]}") if ok else
                     f"the lifetime of `impl {tr.split('::')[-1]}<'a> for {im['self_ty']}` occurs neither in the Self type nor in a "
                     "…Scope<'a> bound of its type parameters: any owner (e.g. an owned Bump inside the wrapper) becomes a scope "
                     "for every 'a, including 'static", where=f"{im.get('file')}:{im.get('line')}", site="scope lifetime anchored")
    ctx.floor(R, "scope-marker impls with a lifetime argument", n, 10)


def PRODUCER_TEXT():
    return [(n, e, s) for (n, e, s) in W.PRODUCERS + W.MUT_PRODUCERS] + \
           [("route", t[3] + t[4], "") for t in W.escape_templates()] + [("conv", w + t, "") for _, w, t in W.CONVERSION_WITNESSES]


def run(ctx, progs):
    ctx.assume("rustc (stable, edition 2024) is the oracle: its borrow checker, trait solver and const evaluator are trusted")
    ctx.assume("the corpus is a generated grammar (producers x handles x escape routes), not all safe programs")
    try:
        run_corpus(ctx, ctx.tier)
    except HarnessBroken as e:
        raise RuntimeError(str(e))
    for lab, P in progs:
        ctx.config = lab
        r1_unsafe_auto_traits(ctx, P)
        r2_laundering_sites(ctx, P)
        r3_output_lifetimes_anchored(ctx, P)
        r4_handle_inputs_connected(ctx, P)
        r5_scope_marker_impls(ctx, P)
        from . import c18
        c18.r4_conversions(ctx, P, R="C04.R6")
        if any((b_.item.get("file") or "").endswith("bump_pool.rs") for b_ in P.fn_bodies()):
            from . import c19
            c19.r2_one_owner(ctx, P, R="C04.R7")
    ctx.config = None
