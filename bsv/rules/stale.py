"""Shared rule: no raw pointer into a growable collection's buffer is used after a call that may reallocate the buffer.

Growth moves the buffer (another chunk, or `Allocator::grow` returning a new block); a raw pointer / NonNull computed
from `self` before such a call is stale afterwards.  References are not considered: the borrow checker already forbids
calling a `&mut self` method while they are live.  May-analysis over the MIR CFG (non-cleanup edges): for each growth
call g, the raw-pointer locals whose reaching definition at g is derived from `self` are marked stale; the mark is
killed by a whole re-definition of the local; any read of a marked local is a violation."""
import re
from ..ir import show, expr_mentions, Site, RET
from .common import mentions_param

GROW_BASE = re.compile(r"(^|_)grow(_|$)|^grow_prepared_allocation$")
RAWPTR = ("*mut ", "*const ", "core::ptr::NonNull<")


def may_grow_fns(P):
    """Local functions that may replace the buffer of the collection they are called on (closure over callers)."""
    base = set()
    for it in P.facts["items"]:
        if it["kind"] in ("Fn", "AssocFn") and it["id"] in P.raw_bodies and GROW_BASE.search(it["name"]):
            base.add(it["id"])
    callers = {}
    for b in P.fn_bodies():
        for s, t in b.calls():
            for tid, _ in P.callee_targets(t["f"]):
                callers.setdefault(tid, set()).add(b.item["id"])
    out = set(base)
    work = list(base)
    while work:
        x = work.pop()
        for c in callers.get(x, ()):
            if c not in out:
                out.add(c)
                work.append(c)
    return out


def _places(o, acc):
    """Collect locals read by an operand / rvalue / place projection tree."""
    if isinstance(o, dict):
        if "l" in o and "p" in o and isinstance(o["p"], list):
            acc.add(o["l"])
            for pe in o["p"]:
                if isinstance(pe, dict) and "i" in pe and isinstance(pe["i"], int):
                    acc.add(pe["i"])
            return
        for k, v in o.items():
            if k in ("f", "dest", "c"):
                continue
            _places(v, acc)
    elif isinstance(o, list):
        for v in o:
            _places(v, acc)


def stmt_reads(st):
    acc = set()
    if st["k"] == "assign":
        _places(st["r"], acc)
        if st["p"]["p"]:            # writing through a projection reads the base local
            acc.add(st["p"]["l"])
    else:
        _places({k: v for k, v in st.items() if k != "p"}, acc)
    return acc


def term_reads(t):
    acc = set()
    for k in ("args", "d", "cond", "o"):
        if k in t:
            _places(t[k], acc)
    if t["k"] == "call" and isinstance(t.get("f"), dict) and "op" in t["f"]:
        _places(t["f"]["op"], acc)
    if t["k"] == "drop":
        acc.add(t["p"]["l"])
    return acc


def whole_def(st):
    return st["k"] == "assign" and not st["p"]["p"] and st["p"]["l"]


def stale_uses(P, b, maygrow):
    """[(growth site, callee name, local, use site)] for body b."""
    out = []
    ptr_locals = {i for i, l in enumerate(b.locals) if l["ty"].startswith(RAWPTR)}
    if not ptr_locals:
        return out, 0
    gsites = []
    for s, t in b.calls():
        f = t["f"]
        if not f.get("local") or not t["args"]:
            continue
        tg = [tid for tid, _ in P.callee_targets(f)]
        if not any(x in maygrow for x in tg):
            continue
        a0 = b.prov_operand(t["args"][0], s)
        if not mentions_param(a0, 1):
            continue
        gsites.append((s, t))
    for gs, gt in gsites:
        stale = set()
        for L in ptr_locals:
            for n in b.reaching_defs(L, gs):
                d = b._defs[n]
                if d[1] is None:
                    continue        # parameter: caller's pointer, not ours
                e = b._def_expr(n, 0, ()) if hasattr(b, "_def_expr") else None
                if e is not None and mentions_param(e, 1):
                    stale.add(L)
        if not stale:
            continue
        # forward propagation from the return edge of the growth call
        ret = gt.get("ret")
        if not isinstance(ret, int):
            continue
        IN = {ret: frozenset(stale)}
        work = [ret]
        reported = set()
        while work:
            bb = work.pop()
            cur = set(IN[bb])
            blk = b.blocks[bb]
            if b.is_cleanup(bb):
                continue
            for j, st in enumerate(blk["s"]):
                for L in stmt_reads(st) & cur:
                    if (L, bb, j) not in reported:
                        reported.add((L, bb, j))
                        out.append((gs, gt["f"]["name"], L, Site(bb, j)))
                w = whole_def(st)
                if w and w in cur:
                    cur.discard(w)
            t = blk["t"]
            for L in term_reads(t) & cur:
                if (L, bb, "t") not in reported:
                    reported.add((L, bb, "t"))
                    out.append((gs, gt["f"]["name"], L, Site(bb, len(blk["s"]))))
            if t["k"] == "call" and not t["dest"]["p"]:
                cur.discard(t["dest"]["l"])
            for tgt, lab in b.succs(bb):
                if not isinstance(tgt, int) or lab.startswith("unw") or b.is_cleanup(tgt):
                    continue
                new = frozenset(cur) | IN.get(tgt, frozenset())
                if new != IN.get(tgt):
                    IN[tgt] = new
                    work.append(tgt)
    return out, len(gsites)


def rule(ctx, P, R, self_prefixes, floor_bodies, floor_sites):
    ctx.rule(R, "no raw pointer / NonNull computed from self before a call that may reallocate the buffer (reserve/grow family, "
                "closed over the call graph) is read after that call")
    maygrow = may_grow_fns(P)
    ctx.need(len(maygrow) >= 20, R, f"may-grow function family (found {len(maygrow)})")
    nb = ng = 0
    for b in P.fn_bodies():
        impl = P.impl_of_item.get(P.outermost_fn(b.item)["id"]) if hasattr(P, "outermost_fn") else P.impl_of_item.get(b.item["id"])
        if not impl or not impl["self_ty"].startswith(self_prefixes):
            continue
        if GROW_BASE.search(b.item["name"]):
            continue            # the growth primitives themselves hand the old pointer to the allocator
        uses, n = stale_uses(P, b, maygrow)
        if not n:
            continue
        nb += 1
        ng += n
        first = {}
        for gs, gname, L, us in uses:
            first.setdefault((gname, L), (gs, us))
        ok = not first
        if ok:
            ctx.inst(R, b.path, True, f"{n} growth call(s); every raw buffer pointer is (re)computed after them", where=b.where(),
                     site="pointers recomputed after growth")
        for (gname, L), (gs, us) in sorted(first.items()):
            nm = b.locals[L].get("name") or f"_{L}"
            ctx.inst(R, b.path, False, f"`{nm}` ({b.locals[L]['ty']}) is computed from self before `{gname}` (line {b.line_of(gs)}) "
                     f"and read after it (line {b.line_of(us)}): if the call moves the buffer, elements are shifted/written in the "
                     "old block and the contents differ from the std counterpart", where=b.where(us),
                     site=f"stale {nm} across {gname}")
    ctx.floor(R, "collection methods with growth calls", nb, floor_bodies)
    ctx.floor(R, "growth call sites examined", ng, floor_sites)
