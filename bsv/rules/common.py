"""Shared recognisers (memory-op sites, layout params, name helpers)."""
import re
from ..ir import Site, show, walk_expr, phi_alts, expr_mentions

COPY_METHODS = {
    # path -> (src_arg, dst_arg, count_arg, nonoverlapping)
    "core::ptr::NonNull::<T>::copy_to": (0, 1, 2, False),
    "core::ptr::NonNull::<T>::copy_to_nonoverlapping": (0, 1, 2, True),
    "core::ptr::NonNull::<T>::copy_from": (1, 0, 2, False),
    "core::ptr::NonNull::<T>::copy_from_nonoverlapping": (1, 0, 2, True),
    "core::ptr::copy": (0, 1, 2, False),
    "core::ptr::copy_nonoverlapping": (0, 1, 2, True),
    "core::intrinsics::copy": (0, 1, 2, False),
    "core::intrinsics::copy_nonoverlapping": (0, 1, 2, True),
    "core::ptr::const_ptr::<impl *const T>::copy_to": (0, 1, 2, False),
    "core::ptr::const_ptr::<impl *const T>::copy_to_nonoverlapping": (0, 1, 2, True),
    "core::ptr::mut_ptr::<impl *mut T>::copy_to": (0, 1, 2, False),
    "core::ptr::mut_ptr::<impl *mut T>::copy_to_nonoverlapping": (0, 1, 2, True),
    "core::ptr::mut_ptr::<impl *mut T>::copy_from": (1, 0, 2, False),
    "core::ptr::mut_ptr::<impl *mut T>::copy_from_nonoverlapping": (1, 0, 2, True),
}

WRITE_BYTES = {
    "core::ptr::NonNull::<T>::write_bytes": (0, 1, 2),  # (ptr, val, count)
    "core::ptr::mut_ptr::<impl *mut T>::write_bytes": (0, 1, 2),
    "core::ptr::write_bytes": (0, 1, 2),
    "core::intrinsics::write_bytes": (0, 1, 2),
}

RAW_WRITES = {
    "core::ptr::NonNull::<T>::write", "core::ptr::mut_ptr::<impl *mut T>::write", "core::ptr::write",
    "core::ptr::write_unaligned", "core::ptr::NonNull::<T>::write_unaligned", "core::ptr::write_volatile",
    "core::ptr::mut_ptr::<impl *mut T>::write_unaligned", "core::ptr::NonNull::<T>::write_volatile",
    "core::ptr::swap", "core::ptr::swap_nonoverlapping", "core::ptr::replace", "core::ptr::NonNull::<T>::replace",
    "core::ptr::NonNull::<T>::swap", "core::ptr::mut_ptr::<impl *mut T>::replace",
    "core::ptr::mut_ptr::<impl *mut T>::swap",
}


class CopySite:
    def __init__(self, body, site, src, dst, count, nonoverlapping, callee):
        self.body, self.site, self.src, self.dst, self.count = body, site, src, dst, count
        self.nonoverlapping, self.callee = nonoverlapping, callee

    def prov(self, which):
        return self.body.prov_operand(getattr(self, which), self.site)


def copy_sites(body):
    out = []
    for site, t in body.calls():
        f = t["f"]
        m = COPY_METHODS.get(f.get("path"))
        if m and len(t["args"]) >= 3:
            out.append(CopySite(body, site, t["args"][m[0]], t["args"][m[1]], t["args"][m[2]], m[3], f["path"]))
    rb = body.reachable_blocks()
    for i, b in enumerate(body.blocks):
        if i not in rb:
            continue
        for j, st in enumerate(b["s"]):
            if st["k"] == "copy_nonoverlapping":
                out.append(CopySite(body, Site(i, j), st["src"], st["dst"], st["count"], True, "intrinsic"))
    return out


def write_bytes_sites(body):
    out = []
    for site, t in body.calls():
        m = WRITE_BYTES.get(t["f"].get("path"))
        if m:
            out.append((site, t, t["args"][m[0]], t["args"][m[1]], t["args"][m[2]]))
    return out


def raw_write_sites(body):
    out = []
    for site, t in body.calls():
        p = t["f"].get("path")
        if p in RAW_WRITES or p in WRITE_BYTES or p in COPY_METHODS:
            out.append((site, t))
    rb = body.reachable_blocks()
    for i, b in enumerate(body.blocks):
        if i in rb:
            for j, st in enumerate(b["s"]):
                if st["k"] == "copy_nonoverlapping":
                    out.append((Site(i, j), {"f": {"path": "intrinsic::copy_nonoverlapping"}}))
    return out


def params_of_type(body, ty):
    """[(local, name)] of parameters whose type string equals ty."""
    return [(l, body.locals[l].get("name")) for l in range(1, body.argc + 1) if body.locals[l]["ty"] == ty]


def mentions_param(e, local):
    return expr_mentions(e, lambda x: x[0] == "param" and x[1] == local)


def is_size_of_param(e, local):
    """`Layout::size(&param)`"""
    return (e[0] == "call" and e[1] == "core::alloc::Layout::size" and len(e[2]) == 1 and
            strip_ref(e[2][0])[0] == "param" and strip_ref(e[2][0])[1] == local)


def is_align_of_param(e, local):
    return (e[0] == "call" and e[1] == "core::alloc::Layout::align" and len(e[2]) == 1 and
            strip_ref(e[2][0])[0] == "param" and strip_ref(e[2][0])[1] == local)


def strip_ref(e):
    while e[0] in ("ref", "deref"):
        e = e[1]
    return e


def strip_casts(e):
    while e[0] == "cast":
        e = e[2]
    return e


def fn_name(item):
    return item.get("name", "")


def short(path):
    return path


def calls_in(e):
    return [x for x in walk_expr(e) if x[0] == "call"]
