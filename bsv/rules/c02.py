"""C02 — bytes of a live allocation change only through its owner.

Decided (structural, necessary) clauses: R1 copy length of every reallocation = min(old,new) by contract;
R2 overlap-aware copy; R3 zeroing of grow_zeroed / allocate_zeroed; R4 the non-reallocating arena operations
contain no raw memory write.  Byte values themselves are not decided."""
from ..ir import show, phi_alts, walk_expr, expr_mentions, Site
from .common import *

EXPLANATION = (
    "Static rules over the polymorphic MIR of bump_scope (all settings S and base allocators A at once). "
    "C02.R1: in every body that implements or is called by an Allocator::{grow,grow_zeroed,shrink} implementation or "
    "shrink_slice, the count operand of every memory copy is size(old_layout) in a grow and size(new_layout) in a "
    "shrink (min(old,new) by the methods' contracts), its source is the old pointer. C02.R2: a "
    "copy_nonoverlapping whose destination is derived from the source block by arithmetic or allocated after the "
    "source's space was released must be control dependent on a comparison of the two ranges. C02.R3: grow_zeroed "
    "zeroes exactly new.size-old.size bytes at offset old.size of the returned pointer; allocate_zeroed zeroes the "
    "whole returned block; forwarding impls forward zeroed->zeroed. C02.R4: functions reachable from the "
    "non-reallocating arena operations (allocate, deallocate, reserve, reset*, scope enter/exit, claim/reclaim, "
    "chunk creation) perform no raw memory write other than the construction of a fresh chunk header. "
    "Not decided: the byte values themselves. C02.R9: position writes and alloc_try_with's unchanged-position test after a user callback use a chunk handle read after the callback.")

LAYOUT = "core::alloc::Layout"

REALLOC_NAMES = {"grow": "grow", "grow_zeroed": "grow", "shrink": "shrink", "grow_impl": "grow", "shrink_unfit": "shrink",
                 "shrink_slice": "shrink"}


def realloc_bodies(P):
    """{fid: (mode, why)}: every local body that implements a trait item named grow/grow_zeroed/shrink/shrink_slice,
    the trait defaults, and every local fn reachable from them that takes >= 2 Layout parameters (helpers such as
    shrink_unfit / grow_impl)."""
    roots = {}
    for it in P.facts["items"]:
        if it["kind"] != "AssocFn" or it["id"] not in P.raw_bodies:
            continue
        nm = it["name"]
        if nm in ("grow", "grow_zeroed", "shrink", "shrink_slice"):
            impl = P.impl_of_item.get(it["id"])
            tr = P.trait_of_item.get(it["id"])
            if (impl and impl.get("trait")) or tr:
                roots[it["id"]] = (REALLOC_NAMES[nm], "trait method " + nm)
            elif impl:
                # inherent helper with the interface name (e.g. for_trait_object::shrink_slice)
                roots[it["id"]] = (REALLOC_NAMES[nm], "inherent " + nm)
    # free functions with the interface names in the arena core and their local callees with two Layout params
    for it in P.facts["items"]:
        if it["kind"] == "Fn" and it["id"] in P.raw_bodies and it["name"] in REALLOC_NAMES:
            ins = it.get("inputs", [])
            if ins.count(LAYOUT) >= 2 or it["name"] == "shrink_slice":
                roots.setdefault(it["id"], (REALLOC_NAMES[it["name"]], "fn " + it["name"]))
    out = dict(roots)
    work = list(roots)
    while work:
        fid = work.pop()
        mode = out[fid][0]
        for tid, rb, kind, site in P.out_edges(fid):
            if kind != "call" or tid in out:
                continue
            it = P.items.get(tid)
            if not it or it["kind"] not in ("Fn", "AssocFn"):
                continue
            if it.get("inputs", []).count(LAYOUT) >= 2:
                m = REALLOC_NAMES.get(it["name"], mode)
                out[tid] = (m, f"helper of {P.items[fid]['path']}")
                work.append(tid)
    return out


def layout_params(body):
    ps = params_of_type(body, LAYOUT)
    return ps


def r1_copy_length(ctx, P):
    R = "C02.R1"
    ctx.rule(R, "copy count of a reallocation is size(old) in grow / size(new) in shrink; source is the old pointer")
    rb = realloc_bodies(P)
    ctx.need(len(rb) >= 10, R, "reallocation bodies (Allocator::{grow,grow_zeroed,shrink} impls and helpers)")
    ncopy = 0
    for fid, (mode, why) in sorted(rb.items()):
        body = P.body(fid)
        it = P.items[fid]
        sites = copy_sites(body)
        if not sites:
            continue
        lps = layout_params(body)
        is_slice = it["name"] == "shrink_slice"
        if is_slice:
            # (self, ptr, old_len, new_len)
            us = params_of_type(body, "usize")
            if len(us) < 2:
                ctx.need(False, R, f"{body.path}: old_len/new_len parameters")
                continue
            old_l, new_l = us[0][0], us[1][0]
        else:
            if len(lps) < 2:
                # forwarding body with a copy but without two layouts: not a reallocation primitive
                continue
            old_l, new_l = lps[0][0], lps[1][0]
        want, other = (old_l, new_l) if mode == "grow" else (new_l, old_l)
        ptr_params = [l for l in range(1, body.argc + 1) if body.locals[l]["ty"].startswith("core::ptr::NonNull<")
                      or body.locals[l]["ty"].startswith("*mut ") or body.locals[l]["ty"].startswith("*const ")]
        for n, cs in enumerate(sites):
            ncopy += 1
            cnt = cs.prov("count")
            src = cs.prov("src")
            ok = True
            why_bad = []
            for alt in phi_alts(cnt):
                a = strip_casts(alt)
                if is_slice:
                    good = mentions_param(a, want) and not mentions_param(a, other)
                else:
                    good = is_size_of_param(a, want)
                if not good:
                    ok = False
                    why_bad.append(f"count = {show(alt)}")
            if ptr_params and not any(mentions_param(src, l) for l in ptr_params):
                ok = False
                why_bad.append(f"source {show(src)} is not derived from the old pointer")
            wname = body.locals[want].get("name") or f"_{want}"
            ctx.inst(R, body.path, ok,
                     f"{mode}: copy #{n} ({cs.callee.split('::')[-1]}) count={show(cnt)}; expected size of `{wname}`"
                     + ("" if ok else " — " + "; ".join(why_bad)),
                     where=body.where(cs.site), site=f"copy#{n} count")
    ctx.floor(R, "copy sites in reallocation bodies", ncopy, 12)


COMPARE_CALLS = {"core::cmp::PartialOrd::gt", "core::cmp::PartialOrd::lt", "core::cmp::PartialOrd::ge",
                 "core::cmp::PartialOrd::le"}
COMPARE_OPS = {"Lt", "Le", "Gt", "Ge"}

FRESH_ALLOC_NAMES = {"alloc", "alloc_in_another_chunk", "allocate", "allocate_zeroed", "alloc_zeroed", "realloc",
                     "alloc_sized", "alloc_slice", "try_alloc_layout", "alloc_layout"}
RELEASE_NAMES = {"deallocate_assume_last", "deallocate", "dealloc", "set_pos", "set_pos_addr", "set_pos_addr_and_align",
                 "reset_to", "reset"}


def is_comparison(e):
    return (e[0] == "call" and e[1] in COMPARE_CALLS) or (e[0] == "bin" and e[1] in COMPARE_OPS)


def r2_overlap(ctx, P, R="C02.R2"):
    ctx.rule(R, "copy_nonoverlapping into a destination derived from the source block, or allocated after the "
                "source's space was released, is control dependent on a range comparison")
    rb = realloc_bodies(P)
    extra = [i["id"] for i in P.facts["items"] if i["kind"] in ("Fn", "AssocFn") and i["id"] in P.raw_bodies
             and i["name"] in ("allocate_prepared", "allocate_prepared_rev", "allocate_prepared_slice",
                               "allocate_prepared_slice_rev")]
    n_eval = 0
    n_guarded = 0
    for fid in sorted(set(rb) | set(extra)):
        body = P.body(fid)
        for n, cs in enumerate(copy_sites(body)):
            if not cs.nonoverlapping:
                continue
            dst = cs.prov("dst")
            src = cs.prov("src")
            src_params = {x[1] for x in walk_expr(src) if x[0] == "param"}
            risky = []
            for alt in phi_alts(dst):
                a = strip_casts(alt)
                # derived from the source block?
                if any(mentions_param(a, l) for l in src_params):
                    risky.append(("derived from the source pointer", alt))
                    continue
                calls = [c for c in calls_in(a)]
                fresh = [c for c in calls if c[1].split("::")[-1] not in ("branch", "from_residual")]
                if not fresh:
                    risky.append(("not a fresh allocation", alt))
                    continue
                # allocated after a release in the same body?
                for c in fresh:
                    asite = body.term_site(c[4][0])
                    for rs, rt in body.calls():
                        if rt["f"].get("name") in RELEASE_NAMES and rs != asite and body.can_reach(rs, asite):
                            risky.append((f"allocated by {c[1].split('::')[-1]} after {rt['f']['name']} released space", alt))
                            break
            n_eval += 1
            if not risky:
                ctx.inst(R, body.path, True, f"copy_nonoverlapping #{n}: destination {show(dst)} is a fresh allocation "
                         "made while the source is live", where=body.where(cs.site), site=f"copy#{n} overlap",
                         nontrivial=True)
                continue
            # need a dominating comparison of the two ranges: one side derived from the source pointer, the other
            # from the destination (which may itself be derived from the source pointer)
            dst_atoms = []
            for alt in phi_alts(dst):
                if any(mentions_param(alt, l) for l in src_params):
                    dst_atoms.append(("src",))
                for c in calls_in(alt):
                    if c[1].split("::")[-1] not in ("branch", "from_residual"):
                        dst_atoms.append(("call", c[1], c[4]))

            def side_has_src(e):
                return any(mentions_param(e, l) for l in src_params)

            def side_has_dst(e):
                for at in dst_atoms:
                    if at[0] == "src" and side_has_src(e):
                        return True
                    if at[0] == "call" and expr_mentions(e, lambda x: x[0] == "call" and x[1] == at[1] and x[4] == at[2]):
                        return True
                return False

            def range_cmp(x):
                if not is_comparison(x):
                    return False
                a, b = (x[2][0], x[2][1]) if x[0] == "call" else (x[2], x[3])
                return (side_has_src(a) and side_has_dst(b)) or (side_has_src(b) and side_has_dst(a))

            edges = []
            for bb, t in body.switches():
                e = body.prov_operand(t["d"], body.term_site(bb))
                if any(expr_mentions(a, range_cmp) for a in phi_alts(e)):
                    for tgt, lab in body.succs(bb):
                        edges.append((bb, tgt, lab))
            ok = body.controlled_by(cs.site, edges) if edges else False
            if ok:
                n_guarded += 1
            ctx.inst(R, body.path, ok,
                     f"copy_nonoverlapping #{n} to {show(dst)} ({risky[0][0]}) "
                     + ("is guarded by a range comparison" if ok else "is NOT control dependent on any comparison of "
                        "source and destination ranges; overlapping ranges would be corrupted (memmove required)"),
                     where=body.where(cs.site), site=f"copy#{n} overlap")
    ctx.floor(R, "copy_nonoverlapping sites examined", n_eval, 10)
    ctx.floor(R, "in-place copy_nonoverlapping sites guarded by a comparison", n_guarded, 3)


def r3_zeroing(ctx, P):
    R = "C02.R3"
    ctx.rule(R, "grow_zeroed zeroes new.size-old.size bytes at offset old.size of the returned pointer; allocate_zeroed "
                "zeroes the whole returned block; zeroed impls forward to zeroed methods")
    n = 0
    zero_impls = 0
    for it in P.facts["items"]:
        if it["kind"] not in ("AssocFn", "Fn") or it["id"] not in P.raw_bodies:
            continue
        nm = it["name"]
        if nm not in ("grow_zeroed", "allocate_zeroed"):
            continue
        body = P.body(it["id"])
        zero_impls += 1
        wbs = write_bytes_sites(body)
        callee_names = [t["f"].get("name") for _, t in body.calls() if "path" in t["f"]]
        callee_paths = [t["f"].get("path") for _, t in body.calls() if "path" in t["f"]]
        if not wbs:
            # must forward to something that zeroes: same-named method, *_zeroed, or grow_impl(.., zeroed = true)
            fw = [c for c in callee_names if c and ("zeroed" in c)]
            ok = bool(fw)
            desc = f"forwards to {fw}" if fw else "neither zeroes nor forwards to a zeroing method"
            if not ok:
                # helper with a `zeroed: bool` parameter that receives the literal `true`
                for s, t in body.calls():
                    cb = P.body(t["f"].get("id")) if t["f"].get("local") else None
                    if cb is None:
                        continue
                    for ai in range(min(cb.argc, len(t["args"]))):
                        if cb.locals[ai + 1].get("name") == "zeroed":
                            v = body.prov_operand(t["args"][ai], s)
                            desc = f"calls {t['f']['name']}(.., zeroed={show(v)})"
                            ok = v[0] == "int" and v[1] == 1
            if not ok:
                plain = [c for c in callee_names if c in ("grow", "allocate", "alloc", "realloc")]
                desc += f"; calls {plain}"
            ctx.inst(R, body.path, ok, f"{nm}: {desc}", where=body.where(), site="forward")
            n += 1
            continue
        lps = layout_params(body)
        for k, (site, t, ptr, val, cnt) in enumerate(wbs):
            n += 1
            v = body.prov_operand(val, site)
            pe = body.prov_operand(ptr, site)
            ce = body.prov_operand(cnt, site)
            ok = v[0] == "int" and v[1] == 0
            why = [] if ok else [f"fill value {show(v)} is not 0"]
            ptr_params = [l for l in range(1, body.argc + 1) if body.locals[l]["ty"].startswith("core::ptr::NonNull<u8>")]
            if nm == "grow_zeroed":
                if len(lps) < 2:
                    ctx.need(False, R, f"{body.path}: two Layout parameters")
                    continue
                old_l, new_l = lps[0][0], lps[1][0]
                # ptr = add(<returned ptr>, size(old)); count = size(new) - size(old)
                for a in phi_alts(pe):
                    a = strip_casts(a)
                    if not (a[0] == "call" and a[1].split("::")[-1] == "add" and len(a[2]) == 2):
                        ok = False; why.append(f"zeroing starts at {show(a)}, expected <returned ptr>.add(old.size)")
                        continue
                    base, off = a[2]
                    if not is_size_of_param(strip_casts(off), old_l):
                        ok = False; why.append(f"offset {show(off)} is not size(old_layout)")
                    if any(mentions_param(base, l) for l in ptr_params) and not calls_in(base):
                        ok = False; why.append(f"base {show(base)} is the *old* pointer, not the returned one")
                    if not any(c[1].split("::")[-1] in ("grow", "allocate", "alloc", "realloc", "branch") for c in calls_in(base)):
                        ok = False; why.append(f"base {show(base)} is not derived from the new block")
                for a in phi_alts(ce):
                    a = strip_casts(a)
                    if not (a[0] == "bin" and a[1] == "Sub" and is_size_of_param(strip_casts(a[2]), new_l)
                            and is_size_of_param(strip_casts(a[3]), old_l)):
                        ok = False; why.append(f"count {show(a)} is not size(new) - size(old)")
            else:
                # allocate_zeroed: whole returned block
                for a in phi_alts(pe):
                    if not any(c[1].split("::")[-1] in ("allocate", "alloc", "branch") for c in calls_in(a)):
                        ok = False; why.append(f"zeroed pointer {show(a)} is not the block returned by allocate")
                for a in phi_alts(ce):
                    a = strip_casts(a)
                    good = (a[0] == "call" and a[1].split("::")[-1] == "len") or \
                           (lps and is_size_of_param(a, lps[0][0])) or (a[0] == "un" and a[1] == "PtrMetadata")
                    if not good:
                        ok = False; why.append(f"count {show(a)} is not the length of the returned block")
            ctx.inst(R, body.path, ok, f"{nm}: write_bytes({show(pe)}, {show(v)}, {show(ce)})" +
                     ("" if ok else " — " + "; ".join(why)), where=body.where(site), site=f"write_bytes#{k}")
    ctx.floor(R, "grow_zeroed/allocate_zeroed implementations", zero_impls, 10)


# operations of the arena that must not write user-visible memory (property text), by interface name
NONWRITING_ROOTS = [
    r"^raw_bump::RawBump::<A, S>::(alloc|alloc_sized|alloc_slice|alloc_slice_for|alloc_in_another_chunk|"
    r"alloc_sized_in_another_chunk|alloc_slice_in_another_chunk|prepare_sized_allocation|prepare_slice_allocation|"
    r"prepare_slice_allocation_rev|prepare_allocation_range|reserve|reset|reset_to|reset_to_start|claim|reclaim|"
    r"checkpoint|align|align_to|make_allocated|in_another_chunk|generic_reserve|manually_drop|new|with_size|"
    r"with_capacity)$",
    r"^allocator_impl::(allocate|deallocate|deallocate_assume_last|is_last)$",
    r"^bump_scope_guard::",
    r"^bump_claim_guard::",
    r"^bump_align_guard::",
    r"^<bump_(scope|claim|align)_guard::.* as core::ops::Drop>::drop$",
]


def r4_no_foreign_writes(ctx, P):
    import re
    R = "C02.R4"
    ctx.rule(R, "allocation, deallocation, chunk growth, scope enter/exit, claim, reserve and reset reach no raw "
                "memory write except the construction of a fresh chunk header")
    roots = []
    for rx in NONWRITING_ROOTS:
        roots += [i["id"] for i in P.find_re(rx) if i["id"] in P.raw_bodies]
    ctx.floor(R, "non-reallocating arena operations (roots)", len(roots), 25)
    parents = P.reach_fns(roots, opaque_traits=("alloc::Allocator",))
    seen_fns = {st[0] for st in parents}
    n_writes = 0
    hdr_ok = 0
    for fid in sorted(seen_fns):
        body = P.body(fid)
        if body is None:
            continue
        for site, t in raw_write_sites(body):
            n_writes += 1
            # the one allowed write: header construction on memory obtained from the base allocator in this body
            ok = False
            desc = ""
            if t["f"]["path"].endswith("::write") and t.get("args"):
                pe = body.prov_operand(t["args"][0], site)
                val_ty = [a.get("s", "") for a in t["f"].get("args", []) if a["k"] == "ty"]
                from_alloc = any(c[1].endswith("Allocator::allocate") for c in calls_in(pe))
                is_hdr = any("ChunkHeader" in s for s in val_ty)
                ok = from_alloc and is_hdr
                desc = f"write::<{','.join(val_ty)}>({show(pe)})"
                if ok:
                    hdr_ok += 1
            chain = " -> ".join(p for p, _ in P.path_to(parents, next(st for st in parents if st[0] == fid)))
            ctx.inst(R, body.path, ok,
                     (f"chunk header construction {desc} on memory just obtained from the base allocator" if ok else
                      f"raw memory write {t['f']['path']} {desc} reachable from a non-reallocating arena operation: {chain}"),
                     where=body.where(site), site=t["f"]["path"].split("::")[-1])
    ctx.inst(R, "reachable set", True, f"{len(seen_fns)} functions reachable from {len(roots)} roots contain "
             f"{n_writes} raw write site(s)", nontrivial=True, site="summary")
    ctx.floor(R, "chunk header construction sites (positive control for the write recogniser)", hdr_ok, 1)


def r3b_zeroed_extensions(ctx, P):
    """bytemuck / zerocopy extension traits (only present in the stable_all / all fact bases)."""
    R = "C02.R3"
    n = 0
    for b in P.fn_bodies():
        nm = b.item["name"]
        if "bytemuck_or_zerocopy" not in (b.item.get("file") or "") and "features::" not in b.path:
            continue
        if nm == "init_zeroed":
            for k, (site, t, ptr, val, cnt) in enumerate(write_bytes_sites(b)):
                n += 1
                v, pe, ce = b.prov_operand(val, site), b.prov_operand(ptr, site), b.prov_operand(cnt, site)
                ok = v == ("int", 0, "u8") and mentions_param(pe, 1) and \
                    (ce == ("int", 1, "usize") or expr_mentions(ce, lambda x: x[0] == "call" and x[1].split("::")[-1] == "len" and mentions_param(x, 1)))
                ctx.inst(R, b.path, ok, f"init_zeroed: write_bytes({show(pe)}, {show(v)}, {show(ce)}) zeroes exactly its own elements" if ok else
                         f"init_zeroed zeroes {show(ce)} elements at {show(pe)}: not exactly the box's own elements", where=b.where(site), site=f"init_zeroed#{k}")
        if nm == "generic_extend_zeroed":
            wbs = write_bytes_sites(b)
            if not wbs:
                continue
            n += 1
            site, t, ptr, val, cnt = wbs[0]
            v, pe, ce = b.prov_operand(val, site), b.prov_operand(ptr, site), b.prov_operand(cnt, site)
            rev = "MutBumpVecRev" in b.path
            ok = v == ("int", 0, "u8") and strip_casts(ce)[0] == "param" and strip_casts(ce)[1] == 2
            a = strip_casts(pe)
            if rev:
                # end.sub(len + additional)
                ok = ok and a[0] == "call" and a[1].split("::")[-1] == "sub" and expr_mentions(a[2][0], lambda x: x[0] == "field" and x[2] == "end") and \
                    expr_mentions(a[2][1], lambda x: x[0] == "param" and x[1] == 2) and expr_mentions(a[2][1], lambda x: x[0] == "call" and x[1].split("::")[-1] == "len")
            else:
                ok = ok and a[0] == "call" and a[1].split("::")[-1] == "add" and \
                    expr_mentions(a[2][1], lambda x: x[0] == "call" and x[1].split("::")[-1] == "len") and not mentions_param(a[2][1], 2)
            # order: fallible reserve < zeroing < length store
            res = b.calls_to(lambda f: f.get("name") == "generic_reserve")
            sl = b.calls_to(lambda f: f.get("name") == "set_len")
            ok = ok and bool(res) and bool(sl) and b.dominates(res[0][0], site) and b.dominates(site, sl[0][0])
            ctx.inst(R, b.path, ok, f"extend_zeroed: reserve, then write_bytes({show(pe)}, 0, {show(ce)}), then set_len" if ok else
                     f"extend_zeroed zeroes {show(ce)} elements at {show(pe)} / wrong order: the new tail is not exactly the zeroed range",
                     where=b.where(site), site="extend_zeroed")
    if n:
        ctx.floor(R, "zeroing sites of the bytemuck/zerocopy extensions", n, 6)


def r9_chunk_read_after_callback(ctx, P, R="C02.R9"):
    from . import flow
    ctx.rule(R, "a user callback can make another chunk current: a position write that follows a callback uses a chunk handle read from the "
                "arena after the callback, and alloc_try_with's `nothing was allocated meanwhile` test compares against the position of the "
                "chunk that is current after the callback (a handle hoisted above the callback sees the old chunk's unchanged position, "
                "and the Err path then frees what the callback allocated in the next chunk while the error value still points there)")
    def is_cb(t):
        f = t["f"]
        return f.get("path") in ("polyfill::non_null::write_with", "core::ops::FnOnce::call_once", "core::ops::FnMut::call_mut")
    def is_chunk_get(t):
        return t["f"].get("path") == "core::cell::Cell::<T>::get"
    n_w = 0
    for b in P.fn_bodies():
        cbs = [s for s, t in b.calls() if is_cb(t)]
        if not cbs:
            continue
        if len(b.locals) > 1 and b.locals[1]["ty"].startswith("&mut "):
            continue    # exclusive borrow of the arena: the callback cannot reach it, the chunk cannot change
        for s, t in b.calls():
            if t["f"].get("name") in ("set_pos", "set_pos_addr") and t["f"].get("local") and any(b.dominates(c, s) or b.can_reach(c, s) for c in cbs):
                l = flow.op_local(t["args"][0])
                gets = [gs for gs, gt in flow.feeders(b, l)[0] if is_chunk_get(gt)] if l is not None else []
                stale = [g for g in gets if not any(b.dominates(c, g) for c in cbs)]
                n_w += 1
                ctx.inst(R, b.path, not stale, "the chunk handle is read after the callback" if not stale else
                         "the position is written through a chunk handle read before the user callback ran; the callback may have made "
                         "another chunk current", where=b.where(s), site=f"{t['f']['name']} after callback")
    ctx.floor(R, "position writes after a user callback", n_w, 1)
    bs = [b for b in P.fn_bodies() if b.item["name"] == "generic_alloc_try_with" and b.path.startswith("bump_scope::BumpScope")]
    if not ctx.need(len(bs) == 1, R, "BumpScope::generic_alloc_try_with"):
        return
    b = bs[0]
    cbs = [s for s, t in b.calls() if is_cb(t)]
    eqs = [(s, t) for s, t in b.calls() if t["f"].get("path") == "core::cmp::PartialEq::eq" and any(b.dominates(c, s) for c in cbs)]
    if ctx.need(len(eqs) == 1, R, "the unchanged-position comparison after the callback in generic_alloc_try_with"):
        s, t = eqs[0]
        cbs = [c for c in cbs if b.dominates(c, s)]
        sides = []
        for a in t["args"]:
            l = flow.op_local(a)
            gets = [gs for gs, gt in flow.feeders(b, l)[0] if is_chunk_get(gt)] if l is not None else []
            sides.append(bool(gets) and all(any(b.dominates(c, g) for c in cbs) for g in gets))
        ok = any(sides)
        ctx.inst(R, b.path, ok, "one side of the comparison is the position of the chunk read after the callback" if ok else
                 "neither side of the comparison reads the current chunk after the callback: an allocation the callback made in another chunk "
                 "goes unnoticed", where=b.where(s), site="can_shrink compares with the post-callback chunk")


def run(ctx, progs):
    ctx.assume("rustc nightly's type checker, MIR construction and trait resolution are correct")
    ctx.assume("the fact exporter (driver/src/main.rs) and the PROV reconstruction faithfully render MIR")
    ctx.assume("only the library target of bump-scope is analysed; tests/, examples/, crates/*, fuzz/ are API clients")
    for lab, P in progs:
        ctx.config = lab
        r1_copy_length(ctx, P)
        r2_overlap(ctx, P)
        r3_zeroing(ctx, P)
        r3b_zeroed_extensions(ctx, P)
        r4_no_foreign_writes(ctx, P)
        from . import c13
        from .poswrite import PosDiscipline
        c13.r3_reclaim_boundary(ctx, P, PosDiscipline(P), R="C02.R5")
        from . import c16, c10 as _c10
        c16.r1_partitions(ctx, P, R="C02.R6")
        _c10.r1d_aligner_direction(ctx, P, PosDiscipline(P), R="C02.R7")
        from . import c13 as _c13
        _c13.r1_settings_gates(ctx, P, PosDiscipline(P), R="C02.R8")
        r9_chunk_read_after_callback(ctx, P)
    ctx.config = None
