"""Runs the rule modules of one property (or all) over the fact bases of a tier."""
import importlib, json, os, sys, time, traceback
from concurrent.futures import ThreadPoolExecutor
from . import facts
from .core import Ctx
from .prog import Program

PROPS = ["C01", "C02", "C03", "C04", "C05", "C06", "C07", "C08", "C09", "C10", "C12", "C13", "C14", "C15", "C16",
         "C17", "C18", "C19"]

# (config, release)
TIERS = {
    "quick": [("default", False)],
    "thorough": [("default", False), ("nodefault", False), ("stable_all", False), ("all", False),
                 ("stable_all", True), ("all", True)],
}


def label(cfg, rel):
    return cfg + ("+release" if rel else "")


def load_programs(tier, wanted=None):
    cfgs = TIERS[tier]
    if wanted is not None:
        cfgs = [c for c in cfgs if label(*c) in wanted or c[0] in wanted]
    out = []

    skipped = []

    def one(c):
        try:
            f, m = facts.extract(c[0], release=c[1])
        except facts.FactsError as e:
            if c == ("default", False):
                raise
            # a feature configuration other than the default one does not build: analyse the ones that do and say so
            return label(*c), None, str(e)
        return label(*c), Program(f, m), None

    with ThreadPoolExecutor(max_workers=min(6, len(cfgs))) as ex:
        for lab, p, err in ex.map(one, cfgs):
            if p is None:
                skipped.append((lab, err))
            else:
                out.append((lab, p))
    load_programs.skipped = skipped
    return out


load_programs.skipped = []


def module_for(prop):
    return importlib.import_module(f"bsv.rules.{prop.lower()}")


def run(prop, tier):
    props = PROPS if prop == "all" else [prop]
    for p in props:
        if p not in PROPS:
            print(f"unknown or unclaimed property {p}", file=sys.stderr)
            return 3
    try:
        progs = load_programs(tier)
    except facts.FactsError as e:
        print("HARNESS-ERROR: could not extract facts from /repo's working tree:\n" + str(e), file=sys.stderr)
        return 3
    rc = 0
    for lab, err in load_programs.skipped:
        print(f"CONFIG-SKIPPED: fact base {lab} does not build on the working tree; the remaining fact bases are analysed\n  " +
              "\n  ".join(l for l in err.strip().splitlines() if l.startswith("error"))[:600], file=sys.stderr)
    for p in props:
        try:
            mod = module_for(p)
        except ModuleNotFoundError:
            if prop == "all":
                continue
            raise
        ctx = Ctx(p, tier, level=getattr(mod, "LEVEL", "other"))
        for lab, err in load_programs.skipped:
            ctx.note(f"fact base {lab} NOT ANALYSED: the working tree does not build in this feature configuration "
                     f"({err.strip().splitlines()[-1][:160] if err.strip() else 'build failed'})")
        for lab, P in progs:
            ctx.configs.append(dict(P.meta, label=lab))
        try:
            mod.run(ctx, progs)
            real, lines = ctx.finish(mod.EXPLANATION, getattr(mod, "EXPLORATION_RULE", None))
        except Exception:
            traceback.print_exc()
            print(f"HARNESS-ERROR: rule evaluation for {p} crashed (no verdict)", file=sys.stderr)
            return 3
        for l in lines:
            print(l)
        n_inst = len(ctx.instances)
        print(f"[{p}] tier={tier} fact_bases={[l for l, _ in progs]} rule_instances={n_inst} "
              f"violations={len(real)} wall={time.time() - ctx.t0:.1f}s")
        if real:
            rc = 1
    return rc


def explain(prop, path):
    with open(path) as f:
        rep = json.load(f)
    print(json.dumps(rep, indent=1))
    print("re-evaluating on the current tree ...")
    rc = run(prop, "quick")
    return rc
