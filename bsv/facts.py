"""E1 `mirfacts`: run the rustc_private driver over /repo's current working tree and load the fact base.

Every call to `extract` rebuilds from the working tree into a fresh scratch target dir (cargo's freshness
cache would otherwise skip the wrapper) and removes the scratch dir afterwards.
"""
import json, os, shutil, subprocess, tempfile, time, hashlib

VERIF = os.path.dirname(os.path.dirname(os.path.abspath(__file__)))
REPO = os.environ.get("BSV_REPO", "/repo")
DRIVER = os.path.join(VERIF, "driver", "target", "release", "bsv-driver")

STABLE_ALL = "allocator-api2-02,allocator-api2-03,allocator-api2-04,bytemuck,zerocopy-08,serde"
CONFIGS = {
    "default": [],
    "nodefault": ["--no-default-features"],
    "stable_all": ["--features", STABLE_ALL],
    "all": ["--all-features"],
}


class FactsError(Exception):
    pass


def nightly_sysroot():
    return subprocess.check_output(["rustc", "+nightly", "--print", "sysroot"], text=True).strip()


def scratch_root():
    d = os.environ.get("BSV_SCRATCH") or tempfile.gettempdir()
    os.makedirs(d, exist_ok=True)
    return d


def extract(config="default", release=False, repo=None, keep=False):
    """Returns (facts_dict, meta). Raises FactsError when the tree does not compile."""
    repo = repo or REPO
    if not os.path.exists(DRIVER):
        raise FactsError(f"driver not built: {DRIVER} (run MANIFEST.setup_cmd)")
    scratch = tempfile.mkdtemp(prefix="bsv-facts-", dir=scratch_root())
    out = os.path.join(scratch, "facts.json")
    env = dict(os.environ)
    env.update({
        "LD_LIBRARY_PATH": os.path.join(nightly_sysroot(), "lib") + ":" + env.get("LD_LIBRARY_PATH", ""),
        "RUSTFLAGS": "-Zmir-opt-level=0 -Awarnings",
        "RUSTC_WORKSPACE_WRAPPER": DRIVER,
        "BSV_OUT": out,
        "BSV_CRATE": "bump_scope",
        "CARGO_TARGET_DIR": os.path.join(scratch, "target"),
        "CARGO_NET_OFFLINE": "true",
    })
    env.pop("RUSTC_WRAPPER", None)
    cmd = ["cargo", "+nightly", "check", "--offline", "--lib", "-p", "bump-scope"] + CONFIGS[config]
    if release:
        cmd.append("--release")
    t0 = time.time()
    try:
        p = subprocess.run(cmd, cwd=repo, env=env, stdout=subprocess.PIPE, stderr=subprocess.STDOUT, text=True)
        if p.returncode != 0:
            raise FactsError(f"cargo check failed for config {config} (release={release}):\n" + p.stdout[-4000:])
        if not os.path.exists(out):
            raise FactsError("driver did not write the fact file (wrapper skipped?)\n" + p.stdout[-2000:])
        with open(out) as f:
            raw = f.read()
        facts = json.loads(raw)
        meta = {
            "config": config,
            "release": release,
            "bytes": len(raw),
            "sha256": hashlib.sha256(raw.encode()).hexdigest()[:16],
            "extract_s": round(time.time() - t0, 2),
            "nbodies": facts["nbodies"],
        }
        return facts, meta
    finally:
        if not keep:
            shutil.rmtree(scratch, ignore_errors=True)
