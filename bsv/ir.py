"""Program representation over the exported facts: bodies, CFG queries (dominance / must-pass-through /
control dependence by edge removal), reaching definitions and PROV expression trees, unwind walks with
drop-flag constant propagation."""
import re
from collections import defaultdict, deque

RET = "RET"      # virtual exit: normal return
UNW = "UNW"      # virtual exit: unwinding leaves the function (resume, or call with unwind=continue)
ABORT = "ABORT"  # terminate / unreachable

POINTER_CHECK_ASSERTS = {"misaligned", "nullptr"}

# wrappers that return their (first) argument unchanged, as far as provenance is concerned
TRANSPARENT_CALLS = {
    "core::ptr::NonNull::<T>::addr": 0, "core::ptr::NonNull::<T>::cast": 0, "core::ptr::NonNull::<T>::as_ptr": 0,
    "core::ptr::NonNull::<T>::new_unchecked": 0, "core::num::NonZero::<T>::get": 0,
    "core::num::NonZero::<T>::new_unchecked": 0, "core::cell::Cell::<T>::get": 0,
    "core::ptr::const_ptr::<impl *const T>::cast": 0, "core::ptr::mut_ptr::<impl *mut T>::cast": 0,
    "core::ptr::const_ptr::<impl *const T>::cast_mut": 0, "core::ptr::mut_ptr::<impl *mut T>::cast_const": 0,
    "core::ptr::const_ptr::<impl *const T>::addr": 0, "core::ptr::mut_ptr::<impl *mut T>::addr": 0,
    "core::convert::Into::into": 0, "core::convert::From::from": 0,
    "core::clone::Clone::clone": 0,
    "core::hint::must_use": 0,
    # a layout padded to its own alignment stands for "the caller's layout" in provenance questions (which block, which
    # parameter); that the padding is there at all is checked by a rule of its own (C12.R6)
    "core::alloc::Layout::pad_to_align": 0,
    "polyfill::hint::likely": 0, "polyfill::hint::unlikely": 0, "bumping::likely": 0, "bumping::unlikely": 0,
    "core::ops::Deref::deref": 0, "core::ops::DerefMut::deref_mut": 0,
    "core::borrow::Borrow::borrow": 0, "core::convert::AsRef::as_ref": 0,
    "core::ptr::NonNull::<T>::as_ref": 0, "core::ptr::NonNull::<T>::as_mut": 0,
    "core::ptr::NonNull::<T>::from_ref": 0, "core::ptr::NonNull::<T>::from_mut": 0,
    "core::mem::ManuallyDrop::<T>::new": 0, "core::mem::ManuallyDrop::<T>::into_inner": 0,
}


class Site:
    """A program point: statement `idx` of block `bb`; idx == len(stmts) is the terminator."""
    __slots__ = ("bb", "idx")

    def __init__(self, bb, idx):
        self.bb, self.idx = bb, idx

    def __repr__(self):
        return f"bb{self.bb}[{self.idx}]"

    def __eq__(self, o):
        return (self.bb, self.idx) == (o.bb, o.idx)

    def __hash__(self):
        return hash((self.bb, self.idx))


def place_is_local(p):
    return not p["p"]


def const_literal(op):
    """bool/int literal of an operand, or None."""
    if op.get("k") != "c":
        return None
    c = op["c"]
    if c["t"] == "bool":
        return 1 if c["v"] else 0
    if c["t"] == "int":
        return int(c["v"])
    return None


class Body:
    def __init__(self, prog, fid, raw):
        self.prog = prog
        self.id = fid
        self.raw = raw
        self.blocks = raw["blocks"]
        self.locals = raw["locals"]
        self.argc = raw["argc"]
        self.item = prog.items.get(fid)
        self.path = self.item["path"] if self.item else fid
        self._succ = None
        self._defs = None
        self._rd = None
        self._prov_cache = {}
        self._flags = None

    # ------------------------------------------------------------------ structure
    def term(self, bb):
        return self.blocks[bb]["t"]

    def stmts(self, bb):
        return self.blocks[bb]["s"]

    def term_site(self, bb):
        return Site(bb, len(self.blocks[bb]["s"]))

    def is_cleanup(self, bb):
        return self.blocks[bb]["c"]

    def line_of(self, site):
        b = self.blocks[site.bb]
        if site.idx < len(b["s"]):
            return b["s"][site.idx].get("line")
        return b["t"].get("line")

    def where(self, site=None):
        f = self.item.get("file") if self.item else "?"
        if site is None:
            return f"{f}:{self.item.get('line') if self.item else '?'}"
        return f"{f}:{self.line_of(site)}"

    def succs(self, bb):
        """[(target, label)] with constant-decided switches pruned."""
        if self._succ is None:
            self._succ = [self._succs(i) for i in range(len(self.blocks))]
        return self._succ[bb]

    def _succs(self, bb):
        t = self.blocks[bb]["t"]
        k = t["k"]
        out = []
        if k == "goto":
            out.append((t["t"], "goto"))
        elif k == "switch":
            lit = const_literal(t["d"])
            if lit is None:
                lit = self._flagless_const(bb, t["d"])
            taken = None
            if lit is not None:
                taken = t["else"]
                for v, tgt in t["vals"]:
                    if int(v) == lit:
                        taken = tgt
            for v, tgt in t["vals"]:
                if taken is None or tgt == taken and int(v) == lit:
                    out.append((tgt, "sw:" + v))
            if taken is None or (taken == t["else"] and not any(int(v) == lit for v, _ in t["vals"])):
                out.append((t["else"], "sw:else"))
        elif k == "call":
            if t["ret"] is not None:
                out.append((t["ret"], "ret"))
            self._unw(t["unw"], out)
        elif k == "drop":
            out.append((t["ret"], "ret"))
            self._unw(t["unw"], out)
        elif k == "assert":
            out.append((t["ret"], "ret"))
            if t["msg"] not in POINTER_CHECK_ASSERTS:
                self._unw(t["unw"], out)
        elif k == "return":
            out.append((RET, "return"))
        elif k == "resume":
            out.append((UNW, "resume"))
        elif k in ("unreachable", "terminate"):
            out.append((ABORT, k))
        elif k == "tailcall":
            out.append((RET, "return"))
        return out

    def _unw(self, u, out):
        if isinstance(u, int):
            out.append((u, "unw"))
        elif u == "continue":
            out.append((UNW, "unw"))
        elif u == "terminate":
            out.append((ABORT, "unw"))

    def _flagless_const(self, bb, op):
        """`_x = const C; switchInt(move _x)` in the same block (cfg!(..) and `if CONST` shapes)."""
        if op.get("k") not in ("cp", "mv") or op["p"]["p"]:
            return None
        l = op["p"]["l"]
        for st in reversed(self.blocks[bb]["s"]):
            if st["k"] == "assign" and place_is_local(st["p"]) and st["p"]["l"] == l:
                r = st["r"]
                if r["k"] == "use":
                    return const_literal(r["o"])
                return None
        return None

    # ------------------------------------------------------------------ reachability primitives
    def reach(self, start_blocks, removed_blocks=(), removed_edges=(), cleanup=True, stop_blocks=()):
        """Forward reachability. Returns (set of reached blocks incl. virtual exits). Entering a block in
        `removed_blocks` is forbidden; edges (bb, target, label) in removed_edges are skipped; `stop_blocks`
        are reached but not expanded."""
        removed_blocks = set(removed_blocks)
        removed_edges = set(removed_edges)
        stop_blocks = set(stop_blocks)
        seen = set()
        dq = deque()
        for s in start_blocks:
            if s not in removed_blocks:
                seen.add(s)
                dq.append(s)
        while dq:
            b = dq.popleft()
            if not isinstance(b, int) or b in stop_blocks:
                continue
            for tgt, lab in self.succs(b):
                if (b, tgt, lab) in removed_edges:
                    continue
                if tgt in removed_blocks or tgt in seen:
                    continue
                if not cleanup and isinstance(tgt, int) and self.is_cleanup(tgt):
                    continue
                seen.add(tgt)
                dq.append(tgt)
        return seen

    def reachable_blocks(self):
        return {b for b in self.reach([0]) if isinstance(b, int)}

    def dominates(self, a, b, cleanup=True):
        """Site a dominates site b: every path from entry to b passes a."""
        if a.bb == b.bb:
            if a.idx <= b.idx:
                return True
            # later in the same block: only if the block cannot be entered... never
            return False
        return b.bb not in self.reach([0], removed_blocks=[a.bb], cleanup=cleanup)

    def edges_dominate(self, edges, b, cleanup=True):
        """Every path from entry to site b uses one of `edges` [(bb, target, label)]."""
        return b.bb not in self.reach([0], removed_edges=edges, cleanup=cleanup)

    def must_pass(self, frm, through_blocks, exits=(RET,), cleanup=True, from_edge=None):
        """Every path from site `frm` (exclusive) to an exit of a kind in `exits` passes one of through_blocks.
        Returns (ok, witness_exit)."""
        through = set(through_blocks)
        if from_edge is not None:
            starts = [from_edge]
        else:
            starts = [t for t, _ in self.succs(frm.bb)]
        # statements after frm in the same block are in frm.bb itself; if frm.bb is a through block after frm.idx
        # the caller should check that separately.
        seen = self.reach([s for s in starts if s not in through], removed_blocks=through, cleanup=cleanup)
        for s in starts:
            if s in exits:
                return False, s
        for e in exits:
            if e in seen:
                return False, e
        return True, None

    def can_reach(self, a, b, cleanup=True):
        """Is site b reachable from site a (a executed first)?"""
        if a.bb == b.bb and a.idx < b.idx:
            return True
        starts = [t for t, _ in self.succs(a.bb)]
        return b.bb in self.reach(starts, cleanup=cleanup)

    # ------------------------------------------------------------------ sites
    def calls(self):
        """[(Site, term)] for every call terminator in reachable blocks."""
        out = []
        rb = self.reachable_blocks()
        for i, b in enumerate(self.blocks):
            if i in rb and b["t"]["k"] == "call":
                out.append((self.term_site(i), b["t"]))
        return out

    def calls_to(self, pred):
        """Calls whose callee satisfies pred(callee_dict). Indirect calls are skipped."""
        out = []
        for s, t in self.calls():
            f = t["f"]
            if "path" in f and pred(f):
                out.append((s, t))
        return out

    def drops(self):
        out = []
        rb = self.reachable_blocks()
        for i, b in enumerate(self.blocks):
            if i in rb and b["t"]["k"] == "drop":
                out.append((self.term_site(i), b["t"]))
        return out

    def assigns(self):
        rb = self.reachable_blocks()
        for i, b in enumerate(self.blocks):
            if i not in rb:
                continue
            for j, st in enumerate(b["s"]):
                if st["k"] == "assign":
                    yield Site(i, j), st

    def switches(self):
        rb = self.reachable_blocks()
        for i, b in enumerate(self.blocks):
            if i in rb and b["t"]["k"] == "switch":
                yield i, b["t"]

    def return_blocks(self):
        rb = self.reachable_blocks()
        return [i for i in rb if self.blocks[i]["t"]["k"] == "return"]

    # ------------------------------------------------------------------ reaching definitions
    def _collect_defs(self):
        """defs: list of (local, Site, kind, payload, proj) ; kind in assign/call/param.
        proj == () for whole-local definitions, else tuple of projection keys (partial def)."""
        defs = []
        for l in range(1, self.argc + 1):
            defs.append((l, None, "param", l, ()))
        for i, b in enumerate(self.blocks):
            for j, st in enumerate(b["s"]):
                if st["k"] == "assign":
                    p = st["p"]
                    defs.append((p["l"], Site(i, j), "assign", st["r"], proj_key(p["p"])))
                elif st["k"] == "setdisc":
                    p = st["p"]
                    defs.append((p["l"], Site(i, j), "setdisc", st, proj_key(p["p"]) + ("#disc",)))
            t = b["t"]
            if t["k"] == "call":
                p = t["dest"]
                defs.append((p["l"], Site(i, len(b["s"])), "call", t, proj_key(p["p"])))
        self._defs = defs
        self._defs_of = defaultdict(list)
        for n, d in enumerate(defs):
            self._defs_of[d[0]].append(n)

    def _reaching(self):
        if self._rd is not None:
            return
        if self._defs is None:
            self._collect_defs()
        defs = self._defs
        nb = len(self.blocks)
        gen = [0] * nb
        kill = [0] * nb
        all_of = {l: sum(1 << n for n in ns) for l, ns in self._defs_of.items()}
        by_block = defaultdict(list)
        for n, d in enumerate(defs):
            if d[1] is not None:
                by_block[d[1].bb].append((d[1].idx, n))
        for i in range(nb):
            g = 0
            k = 0
            for _, n in sorted(by_block.get(i, [])):
                l, site, kind, payload, proj = defs[n]
                if proj == () and not (kind == "call"):
                    k |= all_of[l]
                    g &= ~all_of[l]
                    g |= 1 << n
                elif proj == () and kind == "call":
                    # the call's result is defined on the return edge only; handled as gen at block end
                    k |= all_of[l]
                    g &= ~all_of[l]
                    g |= 1 << n
                else:
                    g |= 1 << n
            gen[i], kill[i] = g, k
        entry = 0
        for n, d in enumerate(defs):
            if d[2] == "param":
                entry |= 1 << n
        preds = defaultdict(list)
        for i in range(nb):
            for tgt, lab in self.succs(i):
                if isinstance(tgt, int):
                    preds[tgt].append(i)
        IN = [0] * nb
        OUT = [0] * nb
        IN[0] = entry
        OUT[0] = (entry & ~kill[0]) | gen[0]
        work = deque(range(nb))
        inq = [True] * nb
        while work:
            i = work.popleft()
            inq[i] = False
            v = entry if i == 0 else 0
            for p in preds[i]:
                v |= OUT[p]
            IN[i] = v
            o = (v & ~kill[i]) | gen[i]
            if o != OUT[i]:
                OUT[i] = o
                for tgt, _ in self.succs(i):
                    if isinstance(tgt, int) and not inq[tgt]:
                        inq[tgt] = True
                        work.append(tgt)
        self._rd = IN
        self._by_block = by_block

    def reaching_defs(self, local, site):
        """Definition indices of `local` (whole and partial) reaching `site` (before it executes)."""
        self._reaching()
        cur = self._rd[site.bb]
        defs = self._defs
        mask_l = 0
        for n in self._defs_of.get(local, []):
            mask_l |= 1 << n
        cur &= mask_l
        for idx, n in sorted(self._by_block.get(site.bb, [])):
            if idx >= site.idx:
                break
            l, s, kind, payload, proj = defs[n]
            if l != local:
                continue
            if proj == ():
                cur = 1 << n
            else:
                cur |= 1 << n
        return [n for n in self._defs_of.get(local, []) if cur >> n & 1]

    # ------------------------------------------------------------------ PROV
    def prov_operand(self, op, site, depth=0, stack=()):
        k = op.get("k")
        if k == "c":
            return const_expr(op["c"])
        if k in ("cp", "mv"):
            return self.prov_place(op["p"], site, depth, stack)
        if k == "rtc":
            return ("rtc", op["s"])
        return ("unknown", "operand")

    def prov_place(self, place, site, depth=0, stack=()):
        base = self.prov_local(place["l"], site, depth, stack, want_proj=proj_key(place["p"]))
        if isinstance(base, tuple) and base and base[0] == "#exact":
            return base[1]
        e = base
        for pe in place["p"]:
            e = project(e, pe)
        return e

    def prov_local(self, local, site, depth, stack, want_proj=()):
        if depth > 60:
            return ("unknown", "depth")
        key = (local, site.bb, site.idx, want_proj)
        if not stack and key in self._prov_cache:
            return self._prov_cache[key]
        if stack:
            # results computed inside another query embed that query's cycle cut ('loop' markers): never cache them,
            # so that every top-level query yields the same tree regardless of what was asked before
            return self._prov_local_uncached(local, site, depth, stack, want_proj)
        r = self._prov_local_uncached(local, site, depth, stack, want_proj)
        self._prov_cache[key] = r
        return r

    def _prov_local_uncached(self, local, site, depth, stack, want_proj):
        key = None
        ns = self.reaching_defs(local, site)
        whole = [n for n in ns if self._defs[n][4] == ()]
        partial = [n for n in ns if self._defs[n][4] != ()]
        # exact partial match: `_5.0 = x` then read of `_5.0`
        if want_proj:
            exact = [n for n in partial if self._defs[n][4] == want_proj]
            if exact and len(exact) == len([n for n in partial if overlaps(self._defs[n][4], want_proj)]) and not whole:
                alts = [self._def_expr(n, depth, stack) for n in exact]
                r = ("#exact", alts[0] if len(alts) == 1 else ("phi", tuple(alts)))
                return r
            if exact and whole:
                # both a whole def and later partial overwrite reach: phi of exact partials (later write wins on
                # straight-line code; on joins this over-approximates to phi)
                alts = [self._def_expr(n, depth, stack) for n in exact]
                for n in whole:
                    e = self._def_expr(n, depth, stack)
                    for pe in place_from_key(want_proj):
                        e = project(e, pe)
                    alts.append(e)
                # if the partial def is in the same block after the whole def, it wins outright
                r = ("#exact", alts[0] if len(exact) == 1 and self._later(exact[0], whole) else ("phi", tuple(alts)))
                return r
        if not whole:
            if partial:
                # built field by field (aggregates lowered to field stores)
                fields = {}
                for n in partial:
                    fields.setdefault(self._defs[n][4], []).append(self._def_expr(n, depth, stack))
                r = ("parts", tuple(sorted((k, tuple(v)) for k, v in fields.items())))
            else:
                r = ("undef", local)
            return r
        alts = []
        for n in whole:
            alts.append(self._def_expr(n, depth, stack))
        # dedupe
        uniq = []
        for a in alts:
            if a not in uniq:
                uniq.append(a)
        r = uniq[0] if len(uniq) == 1 else ("phi", tuple(uniq))
        return r

    def _later(self, n, whole):
        s = self._defs[n][1]
        for w in whole:
            ws = self._defs[w][1]
            if ws is None:
                continue
            if not (ws.bb == s.bb and ws.idx < s.idx) and not self.dominates(ws, s):
                return False
        return True

    def _def_expr(self, n, depth, stack):
        l, site, kind, payload, proj = self._defs[n]
        if kind == "param":
            nm = self.locals[l].get("name")
            return ("param", l, nm)
        if (n in stack):
            return ("loop", l)
        stack = stack + (n,)
        if kind == "assign":
            return self.prov_rvalue(payload, site, depth + 1, stack)
        if kind == "setdisc":
            return ("setdisc", payload["i"])
        if kind == "call":
            return self.prov_call(payload, site, depth + 1, stack)
        return ("unknown", kind)

    def prov_call(self, t, site, depth=0, stack=()):
        f = t["f"]
        if "path" not in f:
            return ("icall", tuple(self.prov_operand(a, site, depth, stack) for a in t["args"]))
        path = f["path"]
        tp = TRANSPARENT_CALLS.get(path)
        if tp is None and f.get("res"):
            tp = TRANSPARENT_CALLS.get(f["res"]["path"])
        if tp is not None and len(t["args"]) > tp:
            inner = self.prov_operand(t["args"][tp], site, depth, stack)
            if path.endswith("Layout::pad_to_align") and inner[0] == "ref":
                return inner[1]             # takes &self, returns the (padded) layout by value
            return inner
        args = tuple(self.prov_operand(a, site, depth, stack) for a in t["args"])
        gargs = tuple(a.get("s", "") for a in f.get("args", []) if a["k"] != "lt")
        return ("call", path, args, gargs, (site.bb,))

    def prov_rvalue(self, r, site, depth=0, stack=()):
        k = r["k"]
        if k == "use":
            return self.prov_operand(r["o"], site, depth, stack)
        if k in ("ref", "rawptr"):
            inner = self.prov_place(r["p"], site, depth, stack)
            return mkref(inner)
        if k == "cast":
            e = self.prov_operand(r["o"], site, depth, stack)
            ck = r["ck"]
            if ck.startswith("PtrToPtr") or ck.startswith("PointerCoercion") or ck in ("Transmute", "Subtype") \
                    or ck.startswith("PointerExposeProvenance") or ck.startswith("PointerWithExposedProvenance"):
                return ("cast", ck.split("(")[0], e, r["ty"])
            return ("cast", ck.split("(")[0], e, r["ty"])
        if k == "bin":
            a = self.prov_operand(r["a"], site, depth, stack)
            b = self.prov_operand(r["b"], site, depth, stack)
            return ("bin", r["op"], a, b)
        if k == "un":
            return ("un", r["op"], self.prov_operand(r["o"], site, depth, stack))
        if k == "disc":
            vs = tuple((v[0], v[1]) for v in r.get("variants", []))
            return ("disc", self.prov_place(r["p"], site, depth, stack), vs)
        if k == "agg":
            fields = tuple(self.prov_operand(o, site, depth, stack) for o in r["fields"])
            if r["ak"] == "adt":
                return ("agg", r["adt"], r["variant"], tuple(r.get("fnames", [])), fields)
            if r["ak"] == "closure":
                return ("closure", r["id"], fields)
            return ("agg", r["ak"], None, (), fields)
        if k == "repeat":
            return ("repeat", self.prov_operand(r["o"], site, depth, stack), r["n"])
        return ("unknown", k)

    def root_var(self, op, site, depth=0):
        """Follow plain copies/moves (and tuple/aggregate wrapping of a single value) back to the variable an operand
        stands for: (local, frozenset of reaching definition ids at the point of the copy). Two operands with the same
        root_var denote the same run-time value. Loop-carried variables are handled (no expression trees involved)."""
        if op.get("k") not in ("cp", "mv") or depth > 30:
            return None
        p = op["p"]
        if p["p"]:
            return ("proj", p["l"], proj_key(p["p"]), frozenset(self.reaching_defs(p["l"], site)))
        l = p["l"]
        ns = self.reaching_defs(l, site)
        whole = [n for n in ns if self._defs[n][4] == ()]
        if len(whole) == 1 and len(ns) == 1:
            _, dsite, kind, payload, _ = self._defs[whole[0]]
            if kind == "assign" and payload["k"] == "use" and payload["o"].get("k") in ("cp", "mv"):
                r = self.root_var(payload["o"], dsite, depth + 1)
                if r is not None:
                    return r
        return ("var", l, frozenset(ns))

    # ------------------------------------------------------------------ conditions / control dependence
    def cond_edges(self, pred):
        """Edges on which a condition recognised by `pred` has a known truth value.
        pred(expr) -> None (not this condition) | True | False giving the *polarity* (expr true means cond true,
        or expr true means cond false).  Returns (true_edges, false_edges), each [(bb, target, label)]."""
        true_edges, false_edges = [], []
        for bb, t in self.switches():
            site = self.term_site(bb)
            e = self.prov_operand(t["d"], site)
            for (expr, pol, strength) in cond_atoms(e):
                m = pred(expr)
                if m is None:
                    continue
                pol = pol if m else not pol
                # bool switch: value 0 -> false edge, otherwise -> true
                for tgt, lab in self.succs(bb):
                    if not lab.startswith("sw:"):
                        continue
                    is_true = not (lab == "sw:0")
                    holds = is_true if pol else not is_true
                    # strength: 'both' = atom known on both edges, 'true' = atom known only when e is true
                    if strength == "true" and not is_true:
                        continue
                    if strength == "false" and is_true:
                        continue
                    (true_edges if holds else false_edges).append((bb, tgt, lab))
        return true_edges, false_edges

    def variant_edges(self, pred):
        """For switches on `discriminant(x)` where pred(prov(x)) holds: {variant_name: [(bb,tgt,label)]}; the
        'sw:else' edge is attributed to every variant not listed explicitly."""
        out = defaultdict(list)
        for bb, t in self.switches():
            site = self.term_site(bb)
            e = self.prov_operand(t["d"], site)
            if e[0] != "disc" or not pred(e[1]):
                continue
            names = dict(e[2])
            listed = set()
            for tgt, lab in self.succs(bb):
                if lab == "sw:else":
                    continue
                v = lab[3:]
                listed.add(v)
                out[names.get(v, v)].append((bb, tgt, lab))
            for tgt, lab in self.succs(bb):
                if lab == "sw:else":
                    for v, n in names.items():
                        if v not in listed:
                            out[n].append((bb, tgt, lab))
        return out

    def controlled_by(self, site, edges, cleanup=True):
        """Every path from entry to `site` takes one of `edges`."""
        if not edges:
            return False
        return self.edges_dominate(edges, site, cleanup=cleanup)

    # ------------------------------------------------------------------ drop flags and unwind walks
    def flag_locals(self):
        """bool locals that are only ever assigned literal constants (drop flags)."""
        if self._flags is not None:
            return self._flags
        if self._defs is None:
            self._collect_defs()
        flags = set()
        for l, ns in self._defs_of.items():
            if self.locals[l]["ty"] != "bool" or l <= self.argc:
                continue
            ok = True
            for n in ns:
                _, s, kind, payload, proj = self._defs[n]
                if kind != "assign" or proj != () or payload["k"] != "use" or const_literal(payload["o"]) is None:
                    ok = False
                    break
            if ok:
                flags.add(l)
        self._flags = flags
        return flags

    def flag_state_at(self, site):
        """{flag_local: 0/1/None} before `site` (None = not constant)."""
        st = {}
        for l in self.flag_locals():
            ns = self.reaching_defs(l, site)
            vals = {const_literal(self._defs[n][3]["o"]) for n in ns}
            st[l] = vals.pop() if len(vals) == 1 else None
        return st

    def unwind_walk(self, call_site):
        """Path-sensitive walk of the cleanup subgraph from the unwind edge of the terminator at `call_site`,
        resolving drop-flag switches. Returns (must_drops, may_drops, ends) where drops are
        frozensets of (local, proj_key, ty) dropped on every / some path and `ends` the set of exits."""
        t = self.term(call_site.bb)
        unw = t.get("unw")
        if not isinstance(unw, int):
            return frozenset(), frozenset(), {UNW if unw == "continue" else ABORT}
        state0 = self.flag_state_at(call_site)
        results = []
        ends = set()
        seen = set()

        def key(bb, st):
            return (bb, tuple(sorted(st.items())))

        def walk(bb, st, drops, depth):
            if depth > 400:
                results.append(frozenset(drops))
                return
            k = key(bb, st)
            if k in seen:
                return
            seen.add(k)
            st = dict(st)
            for s in self.stmts(bb):
                if s["k"] == "assign" and place_is_local(s["p"]) and s["p"]["l"] in st:
                    st[s["p"]["l"]] = const_literal(s["r"]["o"]) if s["r"]["k"] == "use" else None
            t = self.term(bb)
            if t["k"] == "drop":
                p = t["p"]
                drops = drops | {(p["l"], proj_key(p["p"]), t["ty"], tuple(t.get("adts", ())))}
            if t["k"] == "switch":
                d = t["d"]
                if d.get("k") in ("cp", "mv") and not d["p"]["p"] and st.get(d["p"]["l"]) is not None:
                    v = st[d["p"]["l"]]
                    tgt = t["else"]
                    for vv, tt in t["vals"]:
                        if int(vv) == v:
                            tgt = tt
                    walk(tgt, st, drops, depth + 1)
                    return
            nxt = [(tgt, lab) for tgt, lab in self.succs(bb) if lab != "unw" or t["k"] not in ("drop",)]
            # a drop inside cleanup that itself unwinds terminates; ignore that edge
            if not nxt:
                results.append(frozenset(drops))
                return
            for tgt, lab in nxt:
                if not isinstance(tgt, int):
                    ends.add(tgt)
                    results.append(frozenset(drops))
                else:
                    walk(tgt, st, drops, depth + 1)

        walk(unw, state0, frozenset(), 0)
        if not results:
            return frozenset(), frozenset(), ends
        must = frozenset.intersection(*results)
        may = frozenset.union(*results)
        return must, may, ends


# ---------------------------------------------------------------------- expression helpers

def proj_key(projs):
    out = []
    for pe in projs:
        if pe == "*":
            out.append("*")
        elif "f" in pe:
            out.append(("f", pe["f"], pe.get("n"), pe.get("of")))
        elif "dc" in pe:
            out.append(("dc", pe["dc"]))
        elif "ix" in pe:
            out.append(("ix",))
        elif "ci" in pe:
            out.append(("ci", pe["ci"], pe["from_end"]))
        else:
            out.append(("other",))
    return tuple(out)


def place_from_key(key):
    out = []
    for k in key:
        if k == "*":
            out.append("*")
        elif k[0] == "f":
            out.append({"f": k[1], "n": k[2], "of": k[3] if len(k) > 3 else None})
        elif k[0] == "dc":
            out.append({"dc": k[1]})
        else:
            out.append({"other": 1})
    return out


def overlaps(a, b):
    n = min(len(a), len(b))
    return a[:n] == b[:n]


def mkref(e):
    if e[0] == "deref":
        return e[1]
    return ("ref", e)


def project(e, pe):
    if e[0] == "phi":
        return ("phi", tuple(project(a, pe) for a in e[1]))
    if e[0] == "ite":
        return ("ite", e[1], tuple((k, project(v, pe)) for k, v in e[2]))
    if pe == "*":
        if e[0] == "ref":
            return e[1]
        return ("deref", e)
    if "f" in pe:
        name = pe.get("n") if pe.get("n") is not None else str(pe["f"])
        if e[0] == "agg" and e[1] not in ("tuple", "array", "closure", "rawptr"):
            fn = e[3]
            if name in fn:
                return e[4][fn.index(name)]
        if e[0] == "agg" and e[1] == "tuple":
            i = pe["f"]
            if i < len(e[4]):
                return e[4][i]
        if e[0] == "parts":
            for k, v in e[1]:
                if len(k) == 1 and k[0][0] == "f" and k[0][1] == pe["f"]:
                    return v[0] if len(v) == 1 else ("phi", v)
        # checked arithmetic: (a op b).0 is the result
        if e[0] == "bin" and e[1].endswith("WithOverflow"):
            if pe["f"] == 0:
                return ("bin", e[1][:-len("WithOverflow")], e[2], e[3])
            return ("overflowed", e)
        return ("field", e, name, pe.get("of"))
    if "dc" in pe:
        return ("downcast", e, pe["dc"])
    if "ix" in pe:
        return ("index", e)
    return ("proj", e)


def const_expr(c):
    t = c["t"]
    if t == "int":
        return ("int", int(c["v"]), c.get("ty"))
    if t == "bool":
        return ("int", 1 if c["v"] else 0, "bool")
    if t == "uneval":
        args = tuple(a.get("s", "") for a in c.get("args", []) if a["k"] != "lt")
        if c.get("trait"):
            return ("assoc_const", c["trait"], c["name"], args)
        return ("const_item", c["path"], args, c.get("promoted"))
    if t == "param":
        return ("const_param", c["name"])
    if t == "fn":
        return ("fn", c["f"]["path"])
    if t == "static_ref":
        return ("static_ref", c["path"], int(c.get("offset", 0)))
    return ("const", c.get("s"), c.get("ty"))


def cond_atoms(e, pol=True, strength="both"):
    """Decompose a switch discriminant into atoms: [(atom_expr, polarity, strength)].
    polarity True: atom true <=> e true (on edges where strength applies)."""
    out = [(e, pol, strength)]
    if e[0] == "un" and e[1] == "Not":
        out += cond_atoms(e[2], not pol, strength)
    elif e[0] == "bin" and e[1] == "BitAnd":
        # e true => both true ; e false => nothing about the atoms
        s = "true" if pol else "false"
        if strength in ("both", s):
            out += cond_atoms(e[2], pol, s) + cond_atoms(e[3], pol, s)
    elif e[0] == "bin" and e[1] == "BitOr":
        s = "false" if pol else "true"
        if strength in ("both", s):
            out += cond_atoms(e[2], pol, s) + cond_atoms(e[3], pol, s)
    elif e[0] == "phi":
        pass
    return out


def walk_expr(e):
    """Pre-order traversal of all sub-expressions."""
    yield e
    if not isinstance(e, tuple):
        return
    for x in e[1:]:
        if isinstance(x, tuple):
            if x and isinstance(x[0], str):
                yield from walk_expr(x)
            else:
                for y in x:
                    if isinstance(y, tuple) and y and isinstance(y[0], str):
                        yield from walk_expr(y)
                    elif isinstance(y, tuple):
                        for z in y:
                            if isinstance(z, tuple) and z and isinstance(z[0], str):
                                yield from walk_expr(z)
                            elif isinstance(z, tuple):
                                for w in z:
                                    if isinstance(w, tuple) and w and isinstance(w[0], str):
                                        yield from walk_expr(w)


def expr_mentions(e, pred):
    return any(pred(x) for x in walk_expr(e))


def phi_alts(e):
    if e[0] == "phi":
        out = []
        for a in e[1]:
            out += phi_alts(a)
        return out
    return [e]


def show(e, depth=0):
    """Compact rendering of an expression tree for reports."""
    if not isinstance(e, tuple) or not e:
        return str(e)
    if depth > 8:
        return "…"
    k = e[0]
    d = depth + 1
    if not isinstance(k, str):
        return "(" + ", ".join(show(a, d) if isinstance(a, tuple) else str(a) for a in e) + ")"
    if k == "ite":
        return "ite(" + show(e[1], d) + " ? " + " ; ".join(f"{key}: {show(v, d)}" for key, v in e[2]) + ")"
    if k == "param":
        return f"{e[2] or '_' + str(e[1])}"
    if k == "int":
        return str(e[1])
    if k == "assoc_const":
        return f"<{e[3][0] if e[3] else '?'}>::{e[2]}"
    if k == "const_item":
        return e[1].split("::")[-1] + (f"<{','.join(e[2])}>" if e[2] else "")
    if k == "field":
        return f"{show(e[1], d)}.{e[2]}"
    if k == "deref":
        return f"*{show(e[1], d)}"
    if k == "ref":
        return f"&{show(e[1], d)}"
    if k == "call":
        short = re.sub(r"<[^<>]*>", "", e[1]).split("::")
        short = "::".join(x for x in short[-2:] if x)
        return f"{short}({', '.join(show(a, d) for a in e[2])})"
    if k == "bin":
        return f"({show(e[2], d)} {e[1]} {show(e[3], d)})"
    if k == "un":
        return f"{e[1]}({show(e[2], d)})"
    if k == "cast":
        return f"({show(e[2], d)} as {e[3]})"
    if k == "phi":
        return "φ(" + " | ".join(show(a, d) for a in e[1]) + ")"
    if k == "agg":
        return f"{(e[1] or '').split('::')[-1]}::{e[2]}{{{', '.join(show(a, d) for a in e[4])}}}"
    if k == "disc":
        return f"discr({show(e[1], d)})"
    if k == "downcast":
        return f"({show(e[1], d)} as {e[2]})"
    return k + "(" + ", ".join(show(a, d) if isinstance(a, tuple) else str(a) for a in e[1:]) + ")"
