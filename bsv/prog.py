"""Program: indexes over one fact base (items, impls, traits, ADTs, bodies) and the call graph."""
import re
from collections import defaultdict, deque
from .ir import Body

INTERESTING_BINDINGS = {"alloc::AllocError", "core::convert::Infallible"}


class Program:
    def __init__(self, facts, meta=None):
        self.meta = meta or {}
        self.facts = facts
        self.items = {i["id"]: i for i in facts["items"]}
        self.by_path = defaultdict(list)
        for i in facts["items"]:
            self.by_path[i["path"]].append(i)
        self.impls = {i["id"]: i for i in facts["impls"]}
        self.traits = {t["id"]: t for t in facts["traits"]}
        self.traits_by_path = {t["path"]: t for t in facts["traits"]}
        self.adts = {a["path"]: a for a in facts["adts"]}
        self._bodies = {}
        self.raw_bodies = facts["bodies"]
        # impl method index: trait item id -> [(impl, impl item id)]
        self.impls_of_trait_item = defaultdict(list)
        self.impl_of_item = {}
        for im in facts["impls"]:
            for it in im["items"]:
                self.impl_of_item[it["id"]] = im
                if "implements" in it:
                    self.impls_of_trait_item[it["implements"]].append((im, it["id"]))
        self.trait_of_item = {}
        for t in facts["traits"]:
            for it in t["items"]:
                self.trait_of_item[it["id"]] = t
        # drop impls by ADT path
        self.drop_impl = {}
        for im in facts["impls"]:
            if im.get("trait") == "core::ops::Drop":
                adt = im.get("self_adt") or adt_head(im["self_ty"])
                for it in im["items"]:
                    if it["name"] == "drop":
                        self.drop_impl[adt] = it["id"]
        self._cg = None

    # ------------------------------------------------------------------
    def body(self, fid):
        b = self._bodies.get(fid)
        if b is None:
            raw = self.raw_bodies.get(fid)
            if raw is None:
                return None
            b = Body(self, fid, raw)
            self._bodies[fid] = b
        return b

    def bodies(self):
        for fid in self.raw_bodies:
            yield self.body(fid)

    def fn_bodies(self):
        for fid in self.raw_bodies:
            it = self.items.get(fid)
            if it and it["kind"] in ("Fn", "AssocFn", "Closure"):
                yield self.body(fid)

    def find(self, path):
        """Unique item with this def-path; None if absent; raises if ambiguous."""
        l = self.by_path.get(path, [])
        if not l:
            return None
        if len(l) > 1:
            raise KeyError(f"ambiguous path {path}: {len(l)} items")
        return l[0]

    def find_body(self, path):
        it = self.find(path)
        return self.body(it["id"]) if it else None

    def find_re(self, regex, kinds=("Fn", "AssocFn")):
        r = re.compile(regex)
        return [i for i in self.facts["items"] if i["kind"] in kinds and r.search(i["path"])]

    def parent_fn(self, item):
        """For closures / nested fns: the enclosing fn item."""
        p = self.items.get(item.get("parent"))
        return p

    def outermost_fn(self, item):
        cur = item
        while True:
            p = self.items.get(cur.get("parent"))
            if p is None or p["kind"] not in ("Fn", "AssocFn", "Closure"):
                return cur
            cur = p

    def impl_for(self, item):
        return self.impl_of_item.get(item["id"])

    def generic_names(self, fid):
        it = self.items.get(fid)
        if not it or "generics" not in it:
            return []
        return [g["name"] for g in it["generics"]]

    # ------------------------------------------------------------------ call graph
    def callee_targets(self, f, binding=None, opaque_traits=()):
        """Local function ids a call with callee dict `f` may dispatch to, with the callee-side binding.
        binding: {param_name: concrete type string} of the *caller*."""
        binding = binding or {}
        out = []
        if "path" not in f:
            return out
        cargs = [a for a in f.get("args", [])]

        def subst(a):
            if a["k"] != "ty":
                return None
            if "param" in a:
                return binding.get(a["param"])
            return a["s"] if a["s"] in INTERESTING_BINDINGS else None

        res = f.get("res")
        if res and res.get("local"):
            tid = res["id"]
            names = self.generic_names(tid)
            rb = {}
            for nm, a in zip(names, res.get("args", [])):
                v = subst(a)
                if v:
                    rb[nm] = v
            return [(tid, rb)]
        if res and not res.get("local"):
            return []
        if f.get("local") and not f.get("trait"):
            tid = f["id"]
            names = self.generic_names(tid)
            rb = {}
            for nm, a in zip(names, cargs):
                v = subst(a)
                if v:
                    rb[nm] = v
            return [(tid, rb)]
        if f.get("trait"):
            # trait method on a type parameter (or unresolvable): CHA over local impls, filtered by the bound
            # self type when the binding makes it concrete
            self_arg = cargs[0] if cargs else None
            self_ty = subst(self_arg) if self_arg else None
            tid = f["id"]
            if f["trait"] in opaque_traits and self_arg is not None and "param" in self_arg and self_ty is None:
                # e.g. the base allocator: a different object whose state is not this arena's
                return out
            if not f.get("local") and self_arg is not None and "param" in self_arg and self_ty is None:
                # a foreign trait's method on a type parameter (Clone::clone on the base allocator, FnMut on a
                # closure parameter, ...): user code, not a local function
                return out
            cands = self.impls_of_trait_item.get(tid, [])
            for im, mid in cands:
                if self_ty is not None and im["self_ty"] != self_ty:
                    continue
                if self_ty is None and self_arg is not None and "param" not in self_arg and self_arg["k"] == "ty":
                    # concrete but rustc could not resolve: match on the ADT head
                    if adt_head(self_arg["s"]) != adt_head(im["self_ty"]):
                        continue
                out.append((mid, {}))
            # provided (default) method body in a local trait
            if f.get("local") and tid in self.raw_bodies:
                names = self.generic_names(tid)
                rb = {}
                for nm, a in zip(names, cargs):
                    v = subst(a)
                    if v:
                        rb[nm] = v
                if self_ty is None or not out:
                    out.append((tid, rb))
                else:
                    # an impl may not override the default: keep the default too when the impl lacks the item
                    out.append((tid, rb))
        return out

    def drop_targets(self, ty, seen=None, adts=None):
        """Local functions run by dropping a value of type string `ty` (Drop impls of local ADTs mentioned in it,
        transitively through fields). `adts`: exact ADT def paths mentioned in the type, when the exporter gave them."""
        seen = seen if seen is not None else set()
        out = []
        for adt in (adts if adts is not None else adts_in(ty)):
            if adt in seen:
                continue
            seen.add(adt)
            if adt in self.drop_impl:
                out.append(self.drop_impl[adt])
            a = self.adts.get(adt)
            if a:
                for v in a["variants"]:
                    for fd in v["fields"]:
                        out += self.drop_targets(fd["ty"], seen, fd.get("adts"))
        return out

    def out_edges(self, fid, binding=None, opaque_traits=()):
        """[(target_fid, target_binding, kind, site)] for a body."""
        b = self.body(fid)
        if b is None:
            return []
        out = []
        for site, t in b.calls():
            for tid, rb in self.callee_targets(t["f"], binding, opaque_traits):
                out.append((tid, rb, "call", site))
            # closures / fn items passed as arguments are assumed callable by the callee
            for a in t["args"]:
                if a.get("k") == "c" and a["c"]["t"] == "fn":
                    for tid, rb in self.callee_targets(a["c"]["f"], binding):
                        out.append((tid, rb, "fnarg", site))
            for a in t["f"].get("args", []):
                if a.get("closure") and a["closure"] in self.raw_bodies:
                    out.append((a["closure"], dict(binding or {}), "closure-arg", site))
        for site, st in b.assigns():
            r = st["r"]
            if r["k"] == "agg" and r["ak"] == "closure" and r["id"] in self.raw_bodies:
                out.append((r["id"], dict(binding or {}), "closure", site))
            if r["k"] == "cast" and r["o"].get("k") == "c" and r["o"]["c"]["t"] == "fn":
                for tid, rb in self.callee_targets(r["o"]["c"]["f"], binding):
                    out.append((tid, rb, "fnptr", site))
            if r["k"] == "use" and r["o"].get("k") == "c" and r["o"]["c"]["t"] == "fn":
                for tid, rb in self.callee_targets(r["o"]["c"]["f"], binding):
                    out.append((tid, rb, "fnitem", site))
        for site, t in b.drops():
            for tid in self.drop_targets(t["ty"], None, t.get("adts")):
                out.append((tid, {}, "drop", site))
        return out

    def reach_fns(self, roots, binding_aware=False, stop=lambda fid: False, edge_filter=None, opaque_traits=()):
        """BFS over the call graph. roots: [(fid, binding)] or [fid]. Returns {state: parent_state} where
        state = (fid, frozen binding) (binding empty when not binding_aware)."""
        parents = {}
        dq = deque()
        for r in roots:
            if isinstance(r, tuple):
                fid, bnd = r
            else:
                fid, bnd = r, {}
            st = (fid, frozenset(bnd.items()) if binding_aware else frozenset())
            if st not in parents:
                parents[st] = None
                dq.append(st)
        while dq:
            st = dq.popleft()
            fid, fb = st
            if stop(fid):
                continue
            for tid, rb, kind, site in self.out_edges(fid, dict(fb) if binding_aware else None, opaque_traits):
                if edge_filter and not edge_filter(fid, tid, kind, site):
                    continue
                ns = (tid, frozenset(rb.items()) if binding_aware else frozenset())
                if ns not in parents:
                    parents[ns] = (st, kind, site)
                    dq.append(ns)
        return parents

    def path_to(self, parents, st):
        chain = []
        cur = st
        while cur is not None:
            p = parents[cur]
            it = self.items.get(cur[0])
            chain.append((it["path"] if it else "closure/" + str(cur[0]), dict(cur[1])))
            cur = p[0] if p else None
        return list(reversed(chain))


_PATH_RE = re.compile(r"[A-Za-z_][A-Za-z0-9_]*(?:::[A-Za-z_][A-Za-z0-9_]*)*")


def adts_in(ty):
    return _PATH_RE.findall(ty)


def adt_head(ty):
    """Outermost ADT path of a type string (after & / &mut / *const / *mut)."""
    t = ty.strip()
    while True:
        m = re.match(r"^(&('[a-z_]+ )?(mut )?|\*const |\*mut )", t)
        if not m:
            break
        t = t[m.end():]
    m = _PATH_RE.match(t)
    return m.group(0) if m else t
