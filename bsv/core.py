"""Check context: rule instances, anchors/floors (fail closed), violations, known findings, evidence."""
import hashlib, json, os, time

VERIF = os.path.dirname(os.path.dirname(os.path.abspath(__file__)))
EVIDENCE_DIR = os.environ.get("BSV_EVIDENCE") or os.path.join(VERIF, "evidence")
REPORTS_DIR = os.environ.get("BSV_REPORTS") or os.path.join(VERIF, "reports")
KNOWN_FINDINGS = os.path.join(VERIF, "known_findings.json")


class Violation:
    def __init__(self, rule, key, msg, where=None, detail=None, config=None):
        self.rule, self.key, self.msg, self.where, self.detail = rule, key, msg, where, detail
        self.configs = [config] if config else []

    def to_json(self, prop):
        return {"property": prop, "rule": self.rule, "key": self.key, "message": self.msg, "where": self.where,
                "detail": self.detail, "configs": self.configs}


class Ctx:
    def __init__(self, prop, tier, level="other"):
        self.prop, self.tier, self.level = prop, tier, level
        self.t0 = time.time()
        self.violations = {}       # key -> Violation
        self.instances = []        # (rule, key, ok, desc, where, config)
        self.rule_counts = {}      # (rule, config) -> [evaluated, nontrivial]
        self.floors = []           # (rule, config, what, count, floor)
        self.unclassified = []     # informational
        self.notes = []
        self.assumptions = []
        self.configs = []          # meta of fact bases analysed
        self.rules_doc = {}        # rule -> one-line statement
        self.extra = {}
        self.config = None         # current config label

    # -------------------------------------------------------------- recording
    def rule(self, rid, doc):
        self.rules_doc[rid] = doc

    def key(self, rule, subject, site=""):
        return f"{rule} | {subject}" + (f" | {site}" if site else "")

    def inst(self, rule, subject, ok, desc, where=None, site="", detail=None, nontrivial=True):
        """Record one evaluated rule instance; a failing one becomes a violation."""
        k = self.key(rule, subject, site)
        c = self.rule_counts.setdefault((rule, self.config), [0, 0])
        c[0] += 1
        if nontrivial:
            c[1] += 1
        self.instances.append((rule, k, bool(ok), desc, where, self.config))
        if not ok:
            self.violate(rule, k, desc, where, detail)
        return ok

    def violate(self, rule, key, msg, where=None, detail=None):
        v = self.violations.get(key)
        if v is None:
            v = Violation(rule, key, msg, where, detail, self.config)
            self.violations[key] = v
        elif self.config and self.config not in v.configs:
            v.configs.append(self.config)

    def need(self, cond, rule, what):
        """Fail closed on a missing anchor."""
        if not cond:
            self.violate(rule, self.key(rule, "ANCHOR-MISSING", what),
                         f"anchor missing: {what} (the mechanism the rule watches is gone or was renamed)")
        return bool(cond)

    def floor(self, rule, what, count, floor):
        self.floors.append((rule, self.config, what, count, floor))
        if count < floor:
            self.violate(rule, self.key(rule, "COUNT-BELOW-FLOOR", what),
                         f"{what}: found {count}, expected at least {floor} (counted on the pinned tree); "
                         f"a rule must not pass vacuously")
        return count >= floor

    def unclass(self, rule, subject, desc):
        self.unclassified.append({"rule": rule, "subject": subject, "desc": desc, "config": self.config})

    def note(self, s):
        if s not in self.notes:
            self.notes.append(s)

    def assume(self, s):
        if s not in self.assumptions:
            self.assumptions.append(s)

    # -------------------------------------------------------------- finishing
    def finish(self, explanation, exploration_rule=None):
        known = load_known()
        kf = {f["key"]: f for f in known.get("findings", []) if f.get("property") == self.prop}
        real = []
        lines = []
        for k, v in sorted(self.violations.items()):
            if k in kf:
                lines.append(f"KNOWN-FINDING: property={self.prop} {kf[k].get('what', v.msg)} [{k}]")
            else:
                real.append(v)
        os.makedirs(os.path.join(REPORTS_DIR, self.prop), exist_ok=True)
        for v in real:
            h = hashlib.sha256(v.key.encode()).hexdigest()[:12]
            path = os.path.join(REPORTS_DIR, self.prop, h + ".json")
            with open(path, "w") as f:
                json.dump(v.to_json(self.prop), f, indent=1)
            lines.append(f"VIOLATION property={self.prop} replay={path}")
            lines.append(f"  rule {v.rule}: {v.msg}")
            lines.append(f"  key: {v.key}" + (f"   at {v.where}" if v.where else "") +
                         (f"   configs: {','.join(v.configs)}" if v.configs else ""))
        self.write_evidence(explanation, len(real), exploration_rule)
        return real, lines

    def write_evidence(self, explanation, nviol, exploration_rule=None):
        per_rule = {}
        for (rule, cfg), (n, nt) in sorted(self.rule_counts.items(), key=lambda x: (x[0][0], str(x[0][1]))):
            d = per_rule.setdefault(rule, {"statement": self.rules_doc.get(rule, ""), "by_config": {}})
            d["by_config"][str(cfg)] = {"instances": n, "nontrivial": nt}
        distinct = set()
        for (rule, k, ok, desc, where, cfg) in self.instances:
            distinct.add(k)
        nontrivial_keys = set()
        for (rule, k, ok, desc, where, cfg) in self.instances:
            nontrivial_keys.add(k)
        # samples: spread across rules
        samples = []
        seen_rules = {}
        for (rule, k, ok, desc, where, cfg) in self.instances:
            n = seen_rules.get(rule, 0)
            if n < 4:
                seen_rules[rule] = n + 1
                samples.append({"rule": rule, "instance": k, "verdict": "holds" if ok else "VIOLATED", "what": desc,
                                "where": where, "config": cfg})
        cov = {
            "explanation": explanation,
            "evaluations": len(self.instances),
            "distinct_nontrivial": len(nontrivial_keys),
            "rule": exploration_rule or ("one evaluation = one (rule, site) instance on one fact base; distinct = distinct "
                                         "(rule, def-path, site descriptor) keys; instances are only recorded for sites "
                                         "that actually exist in the analysed MIR, so each is non-trivial"),
            "samples": samples[:40],
            "rules": per_rule,
            "floors": [{"rule": r, "config": c, "what": w, "count": n, "floor": fl} for (r, c, w, n, fl) in self.floors],
            "fact_bases": self.configs,
            "unclassified": self.unclassified[:60],
            "notes": self.notes,
            "exhaustive": False,
        }
        cov.update(self.extra)
        ev = {
            "property_id": self.prop,
            "tier": self.tier,
            "seed": int(os.environ.get("VERIF_SEED", "0") or 0),
            "level": self.level,
            "coverage": cov,
            "assumptions": self.assumptions,
            "wall_s": round(time.time() - self.t0, 2),
            "violations": nviol,
        }
        os.makedirs(EVIDENCE_DIR, exist_ok=True)
        with open(os.path.join(EVIDENCE_DIR, self.prop + ".json"), "w") as f:
            json.dump(ev, f, indent=1)


def load_known():
    try:
        with open(KNOWN_FINDINGS) as f:
            return json.load(f)
    except FileNotFoundError:
        return {"findings": [], "fixed": []}
