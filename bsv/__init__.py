"""bsv: static rules over bump-scope's type-checked program (MIR facts) and rustc-judged witnesses."""
