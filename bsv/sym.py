"""E3 `avn`: value numbering of loop-free MIR with bounded inlining and an affine normaliser.

`Sym(P).ret(fid, args)` evaluates a loop-free body forwards, statement by statement, with an environment
local -> expression; switches produce `ite` trees (no feasibility reasoning, no solver); local callees are inlined
up to a depth bound; everything else stays an uninterpreted `call`.  Bodies with loops are refused
(`Unanalysable`), never passed.  `affine(e)` brings integer/pointer expressions into the form
sum(c_i * atom_i) + c over atoms (parameters, loaded fields, opaque calls, symbolic constants)."""
from fractions import Fraction
from .ir import const_expr, project, mkref, proj_key, RET, UNW, ABORT, POINTER_CHECK_ASSERTS, TRANSPARENT_CALLS, show


class Unanalysable(Exception):
    pass


def has_loop(body):
    color = {}
    def dfs(b):
        color[b] = 1
        for t, lab in body.succs(b):
            if not isinstance(t, int) or lab == "unw":
                continue
            if body.is_cleanup(t):
                continue
            c = color.get(t, 0)
            if c == 1:
                return True
            if c == 0 and dfs(t):
                return True
        color[b] = 2
        return False
    return dfs(0)


class Sym:
    def __init__(self, P, inline_depth=4, no_inline=(), opaque_names=(), effect_names=(), reader_names=()):
        self.effect_names = set(effect_names)
        # state readers: uninterpreted calls whose value depends on object state; they are versioned by the number of
        # state-writing effects (stores through pointers, effect_names calls) executed before them on the path
        self.reader_names = set(reader_names)
        self.P = P
        self.inline_depth = inline_depth
        self.no_inline = set(no_inline)
        self.opaque_names = set(opaque_names)
        self._loop = {}

    def loops(self, body):
        v = self._loop.get(body.id)
        if v is None:
            v = has_loop(body)
            self._loop[body.id] = v
        return v

    # ------------------------------------------------------------------
    def ret(self, fid, args=None, depth=None, want="ret"):
        """Expression returned by body `fid` applied to argument expressions (default: its own parameters)."""
        body = self.P.body(fid)
        if body is None:
            raise Unanalysable(f"no body for {fid}")
        if self.loops(body):
            raise Unanalysable(f"{body.path}: body has a loop")
        if depth is None:
            depth = self.inline_depth
        env = {}
        for l in range(1, body.argc + 1):
            if args is not None and l - 1 < len(args):
                env[l] = args[l - 1]
            else:
                env[l] = ("param", l, body.locals[l].get("name"))
        self._steps = 0
        return self._block(body, 0, env, depth, want)

    def _block(self, body, bb, env, depth, want):
        self._steps += 1
        if self._steps > 20000:
            raise Unanalysable(f"{body.path}: path explosion")
        env = dict(env)
        for st in body.stmts(bb):
            if st["k"] == "assign":
                v = self._rvalue(body, st["r"], env)
                self._store(body, env, st["p"], v)
            elif st["k"] == "setdisc":
                pass
        t = body.term(bb)
        k = t["k"]
        if k == "goto":
            return self._block(body, t["t"], env, depth, want)
        if k == "return" or k == "tailcall":
            if want == "ret":
                return env.get(0, ("undef", 0))
            return ("ret", env.get(0, ("undef", 0)), tuple(env.get("#eff", ())))
        if k in ("unreachable", "terminate", "resume"):
            return ("diverge",)
        if k == "assert":
            return self._block(body, t["ret"], env, depth, want)
        if k == "drop":
            return self._block(body, t["ret"], env, depth, want)
        if k == "call":
            v = self._call(body, t, env, depth)
            if t["ret"] is None:
                return ("diverge",)
            if self.effect_names and t["f"].get("name") in self.effect_names and v[0] == "call":
                eff = list(env.get("#eff", ()))
                eff.append(("callfx", t["f"]["name"], v[2]))
                env["#eff"] = tuple(eff)
            self._store(body, env, t["dest"], v)
            return self._block(body, t["ret"], env, depth, want)
        if k == "switch":
            d = self._operand(body, t["d"], env)
            succ = body.succs(bb)
            if len(succ) == 1:
                return self._block(body, succ[0][0], env, depth, want)
            d = simplify(d)
            # literal discriminant after inlining/specialisation
            lit = d[1] if d[0] == "int" else None
            arms = []
            for tgt, lab in succ:
                if not isinstance(tgt, int):
                    continue
                key = lab[3:]
                if lit is not None:
                    taken = (key != "else" and int(key) == lit) or \
                            (key == "else" and all(int(l[3:]) != lit for _, l in succ if l != "sw:else"))
                    if not taken:
                        continue
                    return self._block(body, tgt, env, depth, want)
                arms.append((key, self._block(body, tgt, env, depth, want)))
            live = [(k_, v) for k_, v in arms if v != ("diverge",)]
            if not live:
                return ("diverge",)
            if len(live) == 1:
                return live[0][1]
            if all(v == live[0][1] for _, v in live):
                return live[0][1]
            return ("ite", d, tuple(live))
        raise Unanalysable(f"{body.path}: terminator {k}")

    # ------------------------------------------------------------------
    def _store(self, body, env, place, v):
        l = place["l"]
        if not place["p"]:
            env[l] = v
            return
        # store through a pointer: record as an effect, keyed by the normalised target
        if place["p"][0] == "*":
            tgt = self._place(body, place, env, as_target=True, raw=True)
            eff = list(env.get("#eff", ()))
            eff.append(("store", tgt, v))
            env["#eff"] = tuple(eff)
            mem = dict(env.get("#mem", ()))
            mem[tgt] = v
            env["#mem"] = tuple(mem.items())
            return
        cur = env.get(l, ("undef", l))
        env[l] = update(cur, place["p"], v)

    def _place(self, body, place, env, as_target=False, raw=False):
        e = env.get(place["l"], ("undef", place["l"]))
        mem = dict(env.get("#mem", ())) if (not raw and env.get("#mem")) else None
        for pe in place["p"]:
            e = project(e, pe)
            if mem is not None and e in mem:
                e = mem[e]      # store-to-load forwarding for the exact same target expression
        return e

    def _operand(self, body, op, env):
        k = op.get("k")
        if k == "c":
            return const_expr(op["c"])
        if k in ("cp", "mv"):
            return self._place(body, op["p"], env)
        return ("unknown", "operand")

    def _rvalue(self, body, r, env):
        k = r["k"]
        if k == "use":
            return self._operand(body, r["o"], env)
        if k in ("ref", "rawptr"):
            return mkref(self._place(body, r["p"], env))
        if k == "cast":
            e = self._operand(body, r["o"], env)
            return ("cast", r["ck"].split("(")[0], e, r["ty"])
        if k == "bin":
            return ("bin", r["op"], self._operand(body, r["a"], env), self._operand(body, r["b"], env))
        if k == "un":
            return ("un", r["op"], self._operand(body, r["o"], env))
        if k == "disc":
            vs = tuple((v[0], v[1]) for v in r.get("variants", []))
            inner = self._place(body, r["p"], env)
            if inner[0] == "agg" and inner[2] is not None and vs:
                for val, nm in vs:
                    if nm == inner[2]:
                        return ("int", int(val), "isize")
            return ("disc", inner, vs)
        if k == "agg":
            fields = tuple(self._operand(body, o, env) for o in r["fields"])
            if r["ak"] == "adt":
                return ("agg", r["adt"], r["variant"], tuple(r.get("fnames", [])), fields)
            if r["ak"] == "closure":
                return ("closure", r["id"], fields)
            return ("agg", r["ak"], None, (), fields)
        if k == "repeat":
            return ("repeat", self._operand(body, r["o"], env), r["n"])
        return ("unknown", k)

    def _call(self, body, t, env, depth):
        f = t["f"]
        args = tuple(self._operand(body, a, env) for a in t["args"])
        if "path" not in f:
            return ("icall", args)
        path = f["path"]
        tp = TRANSPARENT_CALLS.get(path)
        if tp is None and f.get("res"):
            tp = TRANSPARENT_CALLS.get(f["res"]["path"])
        if tp is not None and len(args) > tp:
            if path.endswith("Layout::pad_to_align") and args[tp][0] == "ref":
                return args[tp][1]          # takes &self, returns the (padded) layout by value
            return args[tp]
        gargs = tuple(a.get("s", "") for a in f.get("args", []) if a["k"] != "lt")
        # inline local, loop-free callees
        tid = None
        if f.get("res") and f["res"].get("local"):
            tid = f["res"]["id"]
        elif f.get("local") and not f.get("trait"):
            tid = f["id"]
        if tid is not None and depth > 0 and tid in self.P.raw_bodies and f.get("name") not in self.opaque_names \
                and tid not in self.no_inline:
            cb = self.P.body(tid)
            if not self.loops(cb):
                try:
                    saved = self._steps
                    return self._block(cb, 0, {l + 1: a for l, a in enumerate(args)}, depth - 1, "ret")
                except Unanalysable:
                    pass
        if self.reader_names and f.get("name") in self.reader_names:
            ver = len([x for x in env.get("#eff", ()) if x[0] in ("store", "callfx")])
            return ("call", path, args, gargs, ("v", ver))
        return ("call", path, args, gargs, (0,))


def update(cur, projs, v):
    """Functional update of a field inside an aggregate-valued expression."""
    pe = projs[0]
    if isinstance(pe, dict) and "f" in pe:
        name = pe.get("n") if pe.get("n") is not None else str(pe["f"])
        if cur[0] == "agg" and cur[1] not in ("tuple", "array") and name in cur[3]:
            i = cur[3].index(name)
            fields = list(cur[4])
            fields[i] = v if len(projs) == 1 else update(fields[i], projs[1:], v)
            return ("agg", cur[1], cur[2], cur[3], tuple(fields))
        if cur[0] == "agg" and cur[1] == "tuple":
            i = pe["f"]
            fields = list(cur[4])
            if i < len(fields):
                fields[i] = v if len(projs) == 1 else update(fields[i], projs[1:], v)
                return ("agg", "tuple", None, (), tuple(fields))
        parts = dict(cur[1]) if cur[0] == "parts" else {}
        key = proj_key([pe])
        parts[key] = (v,) if len(projs) == 1 else (update(parts.get(key, (("undef", 0),))[0], projs[1:], v),)
        return ("parts", tuple(sorted(parts.items(), key=lambda x: str(x[0]))))
    if isinstance(pe, dict) and "dc" in pe:
        if len(projs) == 1:
            return v
        inner = update(("parts", ()), projs[1:], v) if cur[0] not in ("parts", "agg") else update(cur, projs[1:], v)
        return inner
    return ("unknown", "store")


# ---------------------------------------------------------------------- simplification / specialisation

def simplify(e):
    if not isinstance(e, tuple) or not e:
        return e
    k = e[0]
    if k == "un" and e[1] == "Not":
        a = simplify(e[2])
        if a[0] == "int":
            return ("int", 0 if a[1] else 1, "bool")
        return ("un", "Not", a)
    if k == "bin":
        a, b = simplify(e[2]), simplify(e[3])
        op = e[1]
        if a[0] == "int" and b[0] == "int":
            x, y = a[1], b[1]
            r = {"Eq": int(x == y), "Ne": int(x != y), "Lt": int(x < y), "Le": int(x <= y), "Gt": int(x > y),
                 "Ge": int(x >= y), "BitAnd": x & y, "BitOr": x | y}.get(op)
            if r is not None:
                return ("int", r, "bool" if op in ("Eq", "Ne", "Lt", "Le", "Gt", "Ge") else a[2])
        if op == "BitAnd" and (a == ("int", 0, "bool") or b == ("int", 0, "bool")):
            return ("int", 0, "bool")
        return ("bin", op, a, b)
    if k == "cast":
        return ("cast", e[1], simplify(e[2]), e[3])
    return e


def subst(e, fn):
    """Bottom-up rewriting: fn(node) -> replacement or None."""
    if not isinstance(e, tuple) or not e:
        return e
    new = []
    for x in e:
        if isinstance(x, tuple) and x and isinstance(x[0], str):
            new.append(subst(x, fn))
        elif isinstance(x, tuple):
            new.append(tuple(subst(y, fn) if isinstance(y, tuple) and y and isinstance(y[0], str) else
                             (tuple(subst(z, fn) if isinstance(z, tuple) and z and isinstance(z[0], str) else z for z in y)
                              if isinstance(y, tuple) else y) for y in x))
        else:
            new.append(x)
    e2 = tuple(new)
    r = fn(e2)
    return e2 if r is None else r


def specialise(e, pred_value):
    """Resolve `ite` nodes whose condition is decided by pred_value(cond) -> 0/1/None."""
    def fn(n):
        if n[0] == "ite":
            v = pred_value(n[1])
            if v is not None:
                for key, val in n[2]:
                    if key != "else" and int(key) == v:
                        return val
                for key, val in n[2]:
                    if key == "else":
                        return val
        return None
    return subst(e, fn)


def ite_leaves(e):
    """[(path_conditions, leaf)] of an ite tree."""
    if e[0] != "ite":
        return [((), e)]
    out = []
    for key, v in e[2]:
        for conds, leaf in ite_leaves(v):
            out.append((((e[1], key),) + conds, leaf))
    return out


# ---------------------------------------------------------------------- affine normal form

class Affine:
    """sum(c_i * atom_i) + c ; atoms are expression tuples."""
    def __init__(self, terms=None, const=0):
        self.terms = {k: v for k, v in (terms or {}).items() if v != 0}
        self.const = const

    def __add__(self, o):
        t = dict(self.terms)
        for k, v in o.terms.items():
            t[k] = t.get(k, 0) + v
        return Affine(t, self.const + o.const)

    def __sub__(self, o):
        return self + o.scale(-1)

    def scale(self, c):
        return Affine({k: v * c for k, v in self.terms.items()}, self.const * c)

    def is_const(self):
        return not self.terms

    def __eq__(self, o):
        return isinstance(o, Affine) and self.terms == o.terms and self.const == o.const

    def __hash__(self):
        return hash((tuple(sorted(self.terms.items(), key=str)), self.const))

    def __repr__(self):
        parts = []
        for k, v in sorted(self.terms.items(), key=lambda x: str(x[0])):
            s = show(k)
            parts.append(s if v == 1 else (f"-{s}" if v == -1 else f"{v}*{s}"))
        if self.const or not parts:
            parts.append(str(self.const))
        return " + ".join(parts).replace("+ -", "- ")


PTR_ADD = {"add": 1, "sub": -1, "byte_add": 1, "byte_sub": -1, "wrapping_add": 1, "wrapping_sub": -1,
           "unchecked_add": 1, "unchecked_sub": -1}


def size_atom(ty):
    return ("sizeof", ty)


def affine(e, elem_size=None):
    """Affine form of an integer/pointer expression. Pointer add/sub are scaled by `elem_size(call_expr)`
    (a function giving the pointee size as Affine/atom; default: symbolic sizeof of the first generic arg)."""
    e = _strip(e)
    k = e[0]
    if k == "int":
        return Affine({}, e[1])
    if k == "bin":
        op = e[1].replace("Unchecked", "").replace("WithOverflow", "")
        if op in ("Add", "Sub"):
            a, b = affine(e[2], elem_size), affine(e[3], elem_size)
            return a + b if op == "Add" else a - b
        if op == "Mul":
            a, b = affine(e[2], elem_size), affine(e[3], elem_size)
            if a.is_const():
                return b.scale(a.const)
            if b.is_const():
                return a.scale(b.const)
            # product of two atoms: canonical commutative atom
            if len(a.terms) == 1 and len(b.terms) == 1 and a.const == 0 and b.const == 0:
                (ka, va), = a.terms.items()
                (kb, vb), = b.terms.items()
                pr = tuple(sorted([ka, kb], key=str))
                return Affine({("mul",) + pr: va * vb})
        return Affine({e: 1})
    if k == "call":
        nm = e[1].split("::")[-1]
        if nm in PTR_ADD and len(e[2]) == 2 and ("NonNull" in e[1] or "ptr" in e[1]):
            base = affine(e[2][0], elem_size)
            n = affine(e[2][1], elem_size)
            if nm.startswith("byte_"):
                sz = Affine({}, 1)
            else:
                ty = e[3][0] if e[3] else "?"
                sz = elem_size(e) if elem_size else None
                if sz is None:
                    sz = Affine({}, 1) if ty == "u8" else Affine({size_atom(ty): 1})
            prod = _mul(n, sz)
            return base + prod.scale(PTR_ADD[nm])
        if nm in ("checked_add", "saturating_add", "wrapping_add", "unchecked_add", "checked_sub", "saturating_sub",
                  "wrapping_sub", "unchecked_sub") and len(e[2]) == 2 and "num" in e[1]:
            a, b = affine(e[2][0], elem_size), affine(e[2][1], elem_size)
            if nm.startswith("checked") or nm.startswith("saturating"):
                return Affine({e: 1})
            return a + b if "add" in nm else a - b
        return Affine({e: 1})
    return Affine({e: 1})


def _mul(a, b):
    if a.is_const():
        return b.scale(a.const)
    if b.is_const():
        return a.scale(b.const)
    out = Affine()
    for ka, va in a.terms.items():
        for kb, vb in b.terms.items():
            pr = tuple(sorted([ka, kb], key=str))
            out = out + Affine({("mul",) + pr: va * vb})
    for ka, va in a.terms.items():
        out = out + Affine({ka: va * b.const})
    for kb, vb in b.terms.items():
        out = out + Affine({kb: vb * a.const})
    out.const += a.const * b.const
    return out


def _strip(e):
    while isinstance(e, tuple) and e and e[0] in ("cast",):
        e = e[2]
    return e
