"""E2 `witness`: generated compile-fail / compile-pass corpora judged by rustc against the freshly built rlib.

A *witness* is a function that must be REJECTED by rustc with one of a stated set of diagnostics inside its own line
range; its *twin* differs only by the offending step and must be ACCEPTED.  The oracle is rustc (borrow checker,
trait solver, const evaluation).  A witness that compiles is a violation; a twin that fails (or any diagnostic we did
not ask for) is CONTROL-BROKEN: a harness error, never a verdict."""
import json, os, re, shutil, subprocess, tempfile, itertools

REPO = os.environ.get("BSV_REPO", "/repo")

PRELUDE = '''#![allow(unused, dead_code, unused_mut, unused_variables, unused_must_use, clippy::all)]
extern crate bump_scope;
use bump_scope::{Bump, BumpScope, BumpBox, BumpVec, BumpString, MutBumpVec, MutBumpString, MutBumpVecRev, FixedBumpVec, BumpPool};
use bump_scope::alloc::{Allocator, AllocError, Global};
use bump_scope::settings::{BumpSettings, BumpAllocatorSettings};
use bump_scope::traits::{BumpAllocator, BumpAllocatorCore, BumpAllocatorCoreScope, BumpAllocatorScope, BumpAllocatorTyped, BumpAllocatorTypedScope, MutBumpAllocatorTypedScope};
use core::fmt::Debug;
fn touch<T: ?Sized>(_: &T) {}
'''

# ---------------------------------------------------------------------------------------------------------------
# producers: expression templates over a handle expression `{h}` (something that derefs to / is a bump scope).
# (name, expr, shape)  — `shape` groups producers by the form of their return type
PRODUCERS = [
    ("alloc", "{h}.alloc(1u32)", "box"),
    ("try_alloc", "{h}.try_alloc(1u32).unwrap()", "box"),
    ("alloc_with", "{h}.alloc_with(|| 5u64)", "box"),
    ("alloc_default", "{h}.alloc_default::<u32>()", "box"),
    ("alloc_str", "{h}.alloc_str(\"x\")", "boxstr"),
    ("alloc_fmt", "{h}.alloc_fmt(format_args!(\"{{}}\", 1))", "boxstr"),
    ("alloc_slice_copy", "{h}.alloc_slice_copy(&[1u8, 2, 3])", "boxslice"),
    ("alloc_slice_clone", "{h}.alloc_slice_clone(&[1u8, 2, 3])", "boxslice"),
    ("alloc_slice_fill", "{h}.alloc_slice_fill(3, 7u8)", "boxslice"),
    ("alloc_slice_fill_with", "{h}.alloc_slice_fill_with(3, || 7u8)", "boxslice"),
    ("alloc_iter", "{h}.alloc_iter(0..3u32)", "boxslice"),
    ("alloc_iter_exact", "{h}.alloc_iter_exact(0..3u32)", "boxslice"),
    ("try_alloc_iter", "{h}.try_alloc_iter(0..3u32).unwrap()", "boxslice"),
    ("alloc_uninit", "{h}.alloc_uninit::<u32>()", "box"),
    ("alloc_uninit_slice", "{h}.alloc_uninit_slice::<u32>(3)", "boxslice"),
    ("alloc_cstr", "{h}.alloc_cstr(c\"x\")", "ref"),
    ("alloc_cstr_from_str", "{h}.alloc_cstr_from_str(\"x\")", "ref"),
    ("alloc_try_with", "{h}.alloc_try_with(|| -> Result<u32, ()> {{ Ok(1) }}).unwrap()", "box"),
    ("into_ref", "{h}.alloc(1u32).into_ref()", "ref"),
    ("into_mut", "{h}.alloc(1u32).into_mut()", "ref"),
    ("vec_into_boxed_slice", "{{ let mut v = BumpVec::new_in(&*{h}); v.push(1u32); v.into_boxed_slice() }}", "boxslice"),
    ("vec_into_slice", "{{ let mut v = BumpVec::new_in(&*{h}); v.push(1u32); v.into_slice() }}", "ref"),
    ("vec_into_fixed_vec", "{{ let mut v = BumpVec::new_in(&*{h}); v.push(1u32); v.into_fixed_vec() }}", "fixedvec"),
    ("string_into_boxed_str", "{{ let mut s = BumpString::new_in(&*{h}); s.push('a'); s.into_boxed_str() }}", "boxstr"),
    ("string_into_str", "{{ let mut s = BumpString::new_in(&*{h}); s.push('a'); s.into_str() }}", "ref"),
    ("stats", "{h}.stats()", "stats"),
    ("any_stats_from_stats", "bump_scope::stats::AnyStats::from({h}.stats())", "anystats"),
    ("any_chunk_from_chunk", "bump_scope::stats::AnyChunk::from({h}.stats().current_chunk().unwrap())", "anychunk"),
    ("any_prev_iter_from", "bump_scope::stats::AnyChunkPrevIter::from({h}.stats().current_chunk().unwrap().iter_prev())", "anyiter"),
    ("any_next_iter_from", "bump_scope::stats::AnyChunkNextIter::from({h}.stats().current_chunk().unwrap().iter_next())", "anyiter"),
    ("stats_current_chunk", "{h}.stats().current_chunk()", "chunk"),
    ("stats_small_to_big", "{h}.stats().small_to_big()", "chunkiter"),
    ("allocator", "{h}.allocator()", "ref"),
]
# producers that need exclusive access to the handle
MUT_PRODUCERS = [
    ("alloc_iter_mut", "{h}.alloc_iter_mut(0..3u32)", "boxslice"),
    ("alloc_iter_mut_rev", "{h}.alloc_iter_mut_rev(0..3u32)", "boxslice"),
    ("alloc_fmt_mut", "{h}.alloc_fmt_mut(format_args!(\"{{}}\", 1))", "boxstr"),
    ("alloc_try_with_mut", "{h}.alloc_try_with_mut(|| -> Result<u32, ()> {{ Ok(1) }}).unwrap()", "box"),
    ("mut_vec_into_boxed_slice", "{{ let mut v = MutBumpVec::new_in(&mut *{h}); v.push(1u32); v.into_boxed_slice() }}", "boxslice"),
    ("mut_vec_rev_into_boxed_slice", "{{ let mut v = MutBumpVecRev::new_in(&mut *{h}); v.push(1u32); v.into_boxed_slice() }}", "boxslice"),
    ("mut_string_into_boxed_str", "{{ let mut s = MutBumpString::new_in(&mut *{h}); s.push('a'); s.into_boxed_str() }}", "boxstr"),
]

BORROW_CODES = {"E0597", "E0499", "E0502", "E0505", "E0506", "E0716", "E0521", "E0515", "E0503", "E0713", "E0373", "lifetime"}


class W:
    """One witness (+ optional twin). `body` lines form a fn body; `{P}` is replaced by the producer expression."""
    def __init__(self, wid, route, handle, body, twin, codes=BORROW_CODES, mut=False, kind="borrow", prelude=""):
        self.wid, self.route, self.handle, self.body, self.twin = wid, route, handle, body, twin
        self.codes, self.mut, self.kind, self.prelude = codes, mut, kind, prelude


def escape_templates():
    """(route, handle, witness body, twin body, needs &mut handle for mut producers)"""
    T = []
    # --- scoped closure -----------------------------------------------------------------------------------------
    T.append(("return from scoped closure", "scoped", False,
              "let mut bump: Bump = Bump::new();\nlet x = bump.scoped(|scope| {{ {P} }});\ntouch(&x);",
              "let mut bump: Bump = Bump::new();\nbump.scoped(|scope| {{ let x = {P}; touch(&x); }});", "scope"))
    T.append(("store into outer variable from scoped closure", "scoped", False,
              "let mut bump: Bump = Bump::new();\nlet mut out = None;\nbump.scoped(|scope| {{ out = Some({P}); }});\ntouch(&out);",
              "let mut bump: Bump = Bump::new();\nbump.scoped(|scope| {{ let mut out = None; out = Some({P}); touch(&out); }});", "scope"))
    T.append(("return from scoped_aligned closure", "scoped_aligned", False,
              "let mut bump: Bump = Bump::new();\nlet x = bump.scoped_aligned::<8, _>(|scope| {{ {P} }});\ntouch(&x);",
              "let mut bump: Bump = Bump::new();\nbump.scoped_aligned::<8, _>(|scope| {{ let x = {P}; touch(&x); }});", "scope"))
    T.append(("return from nested scoped closure", "scoped in scoped", False,
              "let mut bump: Bump = Bump::new();\nbump.scoped(|outer| {{ let x = outer.scoped(|scope| {{ {P} }}); touch(&x); }});",
              "let mut bump: Bump = Bump::new();\nbump.scoped(|outer| {{ outer.scoped(|scope| {{ let x = {P}; touch(&x); }}); }});", "scope"))
    T.append(("return from BumpAllocator::scoped (trait method) closure", "trait scoped", False,
              "let mut bump: Bump = Bump::new();\nlet x = BumpAllocator::scoped(&mut bump, |scope| {{ {P} }});\ntouch(&x);",
              "let mut bump: Bump = Bump::new();\nBumpAllocator::scoped(&mut bump, |scope| {{ let x = {P}; touch(&x); }});", "scope"))
    T.append(("return from BumpAllocator::scoped_aligned (trait method) closure", "trait scoped_aligned", False,
              "let mut bump: Bump = Bump::new();\nlet x = BumpAllocator::scoped_aligned::<8, _>(&mut bump, |scope| {{ {P} }});\ntouch(&x);",
              "let mut bump: Bump = Bump::new();\nBumpAllocator::scoped_aligned::<8, _>(&mut bump, |scope| {{ let x = {P}; touch(&x); }});", "scope"))
    T.append(("return from scoped closure of a generic B: BumpAllocator", "generic BumpAllocator", False,
              "fn run<B: BumpAllocator>(b: &mut B) {{ let x = b.scoped(|scope| {{ {P} }}); touch(&x); }}\nlet mut bump: Bump = Bump::new();\nrun(&mut bump);",
              "fn run<B: BumpAllocator>(b: &mut B) {{ b.scoped(|scope| {{ let x = {P}; touch(&x); }}); }}\nlet mut bump: Bump = Bump::new();\nrun(&mut bump);", "generic"))
    T.append(("hold across drop of a trait-level scope guard", "trait scope_guard", False,
              "let mut bump: Bump = Bump::new();\nlet x;\n{{\n    let mut guard = BumpAllocator::scope_guard(&mut bump);\n    let scope = guard.scope();\n    x = {P};\n}}\ntouch(&x);",
              "let mut bump: Bump = Bump::new();\n{{\n    let mut guard = BumpAllocator::scope_guard(&mut bump);\n    let scope = guard.scope();\n    let x = {P};\n    touch(&x);\n}}", "scope"))
    T.append(("return from aligned closure into the outer scope's lifetime is fine, but not past the scope", "aligned in scoped", False,
              "let mut bump: Bump = Bump::new();\nlet x = bump.scoped(|outer| {{ outer.aligned::<8, _>(|scope| {{ {P} }}) }});\ntouch(&x);",
              "let mut bump: Bump = Bump::new();\nbump.scoped(|outer| {{ let x = outer.aligned::<8, _>(|scope| {{ {P} }}); touch(&x); }});", "scope"))
    # --- scope guard --------------------------------------------------------------------------------------------
    T.append(("hold across guard drop", "scope_guard", False,
              "let mut bump: Bump = Bump::new();\nlet x;\n{{\n    let mut guard = bump.scope_guard();\n    let scope = guard.scope();\n    x = {P};\n}}\ntouch(&x);",
              "let mut bump: Bump = Bump::new();\n{{\n    let mut guard = bump.scope_guard();\n    let scope = guard.scope();\n    let x = {P};\n    touch(&x);\n}}", "scope"))
    T.append(("hold across guard.reset()", "scope_guard", False,
              "let mut bump: Bump = Bump::new();\nlet mut guard = bump.scope_guard();\nlet scope = guard.scope();\nlet x = {P};\nguard.reset();\ntouch(&x);",
              "let mut bump: Bump = Bump::new();\nlet mut guard = bump.scope_guard();\nlet scope = guard.scope();\nlet x = {P};\ntouch(&x);\ndrop(x);\nguard.reset();", "scope"))
    T.append(("hold across a second scope()", "scope_guard", False,
              "let mut bump: Bump = Bump::new();\nlet mut guard = bump.scope_guard();\nlet scope = guard.scope();\nlet x = {P};\nlet again = guard.scope();\ntouch(&x);",
              "let mut bump: Bump = Bump::new();\nlet mut guard = bump.scope_guard();\nlet scope = guard.scope();\nlet x = {P};\ntouch(&x);\ndrop(x);\nlet again = guard.scope();", "scope"))
    # --- Bump itself --------------------------------------------------------------------------------------------
    T.append(("hold across Bump::reset", "&Bump", False,
              "let mut bump: Bump = Bump::new();\nlet scope = &bump;\nlet x = {P};\nbump.reset();\ntouch(&x);",
              "let mut bump: Bump = Bump::new();\nlet scope = &bump;\nlet x = {P};\ntouch(&x);\ndrop(x);\nbump.reset();", "scope"))
    T.append(("hold across Bump::reset_to_start", "&Bump", False,
              "let mut bump: Bump = Bump::new();\nlet scope = &bump;\nlet x = {P};\nbump.reset_to_start();\ntouch(&x);",
              "let mut bump: Bump = Bump::new();\nlet scope = &bump;\nlet x = {P};\ntouch(&x);\ndrop(x);\nbump.reset_to_start();", "scope"))
    T.append(("hold across drop(bump)", "&Bump", False,
              "let bump: Bump = Bump::new();\nlet scope = &bump;\nlet x = {P};\ndrop(bump);\ntouch(&x);",
              "let bump: Bump = Bump::new();\nlet scope = &bump;\nlet x = {P};\ntouch(&x);\ndrop(x);\ndrop(bump);", "scope"))
    T.append(("hold across a later scoped() on the same Bump", "&mut Bump", True,
              "let mut bump: Bump = Bump::new();\nlet scope = &mut bump;\nlet x = {P};\nbump.scoped(|_| ());\ntouch(&x);",
              "let mut bump: Bump = Bump::new();\nlet scope = &mut bump;\nlet x = {P};\ntouch(&x);\ndrop(x);\nbump.scoped(|_| ());", "scope"))
    T.append(("return a reference into a local Bump", "&Bump", False,
              "fn inner<'r>() -> impl Debug + 'r {{ let bump: Bump = Bump::new(); let scope = &bump; let x = {P}; x }}\nlet _ = inner();",
              "fn inner() {{ let bump: Bump = Bump::new(); let scope = &bump; let x = {P}; touch(&x); }}\ninner();", "scope"))
    T.append(("as_scope() view: hold across Bump::reset", "bump.as_scope()", False,
              "let mut bump: Bump = Bump::new();\nlet scope = bump.as_scope();\nlet x = {P};\nbump.reset();\ntouch(&x);",
              "let mut bump: Bump = Bump::new();\nlet scope = bump.as_scope();\nlet x = {P};\ntouch(&x);\ndrop(x);\nbump.reset();", "scope"))
    T.append(("as_mut_scope() view: hold across Bump::reset", "bump.as_mut_scope()", False,
              "let mut bump: Bump = Bump::new();\nlet scope = bump.as_mut_scope();\nlet x = {P};\nbump.reset();\ntouch(&x);",
              "let mut bump: Bump = Bump::new();\nlet scope = bump.as_mut_scope();\nlet x = {P};\ntouch(&x);\ndrop(x);\nbump.reset();", "scope"))
    T.append(("by_value() scope: hold across Bump::reset", "bump.as_mut_scope().by_value()", False,
              "let mut bump: Bump = Bump::new();\nlet by_val = bump.as_mut_scope().by_value();\nlet scope = &by_val;\nlet x = {P};\nbump.reset();\ntouch(&x);",
              "let mut bump: Bump = Bump::new();\nlet by_val = bump.as_mut_scope().by_value();\nlet scope = &by_val;\nlet x = {P};\ntouch(&x);\ndrop(x);\ndrop(by_val);\nbump.reset();", "scope"))
    T.append(("as_mut_scope() view (exclusive producers): hold across Bump::reset", "bump.as_mut_scope()", True,
              "let mut bump: Bump = Bump::new();\nlet scope = bump.as_mut_scope();\nlet x = {P};\nbump.reset();\ntouch(&x);",
              "let mut bump: Bump = Bump::new();\nlet scope = bump.as_mut_scope();\nlet x = {P};\ntouch(&x);\ndrop(x);\nbump.reset();", "scope"))
    # --- claim --------------------------------------------------------------------------------------------------
    T.append(("claim guard outlives the Bump", "claim", False,
              "let x;\n{{\n    let bump: Bump = Bump::new();\n    let scope = bump.claim();\n    x = {P};\n}}\ntouch(&x);",
              "{{\n    let bump: Bump = Bump::new();\n    let scope = bump.claim();\n    let x = {P};\n    touch(&x);\n}}", "scope"))
    T.append(("hold a claim allocation across Bump::reset", "claim", False,
              "let mut bump: Bump = Bump::new();\nlet x = {{ let scope = bump.claim(); {P} }};\nbump.reset();\ntouch(&x);",
              "let mut bump: Bump = Bump::new();\nlet x = {{ let scope = bump.claim(); {P} }};\ntouch(&x);\ndrop(x);\nbump.reset();", "scope"))
    # --- pool ---------------------------------------------------------------------------------------------------
    T.append(("hold across BumpPool::reset", "pool guard", False,
              "let mut pool: BumpPool = BumpPool::new();\nlet scope = pool.get();\nlet x = {P};\ndrop(scope);\npool.reset();\ntouch(&x);",
              "let mut pool: BumpPool = BumpPool::new();\nlet scope = pool.get();\nlet x = {P};\ntouch(&x);\ndrop(x);\ndrop(scope);\npool.reset();", "scope"))
    T.append(("hold across BumpPool::reset_to_start", "pool guard", False,
              "let mut pool: BumpPool = BumpPool::new();\nlet scope = pool.get();\nlet x = {P};\ndrop(scope);\npool.reset_to_start();\ntouch(&x);",
              "let mut pool: BumpPool = BumpPool::new();\nlet scope = pool.get();\nlet x = {P};\ntouch(&x);\ndrop(x);\ndrop(scope);\npool.reset_to_start();", "scope"))
    T.append(("hold across drop(pool)", "pool guard", False,
              "let pool: BumpPool = BumpPool::new();\nlet scope = pool.get();\nlet x = {P};\ndrop(scope);\ndrop(pool);\ntouch(&x);",
              "let pool: BumpPool = BumpPool::new();\nlet scope = pool.get();\nlet x = {P};\ntouch(&x);\ndrop(x);\ndrop(scope);\ndrop(pool);", "scope"))
    T.append(("hold across pool.bumps() (exclusive access to the arenas)", "pool guard", False,
              "let mut pool: BumpPool = BumpPool::new();\nlet scope = pool.get();\nlet x = {P};\ndrop(scope);\nfor b in pool.bumps() {{ b.reset(); }}\ntouch(&x);",
              "let mut pool: BumpPool = BumpPool::new();\nlet scope = pool.get();\nlet x = {P};\ntouch(&x);\ndrop(x);\ndrop(scope);\nfor b in pool.bumps() {{ b.reset(); }}", "scope"))
    # --- generic scope trait -------------------------------------------------------------------------------------
    T.append(("generic BumpAllocatorTypedScope<'a> result outlives 'a's owner", "impl BumpAllocatorTypedScope<'a>", False,
              "fn probe<'a, B: BumpAllocatorTypedScope<'a>>(scope: B) -> impl Debug + 'a {{ {P} }}\nlet x;\n{{ let bump: Bump = Bump::new(); x = probe(&bump); }}\ntouch(&x);",
              "fn probe<'a, B: BumpAllocatorTypedScope<'a>>(scope: B) -> impl Debug + 'a {{ {P} }}\n{{ let bump: Bump = Bump::new(); let x = probe(&bump); touch(&x); }}", "generic"))
    # --- exclusive producers --------------------------------------------------------------------------------------
    T.append(("exclusive producer: return from scoped closure", "scoped (mut)", True,
              "let mut bump: Bump = Bump::new();\nlet x = bump.scoped(|scope| {{ {P} }});\ntouch(&x);",
              "let mut bump: Bump = Bump::new();\nbump.scoped(|scope| {{ let x = {P}; touch(&x); }});", "scope"))
    T.append(("exclusive producer: second exclusive use while the first result is alive", "&mut Bump", True,
              "let mut bump: Bump = Bump::new();\nlet scope = &mut bump;\nlet x = {P};\nlet y = scope.alloc_iter_mut(0..1u8);\ntouch(&x);",
              "let mut bump: Bump = Bump::new();\nlet scope = &mut bump;\nlet x = {P};\ntouch(&x);\ndrop(x);\nlet y = scope.alloc_iter_mut(0..1u8);", "scope"))
    T.append(("exclusive collection borrows the allocator: use the allocator while the collection is alive", "&mut Bump", True,
              "let mut bump: Bump = Bump::new();\nlet mut v = MutBumpVec::new_in(&mut bump);\nv.push(1u32);\nlet other = bump.alloc(1u8);\ntouch(&v);",
              "let mut bump: Bump = Bump::new();\nlet mut v = MutBumpVec::new_in(&mut bump);\nv.push(1u32);\ntouch(&v);\ndrop(v);\nlet other = bump.alloc(1u8);", "fixed"))
    return T


def generic_ok(pname):
    # producers usable through the generic typed-scope trait without naming inherent methods
    return pname in ("alloc", "try_alloc", "alloc_str", "alloc_slice_copy", "alloc_iter", "alloc_fmt", "alloc_cstr", "alloc_uninit",
                     "alloc_with", "alloc_default", "alloc_slice_clone", "alloc_slice_fill", "alloc_iter_exact")


def build_corpus(tier):
    """Returns list of W for the borrow file."""
    out = []
    T = escape_templates()
    shapes_seen = set()
    n = 0
    for (route, handle, needs_mut, wbody, tbody, hkind) in T:
        prods = MUT_PRODUCERS if needs_mut else PRODUCERS
        if hkind == "fixed":
            out.append(W(f"w{n:04d}", route, handle, wbody.replace("{{", "{").replace("}}", "}"), tbody.replace("{{", "{").replace("}}", "}"), mut=True))
            n += 1
            continue
        chosen = []
        if tier == "quick":
            # one producer per return-type shape per route
            seen = set()
            for p in prods:
                if p[2] not in seen:
                    seen.add(p[2])
                    chosen.append(p)
        else:
            chosen = list(prods)
        for (pname, pexpr, shape) in chosen:
            if hkind == "generic" and not generic_ok(pname):
                continue
            if handle.startswith("claim") and pname in ("stats", "allocator") and "reset" not in route:
                pass
            P = pexpr.format(h="scope")
            wb = wbody.format(P=P)
            tb = tbody.format(P=P)
            out.append(W(f"w{n:04d}", route, handle + " / " + pname, wb, tb, mut=needs_mut))
            n += 1
    return out


# ---------------------------------------------------------------------------------------------------------------
# trait-bound witnesses (E0277) and conversion witnesses (E0080, post-monomorphisation)

NOTSEND = '''
#[derive(Clone, Default)]
struct NotSend(core::marker::PhantomData<*const ()>);
unsafe impl Allocator for NotSend {
    fn allocate(&self, layout: core::alloc::Layout) -> Result<core::ptr::NonNull<[u8]>, AllocError> { Global.allocate(layout) }
    unsafe fn deallocate(&self, ptr: core::ptr::NonNull<u8>, layout: core::alloc::Layout) { unsafe { Global.deallocate(ptr, layout) } }
}
#[derive(Clone, Default)]
struct IsSend;
unsafe impl Allocator for IsSend {
    fn allocate(&self, layout: core::alloc::Layout) -> Result<core::ptr::NonNull<[u8]>, AllocError> { Global.allocate(layout) }
    unsafe fn deallocate(&self, ptr: core::ptr::NonNull<u8>, layout: core::alloc::Layout) { unsafe { Global.deallocate(ptr, layout) } }
}
fn need_send<T: Send>(_: T) {}
fn need_sync<T: Sync>(_: &T) {}
'''

TRAIT_WITNESSES = [
    ("Bump with a !Send base allocator is not Send", "let b: Bump<NotSend> = Bump::new_in(NotSend::default());\nneed_send(b);",
     "let b: Bump<IsSend> = Bump::new_in(IsSend);\nneed_send(b);"),
    ("Bump is never Sync", "let b: Bump<IsSend> = Bump::new_in(IsSend);\nneed_sync(&b);",
     "let b: Bump<IsSend> = Bump::new_in(IsSend);\nneed_send(b);"),
    ("&Bump cannot cross threads (Bump: !Sync)", "let b: Bump<IsSend> = Bump::new_in(IsSend);\nneed_send(&b);",
     "let b: Bump<IsSend> = Bump::new_in(IsSend);\nneed_send(b);"),
    ("BumpScope is not Send", "let mut b: Bump<IsSend> = Bump::new_in(IsSend);\nb.scoped(|s| {{ need_send(s); }});",
     "let mut b: Bump<IsSend> = Bump::new_in(IsSend);\nb.scoped(|s| {{ touch(s); }});"),
    ("BumpPool with a !Send base allocator is not Sync", "let p: BumpPool<NotSend> = BumpPool::new_in(NotSend::default());\nneed_sync(&p);",
     "let p: BumpPool<IsSend> = BumpPool::new_in(IsSend);\nneed_sync(&p);"),
    ("BumpPool with a !Send base allocator is not Send", "let p: BumpPool<NotSend> = BumpPool::new_in(NotSend::default());\nneed_send(p);",
     "let p: BumpPool<IsSend> = BumpPool::new_in(IsSend);\nneed_send(p);"),
    ("a BumpBox into a !Send payload is not Send", "let b: Bump = Bump::new();\nlet x = b.alloc(core::marker::PhantomData::<*const ()>);\nneed_send(x);",
     "let b: Bump = Bump::new();\nlet x = b.alloc(1u32);\nneed_send(x);"),
    ("an owned Bump inside WithoutDealloc is not a scope: its collections cannot hand out slices",
     "let mut v = BumpVec::new_in(bump_scope::WithoutDealloc(Bump::<Global>::new()));\nv.push(1u32);\nlet s = v.into_slice();\ntouch(&s);",
     "let bump: Bump = Bump::new();\nlet mut v = BumpVec::new_in(bump_scope::WithoutDealloc(&bump));\nv.push(1u32);\nlet s = v.into_slice();\ntouch(&s);"),
    ("an owned Bump inside WithoutShrink is not a scope: its collections cannot hand out slices",
     "let mut v = BumpVec::new_in(bump_scope::WithoutShrink(Bump::<Global>::new()));\nv.push(1u32);\nlet s = v.into_slice();\ntouch(&s);",
     "let bump: Bump = Bump::new();\nlet mut v = BumpVec::new_in(bump_scope::WithoutShrink(&bump));\nv.push(1u32);\nlet s = v.into_slice();\ntouch(&s);"),
    ("an owned Bump is not a scope: BumpVec<T, Bump> cannot hand out slices",
     "let mut v = BumpVec::new_in(Bump::<Global>::new());\nv.push(1u32);\nlet s = v.into_slice();\ntouch(&s);",
     "let bump: Bump = Bump::new();\nlet mut v = BumpVec::new_in(&bump);\nv.push(1u32);\nlet s = v.into_slice();\ntouch(&s);"),
    ("pool guard is not Send across threads when the allocator is !Send", "let p: BumpPool<NotSend> = BumpPool::new_in(NotSend::default());\nlet g = p.get();\nneed_send(g);",
     "let p: BumpPool<IsSend> = BumpPool::new_in(IsSend);\nlet g = p.get();\ntouch(&g);"),
]

# ---------------------------------------------------------------------------------------------------------------
# owner-overwrite witnesses: an owned BumpScope<'x> value must not be storable into the storage of an *owning* arena
# (reachable as &mut BumpScope through as_mut_scope / DerefMut of guards): afterwards two owners free the same chunks
# or memory that is still borrowed belongs to another arena.  (name, witness body, twin body)
OWNER_WITNESSES = [
    ("by_value copy swapped into an owning Bump through as_mut_scope",
     "let mut bump1: Bump = Bump::new();\nlet mut bump2: Bump = Bump::new();\n{\n    let s2 = bump2.as_mut_scope();\n    let mut copy = s2.by_value();\n    core::mem::swap(bump1.as_mut_scope(), &mut copy);\n}\ntouch(&bump1);",
     "let mut bump1: Bump = Bump::new();\nlet mut bump2: Bump = Bump::new();\n{\n    let s2 = bump2.as_mut_scope();\n    let mut copy = s2.by_value();\n    touch(bump1.as_mut_scope()); touch(&mut copy);\n}\ntouch(&bump1);"),
    ("scope of a scope guard swapped into an owning Bump through as_mut_scope",
     "let mut bump1: Bump = Bump::new();\nlet mut bump2: Bump = Bump::new();\n{\n    let mut guard = bump2.scope_guard();\n    let mut scope = guard.scope();\n    core::mem::swap(bump1.as_mut_scope(), &mut scope);\n}\ntouch(&bump1);",
     "let mut bump1: Bump = Bump::new();\nlet mut bump2: Bump = Bump::new();\n{\n    let mut guard = bump2.scope_guard();\n    let mut scope = guard.scope();\n    touch(bump1.as_mut_scope()); touch(&mut scope);\n}\ntouch(&bump1);"),
    ("scoped closure parameter swapped into an owning Bump through as_mut_scope",
     "let mut bump1: Bump = Bump::new();\nlet mut bump2: Bump = Bump::new();\nbump2.scoped(|mut scope| {\n    core::mem::swap(bump1.as_mut_scope(), &mut scope);\n});\ntouch(&bump1);",
     "let mut bump1: Bump = Bump::new();\nlet mut bump2: Bump = Bump::new();\nbump2.scoped(|mut scope| {\n    touch(bump1.as_mut_scope()); touch(&mut scope);\n});\ntouch(&bump1);"),
    ("claim guard's scope swapped with an owning Bump while memory of the claimed arena is borrowed",
     "let mut bump1: Bump = Bump::new();\nlet bump2: Bump = Bump::new();\nlet x = bump2.alloc_str(\"a\");\n{\n    let mut g = bump2.claim();\n    core::mem::swap(bump1.as_mut_scope(), &mut *g);\n}\ndrop(bump1);\ntouch(&x);",
     "let mut bump1: Bump = Bump::new();\nlet bump2: Bump = Bump::new();\nlet x = bump2.alloc_str(\"a\");\n{\n    let mut g = bump2.claim();\n    touch(bump1.as_mut_scope()); touch(&mut *g);\n}\ndrop(bump1);\ntouch(&x);"),
    ("arena of a pool guard overwritten with a foreign scope through as_mut_scope",
     "let pool: BumpPool = BumpPool::new();\nlet mut bump2: Bump = Bump::new();\n{\n    let mut g1 = pool.get();\n    let mut guard = bump2.scope_guard();\n    let mut scope = guard.scope();\n    core::mem::swap(g1.as_mut_scope(), &mut scope);\n}\ntouch(&pool);",
     "let pool: BumpPool = BumpPool::new();\nlet mut bump2: Bump = Bump::new();\n{\n    let mut g1 = pool.get();\n    let mut guard = bump2.scope_guard();\n    let mut scope = guard.scope();\n    touch(g1.as_mut_scope()); touch(&mut scope);\n}\ntouch(&pool);"),
    ("scoped closure parameter swapped with the scope of an inner arena's guard",
     "let mut bump1: Bump = Bump::new();\nbump1.scoped(|mut outer| {\n    let mut bump2: Bump = Bump::new();\n    let mut guard = bump2.scope_guard();\n    let mut scope = guard.scope();\n    core::mem::swap(&mut outer, &mut scope);\n});",
     "let mut bump1: Bump = Bump::new();\nbump1.scoped(|mut outer| {\n    let mut bump2: Bump = Bump::new();\n    let mut guard = bump2.scope_guard();\n    let mut scope = guard.scope();\n    touch(&mut outer); touch(&mut scope);\n});"),
    ("claimant of a claim guard swapped with the scope of another arena's guard",
     "let bump2: Bump = Bump::new();\nlet mut bump3: Bump = Bump::new();\n{\n    let mut guard = bump3.scope_guard();\n    let mut scope = guard.scope();\n    let mut g = bump2.claim();\n    core::mem::swap(&mut *g, &mut scope);\n}\ntouch(&bump2);",
     "let bump2: Bump = Bump::new();\nlet mut bump3: Bump = Bump::new();\n{\n    let mut guard = bump3.scope_guard();\n    let mut scope = guard.scope();\n    let mut g = bump2.claim();\n    touch(&mut *g); touch(&mut scope);\n}\ntouch(&bump2);"),
    ("scope of a shorter-lived Bump swapped with a longer-lived one whose allocations are live (lifetime shortened by BumpAllocator::as_mut_scope)",
     "let mut outer: Bump = Bump::new();\nlet outer_scope: &mut BumpScope = outer.as_mut_scope();\nlet x = outer_scope.alloc_str(\"a\").into_mut();\n{\n    let mut inner: Bump = Bump::new();\n    let inner_scope: &mut BumpScope = inner.as_mut_scope();\n    let shortened: &mut BumpScope = BumpAllocator::as_mut_scope(outer_scope);\n    core::mem::swap(shortened, inner_scope);\n}\ntouch(&x);",
     "let mut outer: Bump = Bump::new();\nlet outer_scope: &mut BumpScope = outer.as_mut_scope();\nlet x = outer_scope.alloc_str(\"a\").into_mut();\n{\n    let mut inner: Bump = Bump::new();\n    let inner_scope: &mut BumpScope = inner.as_mut_scope();\n    let shortened: &mut BumpScope = BumpAllocator::as_mut_scope(outer_scope);\n    touch(shortened); touch(inner_scope);\n}\ntouch(&x);"),
    ("scoped closure parameter swapped with a local Bump (lifetime shortened by BumpAllocator::as_mut_scope)",
     "let mut outer: Bump = Bump::new();\nouter.scoped(|scope| {\n    let mut inner: Bump = Bump::new();\n    core::mem::swap(BumpAllocator::as_mut_scope(scope), inner.as_mut_scope());\n});\ntouch(&outer);",
     "let mut outer: Bump = Bump::new();\nouter.scoped(|scope| {\n    let mut inner: Bump = Bump::new();\n    touch(BumpAllocator::as_mut_scope(scope)); touch(inner.as_mut_scope());\n});\ntouch(&outer);"),
    ("claimants of two claim guards swapped: each original handle resumes in the other arena",
     "let mut b1: Bump = Bump::new();\nlet mut b2: Bump = Bump::new();\nb1.scoped(|s1| {\n    b2.scoped(|s2| {\n        let mut g1 = s1.claim();\n        let mut g2 = s2.claim();\n        core::mem::swap(&mut *g1, &mut *g2);\n    });\n    let y = s1.alloc_str(\"y\");\n    b2.reset();\n    touch(&y);\n});",
     "let mut b1: Bump = Bump::new();\nlet mut b2: Bump = Bump::new();\nb1.scoped(|s1| {\n    b2.scoped(|s2| {\n        let mut g1 = s1.claim();\n        let mut g2 = s2.claim();\n        touch(&mut *g1); touch(&mut *g2);\n    });\n    let y = s1.alloc_str(\"y\");\n    b2.reset();\n    touch(&y);\n});"),
]

# ---------------------------------------------------------------------------------------------------------------
# pool witnesses: handles obtained through a pool guard that can observe the arena must not outlive the guard,
# because the pool hands the arena to the next user (possibly on another thread) as soon as the guard is gone.
POOL_WITNESSES = [
    ("Stats taken through a pool guard outlive the guard (a second, unsynchronised reader of an arena the pool hands to the next user)",
     "let pool: BumpPool = BumpPool::new();\nlet stats = pool.get().stats();\ntouch(&stats);",
     "let pool: BumpPool = BumpPool::new();\nlet g = pool.get();\nlet stats = g.stats();\ntouch(&stats);"),
    ("Stats taken through a pool guard are used after drop(guard)",
     "let pool: BumpPool = BumpPool::new();\nlet g = pool.get();\nlet stats = g.stats();\ndrop(g);\ntouch(&stats);",
     "let pool: BumpPool = BumpPool::new();\nlet g = pool.get();\nlet stats = g.stats();\ntouch(&stats);\ndrop(g);"),
    ("a pool guard cannot be used after the pool was reset",
     "let mut pool: BumpPool = BumpPool::new();\nlet g = pool.get();\npool.reset();\ntouch(&g);",
     "let mut pool: BumpPool = BumpPool::new();\nlet g = pool.get();\ntouch(&g);\ndrop(g);\npool.reset();"),
    ("BumpPool::reset needs exclusive access: not callable while another borrow of the pool hands out guards",
     "let mut pool: BumpPool = BumpPool::new();\nlet shared = &pool;\nlet x = shared.get().alloc_str(\"a\").into_ref();\npool.reset();\ntouch(&x);",
     "let mut pool: BumpPool = BumpPool::new();\nlet shared = &pool;\nlet x = shared.get().alloc_str(\"a\").into_ref();\ntouch(&x);\npool.reset();"),
]

S = "<BumpSettings as BumpAllocatorSettings>"
CONVERSION_WITNESSES = [
    # (name, witness body, twin body)
    ("lower MIN_ALIGN via BumpScope::with_settings",
     f"type Hi = {S}::WithMinimumAlignment<8>; type Lo = {S}::WithMinimumAlignment<1>;\nlet mut b: Bump<Global, Hi> = Bump::new();\nb.scoped(|s| {{ let s2: BumpScope<Global, Lo> = s.by_value().with_settings(); touch(&s2); }});",
     f"type Hi = {S}::WithMinimumAlignment<8>; type Lo = {S}::WithMinimumAlignment<1>;\nlet mut b: Bump<Global, Lo> = Bump::new();\nb.scoped(|s| {{ let s2: BumpScope<Global, Hi> = s.by_value().with_settings(); touch(&s2); }});"),
    ("change MIN_ALIGN on a shared borrow",
     f"type Hi = {S}::WithMinimumAlignment<8>;\nlet b: Bump = Bump::new();\nlet r: &Bump<Global, Hi> = b.borrow_with_settings();\ntouch(r);",
     f"let b: Bump = Bump::new();\nlet r: &Bump<Global, BumpSettings> = b.borrow_with_settings();\ntouch(r);"),
    ("lower MIN_ALIGN on a shared borrow",
     f"type Hi = {S}::WithMinimumAlignment<8>; type Lo = {S}::WithMinimumAlignment<1>;\nlet b: Bump<Global, Hi> = Bump::new();\nlet r: &Bump<Global, Lo> = b.borrow_with_settings();\ntouch(r);",
     f"type Hi = {S}::WithMinimumAlignment<8>;\nlet b: Bump<Global, Hi> = Bump::new();\nlet r: &Bump<Global, Hi> = b.borrow_with_settings();\ntouch(r);"),
    ("flip the bump direction on a mutable borrow",
     f"type Down = {S}::WithUp<false>;\nlet mut b: Bump = Bump::new();\nlet d: &mut Bump<Global, Down> = b.borrow_mut_with_settings();\ntouch(d);",
     f"type Same = {S}::WithUp<true>;\nlet mut b: Bump = Bump::new();\nlet d: &mut Bump<Global, Same> = b.borrow_mut_with_settings();\ntouch(d);"),
    ("lower MIN_ALIGN on a mutable borrow",
     f"type Hi = {S}::WithMinimumAlignment<8>; type Lo = {S}::WithMinimumAlignment<1>;\nlet mut b: Bump<Global, Hi> = Bump::new();\nlet r: &mut Bump<Global, Lo> = b.borrow_mut_with_settings();\ntouch(r);",
     f"type Hi = {S}::WithMinimumAlignment<8>; type Lo = {S}::WithMinimumAlignment<1>;\nlet mut b: Bump<Global, Lo> = Bump::new();\nlet r: &mut Bump<Global, Hi> = b.borrow_mut_with_settings();\ntouch(r);"),
    ("flip the bump direction with with_settings",
     f"type Down = {S}::WithUp<false>;\nlet b: Bump = Bump::new();\nlet d: Bump<Global, Down> = b.with_settings();\ntouch(&d);",
     f"type Same = {S}::WithUp<true>;\nlet b: Bump = Bump::new();\nlet d: Bump<Global, Same> = b.with_settings();\ntouch(&d);"),
    ("flip the bump direction on a shared borrow",
     f"type Down = {S}::WithUp<false>;\nlet b: Bump = Bump::new();\nlet d: &Bump<Global, Down> = b.borrow_with_settings();\ntouch(d);",
     f"type Same = {S}::WithUp<true>;\nlet b: Bump = Bump::new();\nlet d: &Bump<Global, Same> = b.borrow_with_settings();\ntouch(d);"),
    ("upgrade GUARANTEED_ALLOCATED on a shared borrow",
     f"type Lazy = {S}::WithGuaranteedAllocated<false>; type Eager = {S}::WithGuaranteedAllocated<true>;\nlet b: Bump<Global, Lazy> = Bump::unallocated();\nlet r: &Bump<Global, Eager> = b.borrow_with_settings();\ntouch(r);",
     f"type Lazy = {S}::WithGuaranteedAllocated<false>; type Eager = {S}::WithGuaranteedAllocated<true>;\nlet b: Bump<Global, Eager> = Bump::new();\nlet r: &Bump<Global, Lazy> = b.borrow_with_settings();\ntouch(r);"),
    ("change GUARANTEED_ALLOCATED on a mutable borrow",
     f"type Lazy = {S}::WithGuaranteedAllocated<false>; type Eager = {S}::WithGuaranteedAllocated<true>;\nlet mut b: Bump<Global, Eager> = Bump::new();\nlet r: &mut Bump<Global, Lazy> = b.borrow_mut_with_settings();\ntouch(r);",
     f"type Eager = {S}::WithGuaranteedAllocated<true>;\nlet mut b: Bump<Global, Eager> = Bump::new();\nlet r: &mut Bump<Global, Eager> = b.borrow_mut_with_settings();\ntouch(r);"),
    ("change CLAIMABLE on a shared borrow",
     f"type NoClaim = {S}::WithClaimable<false>;\nlet b: Bump = Bump::new();\nlet r: &Bump<Global, NoClaim> = b.borrow_with_settings();\ntouch(r);",
     f"type Claim = {S}::WithClaimable<true>;\nlet b: Bump = Bump::new();\nlet r: &Bump<Global, Claim> = b.borrow_with_settings();\ntouch(r);"),
    ("claim() on a non-claimable allocator",
     f"type NoClaim = {S}::WithClaimable<false>;\nlet b: Bump<Global, NoClaim> = Bump::new();\nlet g = b.claim();\ntouch(&*g);",
     f"let b: Bump = Bump::new();\nlet g = b.claim();\ntouch(&*g);"),
]


# ---------------------------------------------------------------------------------------------------------------

class Harness:
    def __init__(self, features=()):
        self.features = features
        self.scratch = tempfile.mkdtemp(prefix="bsv-witness-", dir=os.environ.get("BSV_SCRATCH") or tempfile.gettempdir())
        self.rlib = None
        self.deps = None
        self.build_log = ""

    def close(self):
        shutil.rmtree(self.scratch, ignore_errors=True)

    def build_rlib(self):
        tgt = os.path.join(self.scratch, "target")
        cmd = ["cargo", "build", "--offline", "--lib", "-p", "bump-scope"]
        if self.features:
            cmd += ["--features", ",".join(self.features)]
        env = dict(os.environ, CARGO_TARGET_DIR=tgt, CARGO_NET_OFFLINE="true", RUSTFLAGS="-Awarnings")
        env.pop("RUSTC_WORKSPACE_WRAPPER", None)
        p = subprocess.run(cmd, cwd=REPO, env=env, stdout=subprocess.PIPE, stderr=subprocess.STDOUT, text=True)
        self.build_log = p.stdout
        if p.returncode != 0:
            raise RuntimeError("cargo build of bump-scope failed:\n" + p.stdout[-3000:])
        self.rlib = os.path.join(tgt, "debug", "libbump_scope.rlib")
        self.deps = os.path.join(tgt, "debug", "deps")
        if not os.path.exists(self.rlib):
            raise RuntimeError("rlib not found after build")

    def rustc(self, src_path, emit="metadata"):
        out = os.path.join(self.scratch, "out")
        os.makedirs(out, exist_ok=True)
        cmd = ["rustc", "--edition", "2024", "--crate-type", "lib", "--emit=" + emit, "--error-format=json", "-L", "dependency=" + self.deps,
               "--extern", "bump_scope=" + self.rlib, "--out-dir", out, "-Awarnings", src_path]
        p = subprocess.run(cmd, stdout=subprocess.PIPE, stderr=subprocess.PIPE, text=True)
        diags = []
        for line in p.stderr.splitlines():
            line = line.strip()
            if not line.startswith("{"):
                continue
            try:
                d = json.loads(line)
            except Exception:
                continue
            if d.get("level") != "error":
                continue
            code = (d.get("code") or {}).get("code")
            msg = d.get("message", "")
            if msg.startswith("aborting due to"):
                continue
            lines = [sp["line_start"] for sp in d.get("spans", []) if sp.get("is_primary")] or [sp["line_start"] for sp in d.get("spans", [])]
            # post-mono errors point into the crate source; their "note: the above error was encountered while instantiating"
            # children carry the local span
            for ch in d.get("children", []):
                for sp in ch.get("spans", []):
                    if sp.get("file_name", "").endswith(os.path.basename(src_path)):
                        lines.append(sp["line_start"])
            files = [sp.get("file_name") for sp in d.get("spans", [])]
            diags.append({"code": code, "msg": msg, "lines": lines, "files": files})
        return p.returncode, diags


def render(fns, extra=""):
    """fns: [(name, body)] -> (source, {name: (first_line, last_line)})"""
    src = PRELUDE + extra
    ranges = {}
    line = src.count("\n") + 1
    for name, body in fns:
        text = f"pub fn {name}() {{\n" + "\n".join("    " + l for l in body.split("\n")) + "\n}\n"
        n = text.count("\n")
        ranges[name] = (line, line + n - 1)
        src += text
        line += n
    return src, ranges


def classify(diag):
    if diag["code"]:
        return diag["code"]
    if "lifetime may not live long enough" in diag["msg"] or "borrowed data escapes" in diag["msg"]:
        return "lifetime"
    if "captured variable cannot escape" in diag["msg"]:
        return "lifetime"
    return "other:" + diag["msg"][:60]


def judge(diags, ranges):
    """{name: [classes]} plus list of diagnostics outside all ranges."""
    per = {k: [] for k in ranges}
    outside = []
    for d in diags:
        hit = False
        for ln in d["lines"]:
            for name, (a, b) in ranges.items():
                if a <= ln <= b:
                    per[name].append(classify(d))
                    hit = True
                    break
            if hit:
                break
        if not hit:
            outside.append(d)
    return per, outside
