//! bsv-driver: a rustc_private driver that dumps the type-checked program of one crate
//! (items, impls, ADTs, MIR bodies with resolved callees) as JSON facts.
//!
//! Used as RUSTC_WORKSPACE_WRAPPER: argv = [driver, rustc, args...].
//! Env: BSV_OUT = output file, BSV_CRATE = crate name to export (default bump_scope).
#![feature(rustc_private)]
#![allow(clippy::all)]

extern crate rustc_abi;
extern crate rustc_driver;
extern crate rustc_hir;
extern crate rustc_interface;
extern crate rustc_middle;
extern crate rustc_span;

use std::fmt::Write as _;

use rustc_driver::{Callbacks, Compilation};
use rustc_hir::def::DefKind;
use rustc_hir::def_id::{DefId, LOCAL_CRATE};
use rustc_interface::interface::Compiler;
use rustc_middle::mir::{
    self, AggregateKind, BasicBlock, Body, BorrowKind, Const, ConstOperand, NonDivergingIntrinsic, Operand, Place,
    ProjectionElem, Rvalue, StatementKind, TerminatorKind, UnwindAction,
};
use rustc_middle::ty::print::with_no_trimmed_paths;
use rustc_middle::ty::{self, GenericArgKind, GenericArgsRef, Ty, TyCtxt};
use rustc_span::Span;

// ---------------------------------------------------------------------------------------------
// tiny JSON writer

fn esc(s: &str, out: &mut String) {
    out.push('"');
    for c in s.chars() {
        match c {
            '"' => out.push_str("\\\""),
            '\\' => out.push_str("\\\\"),
            '\n' => out.push_str("\\n"),
            '\r' => out.push_str("\\r"),
            '\t' => out.push_str("\\t"),
            c if (c as u32) < 0x20 => {
                let _ = write!(out, "\\u{:04x}", c as u32);
            }
            c => out.push(c),
        }
    }
    out.push('"');
}

fn js(s: &str) -> String {
    let mut o = String::with_capacity(s.len() + 2);
    esc(s, &mut o);
    o
}

fn jopt(s: Option<String>) -> String {
    match s {
        Some(s) => js(&s),
        None => "null".to_string(),
    }
}

fn jarr(items: impl IntoIterator<Item = String>) -> String {
    let mut o = String::from("[");
    let mut first = true;
    for i in items {
        if !first {
            o.push(',');
        }
        first = false;
        o.push_str(&i);
    }
    o.push(']');
    o
}

fn jobj(fields: &[(&str, String)]) -> String {
    let mut o = String::from("{");
    let mut first = true;
    for (k, v) in fields {
        if !first {
            o.push(',');
        }
        first = false;
        esc(k, &mut o);
        o.push(':');
        o.push_str(v);
    }
    o.push('}');
    o
}

fn jb(b: bool) -> String {
    if b { "true".into() } else { "false".into() }
}

// ---------------------------------------------------------------------------------------------

struct Cx<'tcx> {
    tcx: TyCtxt<'tcx>,
    cur_owner: std::cell::Cell<DefId>,
}

impl<'tcx> Cx<'tcx> {
    fn id(&self, d: DefId) -> String {
        format!("{}:{}", d.krate.as_u32(), d.index.as_u32())
    }

    fn path(&self, d: DefId) -> String {
        with_no_trimmed_paths!(self.tcx.def_path_str(d))
    }

    fn ty(&self, t: Ty<'tcx>) -> String {
        with_no_trimmed_paths!(format!("{}", t))
    }

    fn span_loc(&self, sp: Span) -> (String, usize) {
        let sm = self.tcx.sess.source_map();
        let lo = sm.lookup_char_pos(sp.lo());
        let name = format!("{}", lo.file.name.prefer_local_unconditionally());
        (name, lo.line)
    }

    fn span_json(&self, sp: Span) -> Vec<(&'static str, String)> {
        let (f, l) = self.span_loc(sp);
        let mut v = vec![("file", js(&f)), ("line", l.to_string())];
        if sp.from_expansion() {
            let ed = sp.ctxt().outer_expn_data();
            let m = match ed.macro_def_id {
                Some(m) => js(&self.path(m)),
                None => js(&format!("{:?}", ed.kind)),
            };
            v.push(("macro", m));
            // outermost call site (where the user wrote the macro invocation)
            let cs = sp.source_callsite();
            let (cf, cl) = self.span_loc(cs);
            v.push(("cs_file", js(&cf)));
            v.push(("cs_line", cl.to_string()));
        }
        v
    }

    fn generics_json(&self, d: DefId) -> String {
        let g = self.tcx.generics_of(d);
        let n = g.count();
        let mut v = Vec::new();
        for i in 0..n {
            let p = g.param_at(i, self.tcx);
            let kind = match p.kind {
                ty::GenericParamDefKind::Lifetime => "lt",
                ty::GenericParamDefKind::Type { .. } => "ty",
                ty::GenericParamDefKind::Const { .. } => "const",
            };
            v.push(jobj(&[("i", i.to_string()), ("name", js(p.name.as_str())), ("kind", js(kind))]));
        }
        jarr(v)
    }

    fn preds_json(&self, d: DefId) -> String {
        let preds = self.tcx.predicates_of(d).instantiate_identity(self.tcx);
        let mut v = Vec::new();
        for p in preds.predicates.iter() {
            let c = p.skip_norm_wip();
            v.push(js(&with_no_trimmed_paths!(format!("{}", c))));
        }
        jarr(v)
    }

    fn region_name(&self, r: ty::Region<'tcx>) -> String {
        match r.kind() {
            ty::ReEarlyParam(ep) => format!("e{}", ep.index),
            ty::ReBound(_, br) => format!("b{}", br.var.as_u32()),
            ty::ReStatic => "static".to_string(),
            _ => format!("?{:?}", r),
        }
    }

    /// Regions (early-bound, late-bound of the enclosing fn binder, 'static) occurring in a value, repetition removed.
    fn regions_json<T: ty::TypeVisitable<TyCtxt<'tcx>>>(&self, t: T) -> String {
        let mut rc = RegionCollector { cx: self, depth: 0, names: Vec::new(), in_alias: false, alias_names: Vec::new() };
        t.visit_with(&mut rc);
        jarr(rc.names.iter().map(|x| js(x)))
    }

    /// Regions that occur only inside the arguments of projection / opaque alias types of a value.
    fn alias_regions_json<T: ty::TypeVisitable<TyCtxt<'tcx>>>(&self, t: T) -> String {
        let mut rc = RegionCollector { cx: self, depth: 0, names: Vec::new(), in_alias: false, alias_names: Vec::new() };
        t.visit_with(&mut rc);
        jarr(rc.alias_names.iter().map(|x| js(x)))
    }

    /// Names of the type parameters occurring in a type.
    fn ty_params_json(&self, t: Ty<'tcx>) -> String {
        let mut v: Vec<String> = Vec::new();
        for a in t.walk() {
            if let GenericArgKind::Type(tt) = a.kind() {
                if let ty::Param(p) = tt.kind() {
                    let n = p.name.to_string();
                    if !v.contains(&n) {
                        v.push(n);
                    }
                }
            }
        }
        jarr(v.iter().map(|x| js(x)))
    }

    /// Per predicate: its text, the free regions and the type parameters it mentions.
    fn pred_regions_json(&self, d: DefId) -> String {
        let preds = self.tcx.predicates_of(d).instantiate_identity(self.tcx);
        let mut v = Vec::new();
        for p in preds.predicates.iter() {
            let c = p.skip_norm_wip();
            let mut pc = ParamCollector { names: Vec::new() };
            use rustc_middle::ty::TypeVisitable as _;
            c.visit_with(&mut pc);
            let ps = pc.names;
            v.push(jobj(&[
                ("s", js(&with_no_trimmed_paths!(format!("{}", c)))),
                ("regions", self.regions_json(c)),
                ("params", jarr(ps.iter().map(|x| js(x)))),
            ]));
        }
        jarr(v)
    }

    fn garg_json(&self, a: ty::GenericArg<'tcx>) -> String {
        match a.kind() {
            GenericArgKind::Lifetime(r) => jobj(&[("k", js("lt")), ("s", js(&format!("{:?}", r)))]),
            GenericArgKind::Type(t) => {
                let mut f = vec![("k", js("ty")), ("s", js(&self.ty(t)))];
                if let ty::Param(p) = t.kind() {
                    f.push(("param", js(p.name.as_str())));
                }
                if let ty::Adt(adt, _) = t.kind() {
                    f.push(("adt", js(&self.path(adt.did()))));
                }
                if let ty::Closure(cid, _) = t.kind() {
                    f.push(("closure", js(&self.id(*cid))));
                }
                jobj(&f)
            }
            GenericArgKind::Const(c) => {
                let mut f = vec![("k", js("const")), ("s", js(&with_no_trimmed_paths!(format!("{}", c))))];
                if let ty::ConstKind::Param(p) = c.kind() {
                    f.push(("param", js(p.name.as_str())));
                }
                jobj(&f)
            }
        }
    }

    fn gargs_json(&self, args: GenericArgsRef<'tcx>) -> String {
        jarr(args.iter().map(|a| self.garg_json(a)))
    }

    /// def paths of all ADTs mentioned in a type
    fn adts_in_ty(&self, t: Ty<'tcx>) -> Vec<String> {
        let mut out = Vec::new();
        for a in t.walk() {
            if let GenericArgKind::Type(t) = a.kind() {
                if let ty::Adt(adt, _) = t.kind() {
                    let s = self.path(adt.did());
                    if !out.contains(&s) {
                        out.push(s);
                    }
                }
            }
        }
        out
    }

    /// closure def ids mentioned in a type (so that "closure captured by value" is a fact)
    fn closures_in_ty(&self, t: Ty<'tcx>, out: &mut Vec<String>) {
        for a in t.walk() {
            if let GenericArgKind::Type(t) = a.kind() {
                if let ty::Closure(cid, _) = t.kind() {
                    let s = self.id(*cid);
                    if !out.contains(&s) {
                        out.push(s);
                    }
                }
            }
        }
    }

    // -----------------------------------------------------------------------------------------
    // MIR

    fn place_json(&self, body: &Body<'tcx>, p: Place<'tcx>) -> String {
        let mut projs = Vec::new();
        for (base, elem) in p.iter_projections() {
            let s = match elem {
                ProjectionElem::Deref => js("*"),
                ProjectionElem::Field(idx, fty) => {
                    let bty = base.ty(&body.local_decls, self.tcx);
                    let mut f = vec![("f", idx.as_u32().to_string()), ("t", js(&self.ty(fty)))];
                    if let ty::Adt(adt, _) = bty.ty.kind() {
                        let vi = bty.variant_index.unwrap_or(rustc_abi::FIRST_VARIANT);
                        if adt.is_enum() || adt.is_struct() || adt.is_union() {
                            let var = adt.variant(vi);
                            if let Some(fd) = var.fields.get(idx) {
                                f.push(("n", js(fd.name.as_str())));
                            }
                            f.push(("of", js(&self.path(adt.did()))));
                        }
                    }
                    jobj(&f)
                }
                ProjectionElem::Index(l) => jobj(&[("ix", l.as_u32().to_string())]),
                ProjectionElem::ConstantIndex { offset, min_length, from_end } => jobj(&[
                    ("ci", offset.to_string()),
                    ("min", min_length.to_string()),
                    ("from_end", jb(from_end)),
                ]),
                ProjectionElem::Subslice { from, to, from_end } => {
                    jobj(&[("sub", from.to_string()), ("to", to.to_string()), ("from_end", jb(from_end))])
                }
                ProjectionElem::Downcast(name, vi) => jobj(&[
                    ("dc", jopt(name.map(|n| n.as_str().to_string()))),
                    ("i", vi.as_u32().to_string()),
                ]),
                ProjectionElem::OpaqueCast(t) => jobj(&[("oc", js(&self.ty(t)))]),
                ProjectionElem::UnwrapUnsafeBinder(t) => jobj(&[("ub", js(&self.ty(t)))]),
            };
            projs.push(s);
        }
        jobj(&[("l", p.local.as_u32().to_string()), ("p", jarr(projs))])
    }

    fn const_json(&self, c: &ConstOperand<'tcx>) -> String {
        let cty = c.const_.ty();
        // function items
        if let ty::FnDef(did, args) = cty.kind() {
            return jobj(&[("t", js("fn")), ("f", self.callee_json(*did, args))]);
        }
        match c.const_ {
            Const::Unevaluated(uv, t) => {
                let mut f = vec![
                    ("t", js("uneval")),
                    ("id", js(&self.id(uv.def))),
                    ("path", js(&self.path(uv.def))),
                    ("args", self.gargs_json(uv.args)),
                    ("ty", js(&self.ty(t))),
                ];
                if let Some(p) = uv.promoted {
                    f.push(("promoted", p.as_u32().to_string()));
                }
                // is it an associated const of a trait?
                if let Some(parent) = self.tcx.opt_parent(uv.def) {
                    if matches!(self.tcx.def_kind(parent), DefKind::Trait) {
                        f.push(("trait", js(&self.path(parent))));
                        f.push(("name", js(self.tcx.item_name(uv.def).as_str())));
                    }
                }
                jobj(&f)
            }
            Const::Ty(t, tc) => {
                if let ty::ConstKind::Param(p) = tc.kind() {
                    return jobj(&[("t", js("param")), ("name", js(p.name.as_str())), ("ty", js(&self.ty(t)))]);
                }
                if let ty::ConstKind::Unevaluated(uv) = tc.kind() {
                    return jobj(&[
                        ("t", js("uneval")),
                        ("id", js(&self.id(uv.def))),
                        ("path", js(&self.path(uv.def))),
                        ("args", self.gargs_json(uv.args)),
                        ("ty", js(&self.ty(t))),
                    ]);
                }
                self.scalar_json(c, t)
            }
            Const::Val(_, t) => self.scalar_json(c, t),
        }
    }

    fn scalar_json(&self, c: &ConstOperand<'tcx>, t: Ty<'tcx>) -> String {
        // pointer to a static: keep the static's identity
        if let Const::Val(mir::ConstValue::Scalar(mir::interpret::Scalar::Ptr(ptr, _)), _) = c.const_ {
            let (prov, off) = ptr.prov_and_relative_offset();
            if let Some(rustc_middle::mir::interpret::GlobalAlloc::Static(did)) =
                self.tcx.try_get_global_alloc(prov.alloc_id())
            {
                return jobj(&[
                    ("t", js("static_ref")),
                    ("id", js(&self.id(did))),
                    ("path", js(&self.path(did))),
                    ("offset", off.bytes().to_string()),
                    ("ty", js(&self.ty(t))),
                ]);
            }
        }
        if let Some(si) = c.const_.try_to_scalar_int() {
            if t.is_bool() {
                if let Ok(b) = bool::try_from(si) {
                    return jobj(&[("t", js("bool")), ("v", jb(b))]);
                }
            }
            if t.is_integral() || t.is_char() {
                let size = si.size();
                let bits = si.to_bits(size);
                let v = if t.is_signed() {
                    let sh = 128 - size.bits();
                    (((bits as i128) << sh) >> sh).to_string()
                } else {
                    bits.to_string()
                };
                return jobj(&[("t", js("int")), ("v", js(&v)), ("ty", js(&self.ty(t)))]);
            }
        }
        jobj(&[
            ("t", js("other")),
            ("s", js(&with_no_trimmed_paths!(format!("{}", c.const_)))),
            ("ty", js(&self.ty(t))),
        ])
    }

    fn operand_json(&self, body: &Body<'tcx>, o: &Operand<'tcx>) -> String {
        match o {
            Operand::Copy(p) => jobj(&[("k", js("cp")), ("p", self.place_json(body, *p))]),
            Operand::Move(p) => jobj(&[("k", js("mv")), ("p", self.place_json(body, *p))]),
            Operand::Constant(c) => jobj(&[("k", js("c")), ("c", self.const_json(c))]),
            Operand::RuntimeChecks(rc) => jobj(&[("k", js("rtc")), ("s", js(&format!("{:?}", rc)))]),
        }
    }

    fn callee_json(&self, did: DefId, args: GenericArgsRef<'tcx>) -> String {
        let tcx = self.tcx;
        let mut f = vec![
            ("id", js(&self.id(did))),
            ("path", js(&self.path(did))),
            ("name", js(tcx.opt_item_name(did).map(|s| s.to_string()).unwrap_or_default().as_str())),
            ("args", self.gargs_json(args)),
            ("local", jb(did.is_local())),
            ("krate", js(tcx.crate_name(did.krate).as_str())),
        ];
        if matches!(tcx.def_kind(did), DefKind::Fn | DefKind::AssocFn) {
            let sig = tcx.fn_sig(did).skip_binder();
            f.push(("unsafe", jb(sig.safety().is_unsafe())));
        }
        if let Some(parent) = tcx.opt_parent(did) {
            match tcx.def_kind(parent) {
                DefKind::Trait => {
                    f.push(("trait", js(&self.path(parent))));
                    f.push(("trait_id", js(&self.id(parent))));
                }
                DefKind::Impl { of_trait } => {
                    f.push(("impl", js(&self.id(parent))));
                    f.push(("impl_self", js(&self.ty(tcx.type_of(parent).instantiate_identity().skip_norm_wip()))));
                    if of_trait {
                        let tr = tcx.impl_trait_ref(parent).instantiate_identity().skip_norm_wip();
                        f.push(("impl_trait", js(&self.path(tr.def_id))));
                    }
                }
                _ => {}
            }
        }
        // resolved instance (trait method on a concrete type -> impl method)
        if matches!(tcx.def_kind(did), DefKind::AssocFn | DefKind::Fn) {
            if let Some(parent) = tcx.opt_parent(did) {
                if matches!(tcx.def_kind(parent), DefKind::Trait) {
                    let env = ty::TypingEnv::post_analysis(tcx, self.cur_owner.get());
                    if let Ok(Some(inst)) = ty::Instance::try_resolve(tcx, env, did, args) {
                        let rd = inst.def_id();
                        if rd != did {
                            f.push((
                                "res",
                                jobj(&[
                                    ("id", js(&self.id(rd))),
                                    ("path", js(&self.path(rd))),
                                    ("args", self.gargs_json(inst.args)),
                                    ("local", jb(rd.is_local())),
                                    ("kind", js(&format!("{:?}", std::mem::discriminant(&inst.def)))),
                                ]),
                            ));
                        }
                    }
                }
            }
        }
        jobj(&f)
    }

    fn rvalue_json(&self, body: &Body<'tcx>, r: &Rvalue<'tcx>) -> String {
        match r {
            Rvalue::Use(o, _) => jobj(&[("k", js("use")), ("o", self.operand_json(body, o))]),
            Rvalue::Repeat(o, n) => jobj(&[
                ("k", js("repeat")),
                ("o", self.operand_json(body, o)),
                ("n", js(&with_no_trimmed_paths!(format!("{}", n)))),
            ]),
            Rvalue::Ref(_, bk, p) => {
                let k = match bk {
                    BorrowKind::Shared => "shared",
                    BorrowKind::Fake(_) => "fake",
                    BorrowKind::Mut { .. } => "mut",
                };
                jobj(&[("k", js("ref")), ("bk", js(k)), ("p", self.place_json(body, *p))])
            }
            Rvalue::ThreadLocalRef(d) => jobj(&[("k", js("tls")), ("path", js(&self.path(*d)))]),
            Rvalue::RawPtr(m, p) => {
                jobj(&[("k", js("rawptr")), ("m", js(&format!("{:?}", m))), ("p", self.place_json(body, *p))])
            }
            Rvalue::Cast(ck, o, t) => jobj(&[
                ("k", js("cast")),
                ("ck", js(&format!("{:?}", ck))),
                ("o", self.operand_json(body, o)),
                ("ty", js(&self.ty(*t))),
            ]),
            Rvalue::BinaryOp(op, ab) => jobj(&[
                ("k", js("bin")),
                ("op", js(&format!("{:?}", op))),
                ("a", self.operand_json(body, &ab.0)),
                ("b", self.operand_json(body, &ab.1)),
            ]),
            Rvalue::UnaryOp(op, o) => {
                jobj(&[("k", js("un")), ("op", js(&format!("{:?}", op))), ("o", self.operand_json(body, o))])
            }
            Rvalue::Discriminant(p) => {
                let pty = p.ty(&body.local_decls, self.tcx).ty;
                let mut f = vec![("k", js("disc")), ("p", self.place_json(body, *p)), ("ty", js(&self.ty(pty)))];
                if let ty::Adt(adt, _) = pty.kind() {
                    if adt.is_enum() {
                        let mut vs = Vec::new();
                        for (vi, d) in adt.discriminants(self.tcx) {
                            vs.push(jarr([js(&d.val.to_string()), js(adt.variant(vi).name.as_str())]));
                        }
                        f.push(("variants", jarr(vs)));
                        f.push(("adt", js(&self.path(adt.did()))));
                    }
                }
                jobj(&f)
            }
            Rvalue::Aggregate(kind, fields) => {
                let mut f = vec![("k", js("agg"))];
                match &**kind {
                    AggregateKind::Array(t) => {
                        f.push(("ak", js("array")));
                        f.push(("ty", js(&self.ty(*t))));
                    }
                    AggregateKind::Tuple => f.push(("ak", js("tuple"))),
                    AggregateKind::Adt(did, vi, args, _, active) => {
                        f.push(("ak", js("adt")));
                        f.push(("adt", js(&self.path(*did))));
                        f.push(("adt_id", js(&self.id(*did))));
                        let adt = self.tcx.adt_def(*did);
                        let var = adt.variant(*vi);
                        f.push(("variant", js(var.name.as_str())));
                        f.push(("args", self.gargs_json(args)));
                        let names: Vec<String> = match active {
                            Some(a) => vec![js(var.fields[*a].name.as_str())],
                            None => var.fields.iter().map(|fd| js(fd.name.as_str())).collect(),
                        };
                        f.push(("fnames", jarr(names)));
                    }
                    AggregateKind::Closure(did, args) => {
                        f.push(("ak", js("closure")));
                        f.push(("id", js(&self.id(*did))));
                        f.push(("path", js(&self.path(*did))));
                        let _ = args;
                    }
                    AggregateKind::Coroutine(did, _) | AggregateKind::CoroutineClosure(did, _) => {
                        f.push(("ak", js("coroutine")));
                        f.push(("id", js(&self.id(*did))));
                    }
                    AggregateKind::RawPtr(t, m) => {
                        f.push(("ak", js("rawptr")));
                        f.push(("ty", js(&self.ty(*t))));
                        f.push(("m", js(&format!("{:?}", m))));
                    }
                }
                f.push(("fields", jarr(fields.iter().map(|o| self.operand_json(body, o)))));
                jobj(&f)
            }
            Rvalue::CopyForDeref(p) => jobj(&[("k", js("use")), ("o", jobj(&[("k", js("cp")), ("p", self.place_json(body, *p))]))]),
            Rvalue::WrapUnsafeBinder(o, t) => {
                jobj(&[("k", js("wrapbinder")), ("o", self.operand_json(body, o)), ("ty", js(&self.ty(*t)))])
            }
        }
    }

    fn unwind_json(&self, u: &UnwindAction) -> String {
        match u {
            UnwindAction::Continue => js("continue"),
            UnwindAction::Unreachable => js("unreachable"),
            UnwindAction::Terminate(_) => js("terminate"),
            UnwindAction::Cleanup(bb) => bb.as_u32().to_string(),
        }
    }

    fn bb(&self, b: BasicBlock) -> String {
        b.as_u32().to_string()
    }

    fn body_json(&self, body: &Body<'tcx>) -> String {
        let tcx = self.tcx;
        // user variable names
        let mut names: Vec<Option<String>> = vec![None; body.local_decls.len()];
        for vdi in &body.var_debug_info {
            if let mir::VarDebugInfoContents::Place(p) = vdi.value {
                if p.projection.is_empty() {
                    names[p.local.as_usize()] = Some(vdi.name.as_str().to_string());
                }
            }
        }
        let mut closures = Vec::new();
        let mut locals = Vec::new();
        for (l, decl) in body.local_decls.iter_enumerated() {
            self.closures_in_ty(decl.ty, &mut closures);
            let mut f = vec![("ty", js(&self.ty(decl.ty)))];
            if let Some(n) = &names[l.as_usize()] {
                f.push(("name", js(n)));
            }
            // outermost ADT after peeling references / raw pointers
            let mut t = decl.ty;
            loop {
                match t.kind() {
                    ty::Ref(_, inner, _) => t = *inner,
                    ty::RawPtr(inner, _) => t = *inner,
                    _ => break,
                }
            }
            if let ty::Adt(adt, _) = t.kind() {
                f.push(("adt", js(&self.path(adt.did()))));
            }
            locals.push(jobj(&f));
        }

        let mut blocks = Vec::new();
        for (_bb, data) in body.basic_blocks.iter_enumerated() {
            let mut stmts = Vec::new();
            for st in &data.statements {
                let line = self.span_loc(st.source_info.span).1;
                match &st.kind {
                    StatementKind::Assign(b) => {
                        let (p, r) = &**b;
                        stmts.push(jobj(&[
                            ("k", js("assign")),
                            ("p", self.place_json(body, *p)),
                            ("r", self.rvalue_json(body, r)),
                            ("line", line.to_string()),
                        ]));
                    }
                    StatementKind::SetDiscriminant { place, variant_index } => {
                        stmts.push(jobj(&[
                            ("k", js("setdisc")),
                            ("p", self.place_json(body, **place)),
                            ("i", variant_index.as_u32().to_string()),
                            ("line", line.to_string()),
                        ]));
                    }
                    StatementKind::Intrinsic(i) => match &**i {
                        NonDivergingIntrinsic::Assume(o) => {
                            stmts.push(jobj(&[("k", js("assume")), ("o", self.operand_json(body, o))]));
                        }
                        NonDivergingIntrinsic::CopyNonOverlapping(c) => {
                            stmts.push(jobj(&[
                                ("k", js("copy_nonoverlapping")),
                                ("src", self.operand_json(body, &c.src)),
                                ("dst", self.operand_json(body, &c.dst)),
                                ("count", self.operand_json(body, &c.count)),
                                ("line", line.to_string()),
                            ]));
                        }
                    },
                    _ => {}
                }
            }
            let term = data.terminator();
            let tspan = term.source_info.span;
            let line = self.span_loc(tspan).1;
            let t = match &term.kind {
                TerminatorKind::Goto { target } => jobj(&[("k", js("goto")), ("t", self.bb(*target))]),
                TerminatorKind::SwitchInt { discr, targets } => {
                    let mut vals = Vec::new();
                    for (v, t) in targets.iter() {
                        vals.push(jarr([js(&v.to_string()), self.bb(t)]));
                    }
                    jobj(&[
                        ("k", js("switch")),
                        ("d", self.operand_json(body, discr)),
                        ("vals", jarr(vals)),
                        ("else", self.bb(targets.otherwise())),
                        ("line", line.to_string()),
                    ])
                }
                TerminatorKind::UnwindResume => jobj(&[("k", js("resume"))]),
                TerminatorKind::UnwindTerminate(_) => jobj(&[("k", js("terminate"))]),
                TerminatorKind::Return => jobj(&[("k", js("return"))]),
                TerminatorKind::Unreachable => jobj(&[("k", js("unreachable"))]),
                TerminatorKind::Drop { place, target, unwind, .. } => {
                    let pty = place.ty(&body.local_decls, tcx).ty;
                    let mut f = vec![
                        ("k", js("drop")),
                        ("p", self.place_json(body, *place)),
                        ("ty", js(&self.ty(pty))),
                        ("ret", self.bb(*target)),
                        ("unw", self.unwind_json(unwind)),
                        ("line", line.to_string()),
                    ];
                    if let ty::Adt(adt, _) = pty.kind() {
                        f.push(("adt", js(&self.path(adt.did()))));
                    }
                    f.push(("adts", jarr(self.adts_in_ty(pty).iter().map(|s| js(s)))));
                    if let ty::Param(p) = pty.kind() {
                        f.push(("param", js(p.name.as_str())));
                    }
                    let mut cl = Vec::new();
                    self.closures_in_ty(pty, &mut cl);
                    if !cl.is_empty() {
                        f.push(("closures", jarr(cl.iter().map(|s| js(s)))));
                    }
                    jobj(&f)
                }
                TerminatorKind::Call { func, args, destination, target, unwind, .. } => {
                    let fj = match func.const_fn_def() {
                        Some((did, gargs)) => self.callee_json(did, gargs),
                        None => jobj(&[
                            ("indirect", self.operand_json(body, func)),
                            ("ty", js(&self.ty(func.ty(&body.local_decls, tcx)))),
                        ]),
                    };
                    let mut f = vec![
                        ("k", js("call")),
                        ("f", fj),
                        ("args", jarr(args.iter().map(|a| self.operand_json(body, &a.node)))),
                        ("dest", self.place_json(body, *destination)),
                        ("ret", target.map(|t| self.bb(t)).unwrap_or("null".into())),
                        ("unw", self.unwind_json(unwind)),
                    ];
                    f.extend(self.span_json(tspan));
                    jobj(&f)
                }
                TerminatorKind::TailCall { func, args, .. } => {
                    let fj = match func.const_fn_def() {
                        Some((did, gargs)) => self.callee_json(did, gargs),
                        None => jobj(&[("indirect", self.operand_json(body, func))]),
                    };
                    jobj(&[
                        ("k", js("tailcall")),
                        ("f", fj),
                        ("args", jarr(args.iter().map(|a| self.operand_json(body, &a.node)))),
                    ])
                }
                TerminatorKind::Assert { cond, expected, msg, target, unwind } => {
                    let kind = match &**msg {
                        mir::AssertKind::BoundsCheck { .. } => "bounds".to_string(),
                        mir::AssertKind::Overflow(op, ..) => format!("overflow:{:?}", op),
                        mir::AssertKind::OverflowNeg(_) => "overflow_neg".to_string(),
                        mir::AssertKind::DivisionByZero(_) => "div0".to_string(),
                        mir::AssertKind::RemainderByZero(_) => "rem0".to_string(),
                        mir::AssertKind::MisalignedPointerDereference { .. } => "misaligned".to_string(),
                        mir::AssertKind::NullPointerDereference => "nullptr".to_string(),
                        mir::AssertKind::InvalidEnumConstruction(_) => "invalid_enum".to_string(),
                        _ => "other".to_string(),
                    };
                    jobj(&[
                        ("k", js("assert")),
                        ("cond", self.operand_json(body, cond)),
                        ("exp", jb(*expected)),
                        ("msg", js(&kind)),
                        ("ret", self.bb(*target)),
                        ("unw", self.unwind_json(unwind)),
                        ("line", line.to_string()),
                    ])
                }
                TerminatorKind::FalseEdge { real_target, .. } => jobj(&[("k", js("goto")), ("t", self.bb(*real_target))]),
                TerminatorKind::FalseUnwind { real_target, .. } => {
                    jobj(&[("k", js("goto")), ("t", self.bb(*real_target))])
                }
                TerminatorKind::Yield { .. } | TerminatorKind::CoroutineDrop | TerminatorKind::InlineAsm { .. } => {
                    jobj(&[("k", js("unsupported")), ("s", js(&format!("{:?}", term.kind)))])
                }
            };
            blocks.push(jobj(&[("c", jb(data.is_cleanup)), ("s", jarr(stmts)), ("t", t)]));
        }
        jobj(&[
            ("argc", body.arg_count.to_string()),
            ("locals", jarr(locals)),
            ("blocks", jarr(blocks)),
            ("closures", jarr(closures.iter().map(|s| js(s)))),
        ])
    }
}


struct RegionCollector<'a, 'tcx> {
    cx: &'a Cx<'tcx>,
    depth: u32,
    names: Vec<String>,
    in_alias: bool,
    alias_names: Vec<String>,
}

impl<'a, 'tcx> ty::TypeVisitor<TyCtxt<'tcx>> for RegionCollector<'a, 'tcx> {
    fn visit_binder<T: ty::TypeVisitable<TyCtxt<'tcx>>>(&mut self, t: &ty::Binder<'tcx, T>) {
        use rustc_middle::ty::TypeSuperVisitable as _;
        self.depth += 1;
        t.super_visit_with(self);
        self.depth -= 1;
    }

    fn visit_ty(&mut self, t: Ty<'tcx>) {
        use rustc_middle::ty::TypeSuperVisitable as _;
        // regions inside the arguments of a projection / opaque alias are inputs of a type function, not content
        if let ty::Alias(..) = t.kind() {
            let was = self.in_alias;
            self.in_alias = true;
            t.super_visit_with(self);
            self.in_alias = was;
            return;
        }
        t.super_visit_with(self)
    }

    fn visit_region(&mut self, r: ty::Region<'tcx>) {
        if let ty::ReBound(idx, _) = r.kind() {
            // only the regions of the binder we are directly under (the fn signature's own late-bound regions)
            let d = match idx {
                ty::BoundVarIndexKind::Bound(d) => d.as_u32(),
                _ => return,
            };
            if d != self.depth {
                return;
            }
        }
        let n = self.cx.region_name(r);
        let v = if self.in_alias { &mut self.alias_names } else { &mut self.names };
        if !v.contains(&n) {
            v.push(n);
        }
    }
}

struct ParamCollector {
    names: Vec<String>,
}

impl<'tcx> ty::TypeVisitor<TyCtxt<'tcx>> for ParamCollector {
    fn visit_ty(&mut self, t: Ty<'tcx>) {
        use rustc_middle::ty::TypeSuperVisitable as _;
        if let ty::Param(p) = t.kind() {
            let n = p.name.to_string();
            if !self.names.contains(&n) {
                self.names.push(n);
            }
        }
        t.super_visit_with(self)
    }
}

impl<'tcx> Cx<'tcx> {
    fn item_json(&self, did: DefId) -> String {
        let tcx = self.tcx;
        let kind = tcx.def_kind(did);
        let mut f = vec![
            ("id", js(&self.id(did))),
            ("path", js(&self.path(did))),
            ("name", js(tcx.opt_item_name(did).map(|s| s.to_string()).unwrap_or_default().as_str())),
            ("kind", js(&format!("{:?}", kind))),
        ];
        f.extend(self.span_json(tcx.def_span(did)));
        if matches!(kind, DefKind::Fn | DefKind::AssocFn) {
            f.push(("vis", js(&format!("{:?}", tcx.visibility(did)))));
            f.push(("pub", jb(tcx.visibility(did).is_public())));
            let sig = tcx.fn_sig(did).instantiate_identity().skip_norm_wip();
            f.push(("unsafe", jb(sig.safety().is_unsafe())));
            f.push(("sig", js(&with_no_trimmed_paths!(format!("{:?}", sig)))));
            let s = sig.skip_binder();
            f.push(("inputs", jarr(s.inputs().iter().map(|t| js(&self.ty(*t))))));
            f.push(("output", js(&self.ty(s.output()))));
            f.push(("output_dbg", js(&with_no_trimmed_paths!(format!("{:?}", s.output())))));
            f.push(("in_regions", jarr(s.inputs().iter().map(|t| self.regions_json(*t)))));
            f.push(("out_regions", self.regions_json(s.output())));
            f.push(("out_alias_regions", self.alias_regions_json(s.output())));
            f.push(("in_params", jarr(s.inputs().iter().map(|t| self.ty_params_json(*t)))));
            f.push(("out_params", self.ty_params_json(s.output())));
            f.push(("pred_regions", self.pred_regions_json(did)));
            f.push(("generics", self.generics_json(did)));
            f.push(("preds", self.preds_json(did)));
            f.push(("constness", js(&format!("{:?}", tcx.constness(did)))));
        }
        if matches!(kind, DefKind::AssocConst { .. } | DefKind::Const { .. } | DefKind::Static { .. }) {
            f.push(("ty", js(&self.ty(tcx.type_of(did).instantiate_identity().skip_norm_wip()))));
        }
        if let Some(parent) = tcx.opt_parent(did) {
            f.push(("parent", js(&self.id(parent))));
            f.push(("parent_kind", js(&format!("{:?}", tcx.def_kind(parent)))));
            if matches!(kind, DefKind::AssocFn | DefKind::AssocConst { .. }) {
                let ai = tcx.associated_item(did);
                if let Some(t) = ai.trait_item_def_id() {
                    f.push(("implements", js(&self.id(t))));
                    f.push(("implements_path", js(&self.path(t))));
                }
            }
        }
        // effective public reachability
        if let Some(l) = did.as_local() {
            f.push(("reachable", jb(tcx.effective_visibilities(()).is_reachable(l))));
        }
        jobj(&f)
    }

    fn impl_json(&self, did: DefId) -> String {
        let tcx = self.tcx;
        let mut f = vec![("id", js(&self.id(did)))];
        f.extend(self.span_json(tcx.def_span(did)));
        let sty = tcx.type_of(did).instantiate_identity().skip_norm_wip();
        f.push(("self_ty", js(&self.ty(sty))));
        f.push(("self_regions", self.regions_json(sty)));
        f.push(("self_params", self.ty_params_json(sty)));
        f.push(("pred_regions", self.pred_regions_json(did)));
        if let ty::Adt(adt, _) = sty.kind() {
            f.push(("self_adt", js(&self.path(adt.did()))));
        }
        if let Some(tr) = tcx.impl_opt_trait_ref(did) {
            let tr = tr.instantiate_identity().skip_norm_wip();
            f.push(("trait", js(&self.path(tr.def_id))));
            f.push(("trait_id", js(&self.id(tr.def_id))));
            f.push(("trait_krate", js(tcx.crate_name(tr.def_id.krate).as_str())));
            f.push(("trait_ref", js(&with_no_trimmed_paths!(format!("{:?}", tr)))));
            f.push(("trait_args", self.gargs_json(tr.args)));
            // regions among the trait's own arguments (Self excluded)
            let mut trs: Vec<String> = Vec::new();
            for a in tr.args.iter().skip(1) {
                if let GenericArgKind::Lifetime(r) = a.kind() {
                    trs.push(self.region_name(r));
                }
            }
            f.push(("trait_regions", jarr(trs.iter().map(|x| js(x)))));
            let h = tcx.impl_trait_header(did);
            f.push(("negative", jb(matches!(h.polarity, ty::ImplPolarity::Negative))));
            f.push(("unsafe", jb(h.safety.is_unsafe())));
        }
        f.push(("generics", self.generics_json(did)));
        f.push(("preds", self.preds_json(did)));
        let mut items = Vec::new();
        for ai in tcx.associated_items(did).in_definition_order() {
            let mut g = vec![
                ("id", js(&self.id(ai.def_id))),
                ("name", js(ai.name().as_str())),
                ("kind", js(&format!("{:?}", ai.tag()))),
            ];
            if let Some(t) = ai.trait_item_def_id() {
                g.push(("implements", js(&self.id(t))));
            }
            items.push(jobj(&g));
        }
        f.push(("items", jarr(items)));
        jobj(&f)
    }

    fn trait_json(&self, did: DefId) -> String {
        let tcx = self.tcx;
        let mut f = vec![("id", js(&self.id(did))), ("path", js(&self.path(did)))];
        f.push(("unsafe", jb(tcx.trait_def(did).safety.is_unsafe())));
        f.push(("generics", self.generics_json(did)));
        f.push(("preds", self.preds_json(did)));
        let mut items = Vec::new();
        for ai in tcx.associated_items(did).in_definition_order() {
            items.push(jobj(&[
                ("id", js(&self.id(ai.def_id))),
                ("name", js(ai.name().as_str())),
                ("kind", js(&format!("{:?}", ai.tag()))),
                ("has_default", jb(ai.defaultness(tcx).has_value())),
            ]));
        }
        f.push(("items", jarr(items)));
        jobj(&f)
    }

    fn adt_json(&self, did: DefId) -> String {
        let tcx = self.tcx;
        let adt = tcx.adt_def(did);
        let mut f = vec![
            ("id", js(&self.id(did))),
            ("path", js(&self.path(did))),
            ("kind", js(&format!("{:?}", adt.adt_kind()))),
            ("repr", js(&format!("{:?}", adt.repr()))),
            ("generics", self.generics_json(did)),
            ("pub", jb(tcx.visibility(did).is_public())),
        ];
        f.extend(self.span_json(tcx.def_span(did)));
        let mut vars = Vec::new();
        for v in adt.variants() {
            let mut fields = Vec::new();
            for fd in &v.fields {
                let fty = tcx.type_of(fd.did).instantiate_identity().skip_norm_wip();
                fields.push(jobj(&[
                    ("name", js(fd.name.as_str())),
                    ("ty", js(&self.ty(fty))),
                    ("adts", jarr(self.adts_in_ty(fty).iter().map(|s| js(s)))),
                    ("pub", jb(fd.vis.is_public())),
                ]));
            }
            vars.push(jobj(&[("name", js(v.name.as_str())), ("fields", jarr(fields))]));
        }
        f.push(("variants", jarr(vars)));
        jobj(&f)
    }

    fn run(&self, out: &str) {
        let tcx = self.tcx;
        let mut items = Vec::new();
        let mut impls = Vec::new();
        let mut traits = Vec::new();
        let mut adts = Vec::new();
        for l in tcx.hir_crate_items(()).definitions() {
            let did = l.to_def_id();
            match tcx.def_kind(did) {
                DefKind::Fn | DefKind::AssocFn | DefKind::Const { .. } | DefKind::AssocConst { .. }
                | DefKind::Static { .. } => items.push(self.item_json(did)),
                DefKind::Impl { .. } => impls.push(self.impl_json(did)),
                DefKind::Trait => traits.push(self.trait_json(did)),
                DefKind::Struct | DefKind::Enum | DefKind::Union => adts.push(self.adt_json(did)),
                _ => {}
            }
        }
        let mut bodies = Vec::new();
        let mut nbodies = 0usize;
        for l in tcx.hir_body_owners() {
            let did = l.to_def_id();
            if matches!(tcx.def_kind(did), DefKind::Closure | DefKind::InlineConst) {
                items.push(self.item_json(did));
            }
            self.cur_owner.set(did);
            let kind = tcx.def_kind(did);
            let body: &Body<'tcx> = match kind {
                DefKind::Fn | DefKind::AssocFn | DefKind::Closure => {
                    // const fns have both; optimized_mir is the runtime body
                    tcx.optimized_mir(did)
                }
                DefKind::Const { .. } | DefKind::AssocConst { .. } | DefKind::Static { .. } | DefKind::InlineConst => {
                    tcx.mir_for_ctfe(did)
                }
                _ => continue, // anon consts
            };
            nbodies += 1;
            let mut o = String::new();
            esc(&self.id(did), &mut o);
            o.push(':');
            o.push_str(&self.body_json(body));
            bodies.push(o);
        }
        let mut s = String::new();
        s.push_str("{\"crate\":");
        s.push_str(&js(tcx.crate_name(LOCAL_CRATE).as_str()));
        let _ = write!(s, ",\"nbodies\":{}", nbodies);
        s.push_str(",\"items\":");
        s.push_str(&jarr(items));
        s.push_str(",\"impls\":");
        s.push_str(&jarr(impls));
        s.push_str(",\"traits\":");
        s.push_str(&jarr(traits));
        s.push_str(",\"adts\":");
        s.push_str(&jarr(adts));
        s.push_str(",\"bodies\":{");
        s.push_str(&bodies.join(","));
        s.push_str("}}");
        std::fs::write(out, s).expect("write facts");
    }
}

struct Cb;

impl Callbacks for Cb {
    fn after_analysis<'tcx>(&mut self, _c: &Compiler, tcx: TyCtxt<'tcx>) -> Compilation {
        let want = std::env::var("BSV_CRATE").unwrap_or_else(|_| "bump_scope".to_string());
        let out = match std::env::var("BSV_OUT") {
            Ok(o) => o,
            Err(_) => return Compilation::Continue,
        };
        if tcx.crate_name(LOCAL_CRATE).as_str() != want {
            return Compilation::Continue;
        }
        if tcx.sess.opts.test {
            return Compilation::Continue;
        }
        let cx = Cx { tcx, cur_owner: std::cell::Cell::new(LOCAL_CRATE.as_def_id()) };
        cx.run(&out);
        Compilation::Continue
    }
}

fn main() {
    let mut args: Vec<String> = std::env::args().collect();
    // RUSTC_WORKSPACE_WRAPPER: argv[1] is the real rustc path
    if args.len() > 1 && (args[1].ends_with("rustc") || args[1].contains("/rustc")) {
        args.remove(1);
    }
    rustc_driver::run_compiler(&args, &mut Cb);
}
