"""Mutants of /repo/src used to test the checker: each is one small edit that compiles; `expect` lists rule ids of
which at least one must fire.  `negative: True` marks behaviour-preserving edits that must stay silent."""
MUTANTS = []


def M(name, props, expect, edits, **kw):
    MUTANTS.append(dict(name=name, props=props, expect=expect, edits=edits, **kw))


# ---------------------------------------------------------------- C02
M("c02_without_shrink_copy_old", ["C02"], ["C02.R1"], [
    ("src/without_dealloc.rs", "ptr.copy_to_nonoverlapping(new_ptr, new_layout.size())",
     "ptr.copy_to_nonoverlapping(new_ptr, old_layout.size())")])
M("c02_grow_down_always_nonoverlapping", ["C02"], ["C02.R2"], [
    ("src/allocator_impl.rs", """                    if new_addr_end < old_addr.get() {
                        old_ptr.copy_to_nonoverlapping(new_ptr, old_layout.size());
                    } else {
                        old_ptr.copy_to(new_ptr, old_layout.size());
                    }""", """                    let _ = new_addr_end;
                    old_ptr.copy_to_nonoverlapping(new_ptr, old_layout.size());""")])
M("c02_grow_copies_new_size", ["C02"], ["C02.R1"], [
    ("src/allocator_impl.rs", """                let new_ptr = bump.alloc::<AllocError>(new_layout)?;
                old_ptr.copy_to_nonoverlapping(new_ptr, old_layout.size());""",
     """                let new_ptr = bump.alloc::<AllocError>(new_layout)?;
                old_ptr.copy_to_nonoverlapping(new_ptr, new_layout.size());""")])
M("c02_grow_zeroed_from_offset_0", ["C02"], ["C02.R3"], [
    ("src/allocator_impl.rs", "new_ptr.cast::<u8>().add(old_layout.size()).write_bytes(0, delta);",
     "new_ptr.cast::<u8>().add(0).write_bytes(0, delta);")])
M("c02_grow_zeroed_zeroes_new_size", ["C02"], ["C02.R3"], [
    ("src/allocator_impl.rs", "let delta = new_layout.size() - old_layout.size();",
     "let delta = new_layout.size() - old_layout.size(); let delta = delta.min(old_layout.size());")])
M("c02_shrink_unfit_nonoverlapping_after_release", ["C02"], ["C02.R2"], [
    ("src/allocator_impl.rs", """                if overlaps {
                    old_ptr.copy_to(new_ptr, new_layout.size());
                } else {
                    old_ptr.copy_to_nonoverlapping(new_ptr, new_layout.size());
                }

                Ok(NonNull::slice_from_raw_parts(new_ptr, new_layout.size()))
            } else {""", """                let _ = overlaps;
                old_ptr.copy_to_nonoverlapping(new_ptr, new_layout.size());

                Ok(NonNull::slice_from_raw_parts(new_ptr, new_layout.size()))
            } else {""")])
M("c02_deallocate_scribbles", ["C02"], ["C02.R4"], [
    ("src/allocator_impl.rs", """        if is_last(bump, ptr, layout) {
            deallocate_assume_last(bump, ptr, layout);""", """        if is_last(bump, ptr, layout) {
            ptr.write_bytes(0xDD, layout.size().min(1));
            deallocate_assume_last(bump, ptr, layout);""")])
M("c02_withoutdealloc_allocate_zeroed_forwards_plain", ["C02"], ["C02.R3"], [
    ("src/without_dealloc.rs", """    fn allocate_zeroed(&self, layout: Layout) -> Result<NonNull<[u8]>, AllocError> {
        self.0.allocate_zeroed(layout)
    }

    #[inline(always)]
    unsafe fn deallocate(&self, ptr: NonNull<u8>, layout: Layout) {
        let _ = (ptr, layout);""", """    fn allocate_zeroed(&self, layout: Layout) -> Result<NonNull<[u8]>, AllocError> {
        self.0.allocate(layout)
    }

    #[inline(always)]
    unsafe fn deallocate(&self, ptr: NonNull<u8>, layout: Layout) {
        let _ = (ptr, layout);""")])
# negative controls (behaviour preserving)
M("neg_c02_rename_local_and_reorder", ["C02"], [], [
    ("src/allocator_impl.rs", """        let delta = new_layout.size() - old_layout.size();
        new_ptr.cast::<u8>().add(old_layout.size()).write_bytes(0, delta);""",
     """        let old_size = old_layout.size();
        let tail_len = new_layout.size() - old_layout.size();
        let tail = new_ptr.cast::<u8>().add(old_size);
        tail.write_bytes(0, tail_len);""")], negative=True)
