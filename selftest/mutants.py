"""Mutants of /repo/src used to test the checker: each is one small edit that compiles; `expect` lists rule ids of
which at least one must fire.  `negative: True` marks behaviour-preserving edits that must stay silent."""
MUTANTS = []


def M(name, props, expect, edits, **kw):
    MUTANTS.append(dict(name=name, props=props, expect=expect, edits=edits, **kw))


# ---------------------------------------------------------------- C02
M("c02_without_shrink_copy_old", ["C02"], ["C02.R1"], [
    ("src/without_dealloc.rs", "            _old_layout: Layout,", "            old_layout: Layout,"),
    ("src/without_dealloc.rs", "ptr.copy_to_nonoverlapping(new_ptr, new_layout.size())",
     "ptr.copy_to_nonoverlapping(new_ptr, old_layout.size())")])
M("c02_grow_down_always_nonoverlapping", ["C02"], ["C02.R2"], [
    ("src/allocator_impl.rs", """                    if new_addr_end < old_addr.get() {
                        old_ptr.copy_to_nonoverlapping(new_ptr, old_layout.size());
                    } else {
                        old_ptr.copy_to(new_ptr, old_layout.size());
                    }""", """                    let _ = new_addr_end;
                    old_ptr.copy_to_nonoverlapping(new_ptr, old_layout.size());""")])
M("c02_grow_copies_new_size", ["C02"], ["C02.R1"], [
    ("src/allocator_impl.rs", """                let new_ptr = bump.alloc::<AllocError>(new_layout)?;
                old_ptr.copy_to_nonoverlapping(new_ptr, old_layout.size());""",
     """                let new_ptr = bump.alloc::<AllocError>(new_layout)?;
                old_ptr.copy_to_nonoverlapping(new_ptr, new_layout.size());""")])
M("c02_grow_zeroed_from_offset_0", ["C02"], ["C02.R3"], [
    ("src/allocator_impl.rs", "new_ptr.cast::<u8>().add(old_layout.size()).write_bytes(0, delta);",
     "new_ptr.cast::<u8>().add(0).write_bytes(0, delta);")])
M("c02_grow_zeroed_zeroes_new_size", ["C02"], ["C02.R3"], [
    ("src/allocator_impl.rs", "let delta = new_layout.size() - old_layout.size();",
     "let delta = new_layout.size() - old_layout.size(); let delta = delta.min(old_layout.size());")])
M("c02_shrink_unfit_nonoverlapping_after_release", ["C02"], ["C02.R2"], [
    ("src/allocator_impl.rs", """                if overlaps {
                    old_ptr.copy_to(new_ptr, new_layout.size());
                } else {
                    old_ptr.copy_to_nonoverlapping(new_ptr, new_layout.size());
                }

                Ok(NonNull::slice_from_raw_parts(new_ptr, new_layout.size()))
            } else {""", """                let _ = overlaps;
                old_ptr.copy_to_nonoverlapping(new_ptr, new_layout.size());

                Ok(NonNull::slice_from_raw_parts(new_ptr, new_layout.size()))
            } else {""")])
M("c02_deallocate_scribbles", ["C02"], ["C02.R4"], [
    ("src/allocator_impl.rs", """        if is_last(bump, ptr, layout) {
            deallocate_assume_last(bump, ptr, layout);""", """        if is_last(bump, ptr, layout) {
            ptr.write_bytes(0xDD, layout.size().min(1));
            deallocate_assume_last(bump, ptr, layout);""")])
M("c02_withoutdealloc_allocate_zeroed_forwards_plain", ["C02"], ["C02.R3"], [
    ("src/without_dealloc.rs", """    fn allocate_zeroed(&self, layout: Layout) -> Result<NonNull<[u8]>, AllocError> {
        self.0.allocate_zeroed(layout)
    }

    #[inline(always)]
    unsafe fn deallocate(&self, ptr: NonNull<u8>, layout: Layout) {
        let _ = (ptr, layout);""", """    fn allocate_zeroed(&self, layout: Layout) -> Result<NonNull<[u8]>, AllocError> {
        self.0.allocate(layout)
    }

    #[inline(always)]
    unsafe fn deallocate(&self, ptr: NonNull<u8>, layout: Layout) {
        let _ = (ptr, layout);""")])
# negative controls (behaviour preserving)
M("neg_c02_rename_local_and_reorder", ["C02"], [], [
    ("src/allocator_impl.rs", """        let delta = new_layout.size() - old_layout.size();
        new_ptr.cast::<u8>().add(old_layout.size()).write_bytes(0, delta);""",
     """        let old_size = old_layout.size();
        let tail_len = new_layout.size() - old_layout.size();
        let tail = new_ptr.cast::<u8>().add(old_size);
        tail.write_bytes(0, tail_len);""")], negative=True)

# ---------------------------------------------------------------- C01
M("c01_grow_up_drop_is_last", ["C01"], ["C01.R3"], [
    ("src/allocator_impl.rs", "if is_last(bump, old_ptr, old_layout) & align_fits(old_ptr, old_layout, new_layout) {",
     "if align_fits(old_ptr, old_layout, new_layout) {")])
M("c01_grow_up_drop_align_fits", ["C01"], ["C01.R3"], [
    ("src/allocator_impl.rs", "if is_last(bump, old_ptr, old_layout) & align_fits(old_ptr, old_layout, new_layout) {",
     "if is_last(bump, old_ptr, old_layout) {")])
M("c01_walk_without_reset", ["C01"], ["C01.R4"], [
    ("src/raw_bump.rs", """                    // We don't reset the chunk position when we leave a scope, so we need to do it here.
                    chunk.reset();
""", "")])
M("c01_prepare_moves_position", ["C01"], ["C01.R2"], [
    ("src/raw_bump.rs", """        // SAFETY: allocations never succeed for a dummy chunk
        unsafe {
            let chunk = self.as_non_dummy_unchecked();
            Some(chunk.content_ptr_from_addr(ptr))
        }
    }

    /// Returns the rest of the capacity of the chunk.""", """        // SAFETY: allocations never succeed for a dummy chunk
        unsafe {
            let chunk = self.as_non_dummy_unchecked();
            chunk.set_pos_addr(ptr);
            Some(chunk.content_ptr_from_addr(ptr))
        }
    }

    /// Returns the rest of the capacity of the chunk.""")])
M("c01_alloc_down_forgets_position", ["C01"], ["C01.R2"], [
    ("src/raw_bump.rs", """            unsafe {
                let chunk = self.as_non_dummy_unchecked();
                chunk.set_pos_addr(ptr);
                Some(chunk.content_ptr_from_addr(ptr))
            }
        }
    }

    /// Prepares allocation""", """            unsafe {
                let chunk = self.as_non_dummy_unchecked();
                if props_is_zero_sized { chunk.set_pos_addr(ptr); }
                Some(chunk.content_ptr_from_addr(ptr))
            }
        }
    }

    /// Prepares allocation"""),
    ("src/raw_bump.rs", """        let props = self.bump_props(layout);

        if S::UP {
            let BumpUp { new_pos, ptr } = bump_up(props)?;""", """        let props = self.bump_props(layout);
        let props_is_zero_sized = props.layout.size() == 0;

        if S::UP {
            let BumpUp { new_pos, ptr } = bump_up(props)?;""")])
M("c01_deallocate_without_is_last", ["C01"], ["C01.R3"], [
    ("src/allocator_impl.rs", """        if is_last(bump, ptr, layout) {
            deallocate_assume_last(bump, ptr, layout);
        }""", """        if layout.size() != 0 {
            deallocate_assume_last(bump, ptr, layout);
        }""")])
M("c01_shrink_slice_is_last_against_stale", ["C01"], ["C01.R3"], [
    ("src/traits/bump_allocator_typed.rs", """            // if that's not the last allocation, there is nothing we can do
            if !is_last {
                return None;
            }""", """            // if that's not the last allocation, there is nothing we can do
            if !is_last && new_len != 0 {
                return None;
            }""")])
M("c01_new_raw_position_writer", ["C01"], ["C01.R1"], [
    ("src/raw_bump.rs", """    #[inline(always)]
    pub(crate) fn reclaim(&self, claimant: &RawBump<A, S>) {
        self.chunk.set(claimant.chunk.get());
    }""", """    #[inline(always)]
    pub(crate) fn reclaim(&self, claimant: &RawBump<A, S>) {
        self.chunk.set(claimant.chunk.get());
        if let Some(chunk) = self.chunk.get().as_non_dummy() {
            unsafe { chunk.header.as_ref().pos.set(chunk.pos()) };
        }
    }""")])
M("c01_append_before_walk_exhausted", ["C01"], ["C01.R4"], [
    ("src/raw_bump.rs", """                while let Some(next_chunk) = chunk.next() {
                    chunk = next_chunk;

                    // We don't reset""", """                while let Some(next_chunk) = chunk.next() {
                    if layout.size() > next_chunk.capacity() { break; }
                    chunk = next_chunk;

                    // We don't reset""")])
M("c01_walk_never_commits", ["C01"], ["C01.R4"], [
    ("src/raw_bump.rs", """                        self.chunk.set(chunk.raw);
                        return Ok(ptr);""", """                        return Ok(ptr);""")])
M("c01_walk_commits_only_on_miss", ["C01"], ["C01.R4"], [
    ("src/raw_bump.rs", """                        self.chunk.set(chunk.raw);
                        return Ok(ptr);
                    }""", """                        return Ok(ptr);
                    }
                    self.chunk.set(chunk.raw);""")])

# ---------------------------------------------------------------- C13
M("c13_remove_deallocates_gates", ["C13"], ["C13.R1"], [
    ("src/allocator_impl.rs", """    if !S::DEALLOCATES {
        return;
    }

    unsafe {
        // free allocated space""", """    unsafe {
        // free allocated space"""),
    ("src/allocator_impl.rs", """    if !S::DEALLOCATES {
        return;
    }

    unsafe {
        let chunk = bump.chunk.get().as_non_dummy_unchecked();""", """    unsafe {
        let chunk = bump.chunk.get().as_non_dummy_unchecked();""")])
M("neg_c13_helper_gate_removed_callers_gate", ["C13", "C01"], [], [
    ("src/allocator_impl.rs", """    if !S::DEALLOCATES {
        return;
    }

    unsafe {
        let chunk = bump.chunk.get().as_non_dummy_unchecked();""", """    unsafe {
        let chunk = bump.chunk.get().as_non_dummy_unchecked();""")], negative=True)
M("c13_shrink_ignores_shrinks_setting", ["C13"], ["C13.R1"], [
    ("src/allocator_impl.rs", "if !S::SHRINKS || !is_last(bump, old_ptr, old_layout) {", "if !is_last(bump, old_ptr, old_layout) {")])
M("c13_shrink_slice_ignores_setting", ["C13"], ["C13.R1"], [
    ("src/traits/bump_allocator_typed.rs", """        if !S::SHRINKS {
            return None;
        }

        let old_ptr = ptr.cast::<u8>();""", """        let old_ptr = ptr.cast::<u8>();""")])
M("c13_without_dealloc_forwards", ["C13"], ["C13.R2"], [
    ("src/without_dealloc.rs", """    unsafe fn deallocate(&self, ptr: NonNull<u8>, layout: Layout) {
        let _ = (ptr, layout);""", """    unsafe fn deallocate(&self, ptr: NonNull<u8>, layout: Layout) {
        unsafe { self.0.deallocate(ptr, layout) };""")])
M("c13_without_shrink_calls_inner_shrink", ["C13"], ["C13.R2"], [
    ("src/without_dealloc.rs", """            if non_null::is_aligned_to(ptr, new_layout.align()) {
                Ok(NonNull::slice_from_raw_parts(ptr, new_layout.size()))""", """            if non_null::is_aligned_to(ptr, new_layout.align()) {
                self.0.shrink(ptr, old_layout, new_layout)""")])
M("c13_without_shrink_slice_forwards", ["C13"], ["C13.R2"], [
    ("src/traits/bump_allocator_typed.rs", """        // it's called `WithoutShrink` for a reason...
        _ = (ptr, old_len, new_len);
        None""", """        unsafe { B::shrink_slice(&self.0, ptr, old_len, new_len) }""")])
M("c13_dealloc_down_writes_start", ["C13"], ["C13.R3"], [
    ("src/allocator_impl.rs", """            let mut addr = ptr.addr().get();
            addr += layout.size();
            chunk.set_pos_addr_and_align(addr);""", """            let addr = ptr.addr().get();
            chunk.set_pos_addr_and_align(addr);""")])
M("c13_grow_up_returns_moved_ptr_pos_old_size", ["C13"], ["C13.R3"], [
    ("src/allocator_impl.rs", "let new_pos = up_align_usize_unchecked(old_addr.get() + new_layout.size(), S::MIN_ALIGN);",
     "let new_pos = up_align_usize_unchecked(old_addr.get() + old_layout.size(), S::MIN_ALIGN);")])
M("c13_new_backward_mover", ["C13"], ["C13.R4"], [
    ("src/raw_bump.rs", """    #[inline(always)]
    pub(crate) fn checkpoint(&self) -> Checkpoint {
        Checkpoint::new(self.chunk.get())
    }""", """    #[inline(always)]
    pub(crate) fn checkpoint(&self) -> Checkpoint {
        if let Some(chunk) = self.chunk.get().as_non_dummy() {
            if chunk.allocated() < S::MIN_ALIGN { unsafe { chunk.set_pos(chunk.content_start()) } }
        }
        Checkpoint::new(self.chunk.get())
    }""")])

# ---------------------------------------------------------------- C10
M("c10_after_header_erased_add1", ["C10"], ["C10.R3", "C10.R3b"], [
    ("src/stats/any.rs", "unsafe { self.header.cast::<u8>().add(self.header_size) }", "unsafe { self.header.add(1).cast() }")])
M("c10_header_size_of_erased", ["C10"], ["C10.R3"], [
    ("src/stats/any.rs", "header_size: size_of::<ChunkHeader<A>>(),", "header_size: size_of::<ChunkHeader>(),")])
M("c10_shrink_up_without_align", ["C10"], ["C10.R1"], [
    ("src/allocator_impl.rs", """            let new_pos = up_align_usize_unchecked(end, S::MIN_ALIGN);

            // `is_last` returned true, which guarantees a non-dummy
            bump.chunk.get().as_non_dummy_unchecked().set_pos_addr(new_pos);""", """            let new_pos = end;

            // `is_last` returned true, which guarantees a non-dummy
            bump.chunk.get().as_non_dummy_unchecked().set_pos_addr(new_pos);""")])
M("c10_stats_remaining_sums_prev", ["C10"], ["C10.R2"], [
    ("src/stats.rs", """        let mut sum = current.remaining();
        current.iter_next().for_each(|chunk| sum += chunk.capacity());""", """        let mut sum = current.remaining();
        current.iter_prev().for_each(|chunk| sum += chunk.capacity());""")])
M("c10_anystats_allocated_sums_allocated", ["C10"], ["C10.R2"], [
    ("src/stats/any.rs", """        let mut sum = current.allocated();
        current.iter_prev().for_each(|chunk| sum += chunk.capacity());""", """        let mut sum = current.allocated();
        current.iter_prev().for_each(|chunk| sum += chunk.allocated());""")])
M("c10_anychunk_remaining_down_wrong_end", ["C10"], ["C10.R3", "C10.R2"], [
    ("src/stats/any.rs", """        } else {
            let start = self.content_start();
            let end = self.bump_position();
            end.addr().get() - start.addr().get()
        }""", """        } else {
            let start = self.chunk_start();
            let end = self.content_end();
            end.addr().get() - start.addr().get()
        }""")])
M("c10_down_align_wrong_mask", ["C10"], ["C10.R1c"], [
    ("src/lib.rs", """    let mask = align - 1;
    addr & !mask
}""", """    let mask = align - 1;
    addr & mask
}""")])
M("c10_align_from_wrong_comparison", ["C10"], ["C10.R1"], [
    ("src/raw_bump.rs", "if pos_align < S::MIN_ALIGN {", "if pos_align > S::MIN_ALIGN {")])
M("c10_append_for_prev_none", ["C10"], ["C10.R4"], [
    ("src/raw_bump.rs", "let new_chunk = Self::new::<B>(size, Some(self), allocator)?;", "let new_chunk = Self::new::<B>(size, None, allocator)?;")])
M("c10_new_uses_unaligned_granted_size", ["C10"], ["C10.R5"], [
    ("src/raw_bump.rs", "let size = ChunkSize::<A, S>::align_allocation_size(size);", "let size = size & !15;")])
M("c10_align_to_wrong_gate", ["C10"], ["C10.R1"], [
    ("src/raw_bump.rs", "if MinimumAlignment::VALUE > S::MIN_ALIGN {", "if MinimumAlignment::VALUE != 0 {")])

# ---------------------------------------------------------------- C03
M("c03_scoped_aligned_align_before_guard", ["C03"], ["C03.R2"], [
    ("src/traits/bump_allocator.rs", """        let mut guard = self.scope_guard();
        let scope = guard.scope();
        scope.raw.align::<NEW_MIN_ALIGN>();""", """        self.as_mut_scope().raw.align::<NEW_MIN_ALIGN>();
        let mut guard = self.scope_guard();
        let scope = guard.scope();""")])
M("c03_scoped_forgets_guard_on_unwind", ["C03"], ["C03.R2"], [
    ("src/traits/bump_allocator.rs", """        let mut guard = self.scope_guard();
        f(guard.scope())
    }""", """        let mut guard = core::mem::ManuallyDrop::new(self.scope_guard());
        let r = f(guard.scope());
        unsafe { core::mem::ManuallyDrop::drop(&mut guard) };
        r
    }""")])
M("c03_try_with_mut_err_no_rewind", ["C03"], ["C03.R6"], [
    ("src/bump_scope.rs", """                    let error = error.read();
                    self.reset_to(checkpoint);
                    error""", """                    let error = error.read();
                    let _ = checkpoint;
                    error""")])
M("c03_try_with_checkpoint_after_alloc", ["C03"], ["C03.R6"], [
    ("src/bump_scope.rs", """        let checkpoint_before_alloc = self.checkpoint();
        let uninit = self.generic_alloc_uninit::<B, Result<T, E>>()?;""", """        let uninit = self.generic_alloc_uninit::<B, Result<T, E>>()?;
        let checkpoint_before_alloc = self.checkpoint();""")])
M("c03_reset_to_pos_only", ["C03"], ["C03.R3"], [
    ("src/raw_bump.rs", """            checkpoint.reset_within_chunk();

            let chunk = RawChunk {
                header: checkpoint.chunk.cast(),
                marker: PhantomData,
            };

            self.chunk.set(chunk);
""", """            checkpoint.reset_within_chunk();

            let chunk = RawChunk {
                header: checkpoint.chunk.cast(),
                marker: PhantomData,
            };

            if checkpoint.address.get() % 2 == 1 {
                self.chunk.set(chunk);
            }
""")])
M("c03_guard_drop_does_nothing_when_no_alloc", ["C03"], ["C03.R2"], [
    ("src/bump_scope_guard.rs", """    fn drop(&mut self) {
        self.reset();
    }""", """    fn drop(&mut self) {
        let _ = &self.checkpoint;
    }""")])
M("c03_reset_to_start_resets_current_only", ["C03"], ["C03.R3"], [
    ("src/raw_bump.rs", """            while let Some(prev) = chunk.prev() {
                chunk = prev;
            }

            chunk.reset();""", """            if let Some(prev) = chunk.prev() {
                chunk = prev;
            }

            chunk.reset();""")])
M("c03_guard_reset_frees_later_chunks", ["C03"], ["C03.R4"], [
    ("src/bump_scope_guard.rs", """        unsafe { self.bump.reset_to(self.checkpoint) }""", """        unsafe { self.bump.reset_to(self.checkpoint) }
        if self.bump.stats().count() > 8 { self.bump.reset(); }""")])
M("c03_checkpoint_stores_end_not_pos", ["C03"], ["C03.R1"], [
    ("src/bump_scope_guard.rs", "let address = chunk.pos().addr();", "let address = unsafe { chunk.header.as_ref().end.addr() };")])

# ---------------------------------------------------------------- C05
M("c05_manually_drop_skips_next_walk", ["C05"], ["C05.R2"], [
    ("src/raw_bump.rs", """                chunk.for_each_prev(|chunk| chunk.deallocate());
                chunk.for_each_next(|chunk| chunk.deallocate());
                chunk.deallocate();""", """                chunk.for_each_prev(|chunk| chunk.deallocate());
                chunk.deallocate();""")])
M("c05_release_layout_erased_align", ["C05"], ["C05.R4"], [
    ("src/raw_bump.rs", "unsafe { Layout::from_size_align_unchecked(self.size().get(), align_of::<ChunkHeader<A>>()) }",
     "unsafe { Layout::from_size_align_unchecked(self.size().get(), align_of::<ChunkHeader>()) }")])
M("c05_reset_frees_survivor", ["C05"], ["C05.R3"], [
    ("src/raw_bump.rs", """            while let Some(next) = chunk.next() {
                chunk.deallocate();
                chunk = next;
            }

            chunk.header.as_ref().prev.set(None);""", """            while let Some(next) = chunk.next() {
                chunk = next;
                chunk.deallocate();
            }

            chunk.header.as_ref().prev.set(None);""")])
M("c05_reset_keeps_prev_link", ["C05"], ["C05.R3"], [
    ("src/raw_bump.rs", """            chunk.header.as_ref().prev.set(None);
        }

        chunk.reset();""", """        }

        chunk.reset();""")])
M("c05_for_each_prev_reads_after_callback", ["C05"], ["C05.R2"], [
    ("src/raw_bump.rs", """        while let Some(chunk) = iter {
            iter = chunk.prev();
            f(chunk);
        }""", """        while let Some(chunk) = iter {
            f(chunk);
            iter = chunk.prev();
        }""")])
M("c05_into_raw_drops", ["C05"], ["C05.R2"], [
    ("src/bump.rs", "ManuallyDrop::new(self).raw.clone().into_raw()", "{ let p = self.raw.clone().into_raw(); drop(ManuallyDrop::new(0u8)); p }")])
M("c05_raw_bump_grows_chunk_via_base_allocator", ["C05"], ["C05.R1"], [
    ("src/raw_bump.rs", """    #[inline(always)]
    pub(crate) fn reclaim(&self, claimant: &RawBump<A, S>) {
        self.chunk.set(claimant.chunk.get());
    }""", """    #[inline(always)]
    pub(crate) fn reclaim(&self, claimant: &RawBump<A, S>) {
        self.chunk.set(claimant.chunk.get());
        if let Some(chunk) = self.chunk.get().as_non_dummy() {
            if chunk.capacity() == usize::MAX {
                let _ = unsafe { chunk.allocator().shrink(chunk.chunk_start(), chunk.layout(), chunk.layout()) };
            }
        }
    }""")])
M("c05_deallocate_reads_header_after_free", ["C05"], ["C05.R4"], [
    ("src/raw_bump.rs", """        let ptr = self.chunk_start();
        let layout = self.layout();

        unsafe {
            allocator.deallocate(ptr, layout);
        }""", """        let ptr = self.chunk_start();

        unsafe {
            allocator.deallocate(ptr, self.layout());
            let _ = self.chunk_end();
        }""")])

# ---------------------------------------------------------------- C19
M("c19_get_always_creates", ["C19"], ["C19.R3", "C19.R2"], [
    ("src/bump_pool.rs", """        let bump = match self.lock().pop() {
            Some(bump) => bump,
            None => Bump::new_in(self.allocator.clone()),
        };""", """        let bump = Bump::new_in(self.allocator.clone());
        if let Some(old) = self.lock().pop() { self.lock().push(old); }""")])
M("c19_guard_drop_take_without_push", ["C19"], ["C19.R2"], [
    ("src/bump_pool.rs", """        let bump = unsafe { ManuallyDrop::take(&mut self.bump) };
        self.pool.lock().push(bump);""", """        let bump = unsafe { ManuallyDrop::take(&mut self.bump) };
        if bump.stats().count() < 64 { self.pool.lock().push(bump); }""")])
M("c19_try_get_peeks_instead_of_pop", ["C19"], ["C19.R2", "C19.R3"], [
    ("src/bump_pool.rs", """        let bump = match self.lock().pop() {
            Some(bump) => bump,
            None => Bump::try_new_in(self.allocator.clone())?,
        };

        Ok(BumpPoolGuard {""", """        let bump = match self.lock().last() {
            Some(bump) => unsafe { core::ptr::read(bump) },
            None => Bump::try_new_in(self.allocator.clone())?,
        };

        Ok(BumpPoolGuard {""")])
M("c19_pool_reset_calls_reset_to_start", ["C19"], ["C19.R5"], [
    ("src/bump_pool.rs", """        for bump in self.bumps() {
            bump.reset();
        }""", """        for bump in self.bumps() {
            bump.reset_to_start();
        }""")])
M("c19_bumps_accessor_shared", ["C19"], ["C19.R1"], [
    ("src/bump_pool.rs", """    fn lock(&self) -> MutexGuard<'_, Vec<Bump<A, S>>> {
        self.bumps.lock().unwrap_or_else(PoisonError::into_inner)
    }""", """    fn lock(&self) -> MutexGuard<'_, Vec<Bump<A, S>>> {
        self.bumps.lock().unwrap_or_else(PoisonError::into_inner)
    }

    #[allow(dead_code, invalid_reference_casting)]
    pub(crate) fn peek_len(&self) -> usize {
        unsafe { (*(&raw const self.bumps).cast_mut()).get_mut().map(|v| v.len()).unwrap_or(0) }
    }""")])

# ---------------------------------------------------------------- C14
M("c14_reserve_claimed_creates_chunk", ["C14"], ["C14.R2"], [
    ("src/raw_bump.rs", """            ChunkClass::Claimed => Err(E::claimed()),
            ChunkClass::Unallocated => {
                let Ok(layout) = Layout::from_size_align(additional, 1) else {""", """            ChunkClass::Claimed | ChunkClass::Unallocated => {
                let Ok(layout) = Layout::from_size_align(additional, 1) else {""")])
M("c14_claim_without_already_claimed_check", ["C14"], ["C14.R1"], [
    ("src/raw_bump.rs", """        if self.chunk.get().is_claimed() {
            already_claimed();
        }
""", """        if self.chunk.get().is_claimed() && false {
            already_claimed();
        }
""")])
M("c14_reclaim_restores_saved_chunk", ["C14"], ["C14.R1"], [
    ("src/bump_claim_guard.rs", "self.original.raw.reclaim(&self.claimant.raw);", "self.original.raw.reclaim(&self.original.raw);")])
M("c14_dummy_capacity_minus_8", ["C14"], ["C14.R3"], [
    ("src/chunk/header.rs", "pos: Cell::new(unsafe { UP_CHUNK_PTR.cast().byte_add(16) }),", "pos: Cell::new(unsafe { UP_CHUNK_PTR.cast().byte_add(8) }),")])
M("c14_dummy_down_swapped", ["C14"], ["C14.R3"], [
    ("src/chunk/header.rs", """                pos: Cell::new(DOWN_CHUNK_PTR.cast()),
                // SAFETY: Due to `align(16)`, `ChunkHeader`'s size is `>= 16`, so a `byte_add` of 16 is in bounds.
                // We could also use `.add(1)` here, but we currently guarantee a capacity of -16
                end: unsafe { DOWN_CHUNK_PTR.cast().byte_add(16) },""", """                pos: Cell::new(unsafe { DOWN_CHUNK_PTR.cast().byte_add(16) }),
                end: DOWN_CHUNK_PTR.cast(),""")])
M("c14_make_allocated_claimed_ok", ["C14"], ["C14.R2"], [
    ("src/raw_bump.rs", """        match self.chunk.get().classify() {
            ChunkClass::Claimed => Err(E::claimed()),
            ChunkClass::Unallocated => {
                // When this bump allocator is unallocated, `A` is guaranteed to implement `Default`,
                // `default_or_panic` will not panic.
                let new_chunk = NonDummyChunk::new(ChunkSize::MINIMUM, None, A::default_or_panic())?;""", """        match self.chunk.get().classify() {
            ChunkClass::Claimed => Ok(()),
            ChunkClass::Unallocated => {
                // When this bump allocator is unallocated, `A` is guaranteed to implement `Default`,
                // `default_or_panic` will not panic.
                let new_chunk = NonDummyChunk::new(ChunkSize::MINIMUM, None, A::default_or_panic())?;""")])
M("c14_claimed_direction_swapped", ["C14"], ["C14.R3"], [
    ("src/chunk/header.rs", "if S::UP { UP_CHUNK_PTR } else { DOWN_CHUNK_PTR }", "if S::UP { DOWN_CHUNK_PTR } else { UP_CHUNK_PTR }")])

# ---------------------------------------------------------------- C15
M("c15_mut_vec_allocates_eagerly", ["C15"], ["C15.R1"], [
    ("src/mut_bump_vec.rs", "fixed: unsafe { RawFixedBumpVec::prepare_allocation(&mut allocator, capacity)? },",
     "fixed: unsafe { RawFixedBumpVec::allocate(&allocator, capacity)? },")])
M("c15_prepare_range_moves_position", ["C15", "C01"], ["C15.R2", "C01.R2"], [
    ("src/raw_bump.rs", """        // SAFETY: allocations never succeed for a dummy chunk
        unsafe {
            let chunk = self.as_non_dummy_unchecked();
            Some(chunk.content_ptr_from_addr_range(range))
        }""", """        // SAFETY: allocations never succeed for a dummy chunk
        unsafe {
            let chunk = self.as_non_dummy_unchecked();
            chunk.set_pos_addr_and_align(if S::UP { range.start } else { range.end });
            Some(chunk.content_ptr_from_addr_range(range))
        }""")])
M("c15_commit_down_no_move", ["C15", "C01"], ["C15.R4", "C01.R5"], [
    ("src/traits/bump_allocator_typed.rs", """                let dst_end = start.add(cap);
                let dst = dst_end.sub(len);
                start.copy_to(dst, len);""", """                let dst_end = start.add(len);
                let dst = dst_end.sub(len);
                start.copy_to(dst, len);""")])
M("c15_commit_rev_up_copies_cap", ["C15"], ["C15.R4"], [
    ("src/traits/bump_allocator_typed.rs", """                let src = end.sub(len);

                src.copy_to(dst, len);""", """                let src = end.sub(len);

                src.copy_to(dst, cap);""")])
M("c15_commit_up_pos_is_cap", ["C15"], ["C15.R4"], [
    ("src/traits/bump_allocator_typed.rs", """            let end = start.add(len);

            if S::UP {
                chunk.set_pos_addr_and_align_from(end.addr().get(), T::ALIGN);""", """            let end = start.add(cap);

            if S::UP {
                chunk.set_pos_addr_and_align_from(end.addr().get(), T::ALIGN);""")])
M("c15_grow_rev_copies_to_new_end_minus_cap", ["C15"], ["C15.R4"], [
    ("src/mut_bump_vec_rev.rs", "let dst = end.as_ptr().sub(self.len);", "let dst = end.as_ptr().sub(cap);")])

# ---------------------------------------------------------------- C07
M("c07_try_reserve_via_infallible", ["C07"], ["C07.R2"], [
    ("src/bump_vec.rs", """    pub fn try_reserve(&mut self, additional: usize) -> Result<(), AllocError> {
        self.generic_reserve(additional)
    }""", """    pub fn try_reserve(&mut self, additional: usize) -> Result<(), AllocError> {
        crate::panic_on_error(self.generic_reserve(additional));
        Ok(())
    }""")])
M("c07_insert_reserve_after_shift", ["C07"], ["C07.R4"], [
    ("src/bump_vec.rs", """        self.generic_reserve_one()?;

        unsafe {
            let pos = self.as_mut_ptr().add(index);

            if index != self.len() {
                let len = self.len() - index;
                ptr::copy(pos, pos.add(1), len);
            }

            pos.write(element);""", """        unsafe {
            if index != self.len() && self.len() < self.capacity() {
                let pos = self.as_mut_ptr().add(index);
                let len = self.len() - index;
                ptr::copy(pos, pos.add(1), len);
                self.generic_reserve_one()?;
            } else {
                self.generic_reserve_one()?;
                let pos = self.as_mut_ptr().add(index);
                if index != self.len() {
                    let len = self.len() - index;
                    ptr::copy(pos, pos.add(1), len);
                }
            }
            let pos = self.as_mut_ptr().add(index);

            pos.write(element);""")])
M("c07_alloc_slice_unwraps_layout", ["C07"], ["C07.R5"], [
    ("src/raw_bump.rs", """    pub(crate) fn alloc_slice<E: ErrorBehavior, T>(&self, len: usize) -> Result<NonNull<T>, E> {
        let Ok(layout) = ArrayLayout::array::<T>(len) else {
            return Err(E::capacity_overflow());
        };""", """    pub(crate) fn alloc_slice<E: ErrorBehavior, T>(&self, len: usize) -> Result<NonNull<T>, E> {
        let layout = ArrayLayout::array::<T>(len).unwrap();""")])
M("c12_grow_size_wraps", ["C12"], ["C12.R1"], [
    ("src/raw_bump.rs", """        let Some(size) = self.size().get().checked_mul(2) else {
            return Err(B::capacity_overflow());
        };""", """        let size = self.size().get().wrapping_mul(2);""")], tier="quick")
M("c07_infallible_capacity_overflow_returns", ["C07"], ["C07.R1", "C07.R2"], [
    ("src/error_behavior.rs", """    #[inline(always)]
    fn claimed() -> Self {
        panic::claimed()
    }

    #[inline(always)]
    fn fixed_size_vector_is_full() -> Self {
        panic::fixed_size_vector_is_full()""", """    #[inline(always)]
    fn claimed() -> Self {
        #[allow(unreachable_code)]
        loop { if core::hint::black_box(true) { panic::claimed() } }
    }

    #[inline(always)]
    fn fixed_size_vector_is_full() -> Self {
        panic::fixed_size_vector_is_full()""")], negative=True)
M("c07_allocator_impl_grow_aborts_on_failure", ["C07"], ["C07.R2"], [
    ("src/allocator_impl.rs", """                // We can't grow in place. We have to make a new allocation.
                let new_ptr = bump.alloc::<AllocError>(new_layout)?;
                old_ptr.copy_to_nonoverlapping(new_ptr, old_layout.size());
                Ok(NonNull::slice_from_raw_parts(new_ptr, new_layout.size()))
            }
        } else {""", """                // We can't grow in place. We have to make a new allocation.
                let new_ptr = crate::panic_on_error(bump.alloc::<crate::Infallible>(new_layout));
                old_ptr.copy_to_nonoverlapping(new_ptr, old_layout.size());
                Ok(NonNull::slice_from_raw_parts(new_ptr, new_layout.size()))
            }
        } else {""")])
M("c07_try_alloc_str_routes_panicking", ["C07"], ["C07.R2"], [
    ("src/traits/bump_allocator_typed_scope.rs", """    fn try_alloc_str(&self, src: &str) -> Result<BumpBox<'a, str>, AllocError> {""",
     """    fn try_alloc_str(&self, src: &str) -> Result<BumpBox<'a, str>, AllocError> {
        if src.len() > 4096 { return Ok(self.alloc_str(src)); }""")])
M("c07_mut_vec_extend_copy_writes_then_reserves", ["C07"], ["C07.R4"], [
    ("src/mut_bump_vec.rs", """            let len = other.len();
            self.generic_reserve(len)?;

            let src = other.cast::<T>();
            let dst = self.as_mut_ptr().add(self.len());
            ptr::copy_nonoverlapping(src, dst, len);
""", """            let len = other.len();
            let src = other.cast::<T>();
            if len <= self.capacity() - self.len() {
                let dst = self.as_mut_ptr().add(self.len());
                ptr::copy_nonoverlapping(src, dst, len);
            }
            self.generic_reserve(len)?;
            let dst = self.as_mut_ptr().add(self.len());
            ptr::copy_nonoverlapping(src, dst, len);
""")])

# ---------------------------------------------------------------- C17
M("c17_forward_try_alloc_iter_exact_to_try_alloc_iter", ["C17"], ["C17.R1"], [
    ("src/traits/macros.rs", "BumpAllocatorTypedScope::try_alloc_iter_exact($access, iter)", "BumpAllocatorTypedScope::try_alloc_iter($access, iter)")])
M("c17_array_layout_from_layout_unchecked", ["C17"], ["C17.R4"], [
    ("src/layout.rs", """        if layout.size() % layout.align() == 0 {
            Ok(ArrayLayout(layout))
        } else {
            Err(ArrayLayoutError)
        }""", """        if layout.align() != 0 {
            Ok(ArrayLayout(layout))
        } else {
            Err(ArrayLayoutError)
        }""")])
M("c17_custom_layout_claims_const_align", ["C17"], ["C17.R4"], [
    ("src/layout.rs", """impl LayoutProps for CustomLayout {
    const ALIGN_IS_CONST: bool = false;""", """impl LayoutProps for CustomLayout {
    const ALIGN_IS_CONST: bool = true;""")])
M("c17_ref_impl_allocate_zeroed_slip", ["C17", "C02"], ["C17.R2", "C02.R3"], [
    ("src/without_dealloc.rs", """    fn allocate_zeroed(&self, layout: Layout) -> Result<NonNull<[u8]>, AllocError> {
        self.0.allocate_zeroed(layout)
    }

    #[inline(always)]
    unsafe fn deallocate(&self, ptr: NonNull<u8>, layout: Layout) {
        unsafe { self.0.deallocate(ptr, layout) };""", """    fn allocate_zeroed(&self, layout: Layout) -> Result<NonNull<[u8]>, AllocError> {
        self.0.allocate(layout)
    }

    #[inline(always)]
    unsafe fn deallocate(&self, ptr: NonNull<u8>, layout: Layout) {
        unsafe { self.0.deallocate(ptr, layout) };""")])
M("c17_grow_args_swapped_in_wrapper", ["C17"], ["C17.R2"], [
    ("src/without_dealloc.rs", """    unsafe fn grow(&self, ptr: NonNull<u8>, old_layout: Layout, new_layout: Layout) -> Result<NonNull<[u8]>, AllocError> {
        unsafe { self.0.grow(ptr, old_layout, new_layout) }
    }

    #[inline(always)]
    unsafe fn grow_zeroed(
        &self,
        ptr: NonNull<u8>,
        old_layout: Layout,
        new_layout: Layout,
    ) -> Result<NonNull<[u8]>, AllocError> {
        unsafe { self.0.grow_zeroed(ptr, old_layout, new_layout) }
    }

    #[inline(always)]
    unsafe fn shrink(&self, ptr: NonNull<u8>, old_layout: Layout, new_layout: Layout) -> Result<NonNull<[u8]>, AllocError> {
        unsafe { self.0.shrink(ptr, old_layout, new_layout) }""", """    unsafe fn grow(&self, ptr: NonNull<u8>, old_layout: Layout, new_layout: Layout) -> Result<NonNull<[u8]>, AllocError> {
        unsafe { self.0.grow(ptr, new_layout, old_layout) }
    }

    #[inline(always)]
    unsafe fn grow_zeroed(
        &self,
        ptr: NonNull<u8>,
        old_layout: Layout,
        new_layout: Layout,
    ) -> Result<NonNull<[u8]>, AllocError> {
        unsafe { self.0.grow_zeroed(ptr, old_layout, new_layout) }
    }

    #[inline(always)]
    unsafe fn shrink(&self, ptr: NonNull<u8>, old_layout: Layout, new_layout: Layout) -> Result<NonNull<[u8]>, AllocError> {
        unsafe { self.0.shrink(ptr, old_layout, new_layout) }""")])
M("c17_try_twin_diverges", ["C17"], ["C17.R3"], [
    ("src/bump_vec.rs", """    pub fn try_reserve_exact(&mut self, additional: usize) -> Result<(), AllocError> {
        self.generic_reserve_exact(additional)
    }""", """    pub fn try_reserve_exact(&mut self, additional: usize) -> Result<(), AllocError> {
        self.generic_reserve(additional)
    }""")])
M("c17_alloc_sized_slow_path_other_type", ["C17"], ["C17.R4"], [
    ("src/raw_bump.rs", "None => match self.alloc_sized_in_another_chunk::<E, T>() {", "None => match self.alloc_sized_in_another_chunk::<E, [T; 1]>() {")])
M("c17_trait_object_uses_grow", ["C17"], ["C17.R5"], [
    ("src/traits/bump_allocator_typed.rs", """        match bump.allocate(Layout::new::<T>()) {
            Ok(ptr) => Ok(ptr.cast()),""", """        match bump.allocate_zeroed(Layout::new::<T>()) {
            Ok(ptr) => Ok(ptr.cast()),""")])

# ---------------------------------------------------------------- C18
M("c18_aligned_lower_without_guard", ["C18"], ["C18.R2"], [
    ("src/traits/bump_allocator_scope.rs", """            let guard = BumpAlignGuard::new(self);

            // SAFETY: bump is already aligned to `NEW_MIN_ALIGN` and the guard will ensure
            // that the bump pointer will again be aligned to `MIN_ALIGN` once it drops
            let bump = unsafe { transmute_mut(guard.scope) };

            f(bump)""", """            let r = f(unsafe { transmute_mut(&mut *self) });
            drop(BumpAlignGuard::new(self));
            r""")])
M("c18_aligned_raise_transmute_before_align", ["C18"], ["C18.R1"], [
    ("src/traits/bump_allocator_scope.rs", """            self.align::<NEW_MIN_ALIGN>();

            // SAFETY: we aligned the bump pointer
            let bump = unsafe { transmute_mut(self) };

            f(bump)""", """            // SAFETY: we aligned the bump pointer
            let bump: &mut BumpScope<'a, A, <S as BumpAllocatorSettings>::WithMinimumAlignment<NEW_MIN_ALIGN>> = unsafe { transmute_mut(self) };
            if bump.stats().allocated() != 0 { bump.raw.align::<NEW_MIN_ALIGN>(); }

            f(bump)""")])
M("c18_scope_settings_drop_min_align_assert", ["C18"], ["C18.R4"], [
    ("src/raw_bump.rs", """            assert!(
                NewS::MIN_ALIGN >= S::MIN_ALIGN,
                "can't decrease minimum alignment using `BumpScope::with_settings`"
            );
        }

        if !NewS::CLAIMABLE && self.chunk.get().is_claimed() {
            error_behavior::panic::claimed();
        }

        // A scope by value""", """        }

        if !NewS::CLAIMABLE && self.chunk.get().is_claimed() {
            error_behavior::panic::claimed();
        }

        // A scope by value""")])
M("c18_ensure_unallocated_check_dropped", ["C18"], ["C18.R4"], [
    ("src/raw_bump.rs", """        if NewS::GUARANTEED_ALLOCATED && self.chunk.get().is_unallocated() {
            error_behavior::panic::unallocated();
        }""", """        if NewS::GUARANTEED_ALLOCATED && self.chunk.get().is_unallocated() && S::CLAIMABLE {
            error_behavior::panic::unallocated();
        }""")])
M("c18_borrow_mut_conversion_does_not_align", ["C18"], ["C18.R4", "C18.R1"], [
    ("src/raw_bump.rs", """                "can't change guaranteed-allocated property using `Bump(Scope)::borrow_mut_with_settings`"
            );
        }

        self.align_to::<NewS::MinimumAlignment>();""", """                "can't change guaranteed-allocated property using `Bump(Scope)::borrow_mut_with_settings`"
            );
        }

        if NewS::UP { self.align_to::<NewS::MinimumAlignment>(); }""")])
M("c18_align_guard_aligns_to_inner", ["C18"], ["C18.R2"], [
    ("src/bump_align_guard.rs", "let addr = align_pos(S::UP, S::MIN_ALIGN, pos);", "let addr = align_pos(S::UP, 1, pos);")])

# ---------------------------------------------------------------- C12
M("c12_hint_unchecked_slack", ["C12"], ["C12.R1", "C12.R4"], [
    ("src/chunk/size_config.rs", "size = attempt!(size.checked_add(MIN_CHUNK_ALIGN));", "size = size + MIN_CHUNK_ALIGN;")])
M("c12_hint_without_slack", ["C12"], ["C12.R4"], [
    ("src/chunk/size_config.rs", "size = attempt!(size.checked_add(MIN_CHUNK_ALIGN));", "size = attempt!(size.checked_add(0));")])
M("c12_append_for_no_doubling", ["C12"], ["C12.R3"], [
    ("src/raw_bump.rs", "let size = required_size.max(grown_size).calc_size().ok_or_else(B::capacity_overflow)?;",
     "let _ = grown_size; let size = required_size.calc_size().ok_or_else(B::capacity_overflow)?;")])
M("c12_hint_forgets_padding", ["C12"], ["C12.R4"], [
    ("src/chunk/size_config.rs", "let required_size = attempt!(layout.size().checked_add(maximum_required_padding));",
     "let _ = maximum_required_padding; let required_size = attempt!(layout.size().checked_add(0));")])
M("c12_down_hint_header_before_bytes_missing", ["C12"], ["C12.R4"], [
    ("src/chunk/size_config.rs", """            size = attempt!(offset_add_layout(size, assumed_malloc_overhead_layout));
            size = attempt!(size.checked_add(bytes));
            size = attempt!(offset_add_layout(size, chunk_header_layout));""", """            size = attempt!(offset_add_layout(size, assumed_malloc_overhead_layout));
            size = attempt!(size.checked_add(bytes));
            size = attempt!(size.checked_add(chunk_header_layout.size()));""")])
M("c12_size_not_realigned_after_overhead", ["C12"], ["C12.R4"], [
    ("src/chunk/size_config.rs", """            let size_without_overhead = size - assumed_malloc_overhead_layout.size();
            size = self.align_size(size_without_overhead);""", """            let size_without_overhead = size - assumed_malloc_overhead_layout.size();
            size = size_without_overhead;""")])
M("c12_reserve_swallows_overflow", ["C12", "C07"], ["C12.R2", "C07.R5"], [
    ("src/raw_bump.rs", """                let new_chunk = NonDummyChunk::<A, S>::new(
                    ChunkSize::<A, S>::from_capacity(layout).ok_or_else(E::capacity_overflow)?,""", """                let new_chunk = NonDummyChunk::<A, S>::new(
                    ChunkSize::<A, S>::from_capacity(layout).unwrap_or(ChunkSize::MINIMUM),""")])

# ---------------------------------------------------------------- C16
M("c16_fixed_split_off_rhs_cap_is_len", ["C16"], ["C16.R1"], [
    ("src/fixed_bump_vec.rs", """                let lhs_cap = start;
                let rhs_cap = self.capacity - lhs_cap;

                self.set_ptr(lhs);""", """                let lhs_cap = start;
                let rhs_cap = rhs_len;

                self.set_ptr(lhs);""")])
M("c16_merge_without_contiguity_check", ["C16"], ["C16.R1"], [
    ("src/bump_box.rs", """            if self.as_ptr_range().end != other.as_ptr() {
                assert_failed();
            }""", """            if self.as_ptr_range().end != other.as_ptr() && self.len() == usize::MAX {
                assert_failed();
            }""")])
M("c16_split_off_rotate_arm_wrong_len", ["C16"], ["C16.R1"], [
    ("src/bump_box.rs", """                let lhs = NonNull::slice_from_raw_parts(ptr, range_len);
                let rhs = NonNull::slice_from_raw_parts(ptr.add(range_len), remaining_len);

                self.ptr = rhs;""", """                let lhs = NonNull::slice_from_raw_parts(ptr, range_len);
                let rhs = NonNull::slice_from_raw_parts(ptr.add(range_len), tail_len);

                self.ptr = rhs;""")])
M("c16_split_last_overlaps", ["C16"], ["C16.R1"], [
    ("src/bump_box.rs", """                BumpBox::from_raw(ptr.add(len_minus_one)),
                BumpBox::from_raw(NonNull::slice_from_raw_parts(ptr, len_minus_one)),""", """                BumpBox::from_raw(ptr.add(len_minus_one)),
                BumpBox::from_raw(NonNull::slice_from_raw_parts(ptr, this.len())),""")])
M("c16_split_at_spare_len_is_cap", ["C16"], ["C16.R1"], [
    ("src/fixed_bump_vec.rs", "let uninitialized_len = self.capacity - self.len();", "let uninitialized_len = self.capacity;")])
M("c16_str_split_off_skips_end_boundary", ["C16", "C09"], ["C16.R2", "C09.R1"], [
    ("src/bump_box.rs", """        self.assert_char_boundary(start);
        self.assert_char_boundary(end);""", """        self.assert_char_boundary(start);""")])
M("c16_split_at_wrong_bound", ["C16"], ["C16.R2"], [
    ("src/bump_box.rs", """        if at > self.len() {
            assert_failed(at, self.len());
        }

        // SAFETY: `[ptr; mid]`""", """        if at > self.len() + 1 {
            assert_failed(at, self.len());
        }

        // SAFETY: `[ptr; mid]`""")])

# ---------------------------------------------------------------- C06
M("c06_clear_drops_before_set_len", ["C06"], ["C06.R1"], [
    ("src/bump_box.rs", """            self.set_len(0);
            elems.drop_in_place();""", """            elems.drop_in_place();
            self.set_len(0);""")])
M("c06_rev_truncate_drops_before_len", ["C06"], ["C06.R1"], [
    ("src/mut_bump_vec_rev.rs", """            self.len = len;
            slice.drop_in_place();""", """            slice.drop_in_place();
            self.len = len;""")])
M("c06_append_takes_before_reserve", ["C06"], ["C06.R3"], [
    ("src/bump_vec.rs", """            let slice = NonNull::from(owned_slice.owned_slice_ref());
            self.generic_reserve(slice.len())?;

            let src = slice.cast::<T>().as_ptr();
            let dst = self.as_mut_ptr().add(self.len());
            ptr::copy_nonoverlapping(src, dst, slice.len());

            owned_slice.take_owned_slice();""", """            let slice = NonNull::from(owned_slice.owned_slice_ref());
            owned_slice.take_owned_slice();
            self.generic_reserve(slice.len())?;

            let src = slice.cast::<T>().as_ptr();
            let dst = self.as_mut_ptr().add(self.len());
            ptr::copy_nonoverlapping(src, dst, slice.len());
""")])
M("c06_append_forgets_take", ["C06"], ["C06.R3"], [
    ("src/fixed_bump_vec.rs", """            owned_slice.take_owned_slice();""", """            if slice.len() > 1 { owned_slice.take_owned_slice(); }""")])
M("c06_retain_guard_after_first_drop", ["C06"], ["C06.R2"], [
    ("src/bump_box.rs", """        let mut g = PanicGuard {
            v: self,
            read: read + 1,
            write: read,
            original_len,
        };
        // SAFETY: previous `read` is always less than original_len.
        unsafe { ptr::drop_in_place(&mut *g.v.as_mut_ptr().add(read)) };""", """        // SAFETY: previous `read` is always less than original_len.
        unsafe { ptr::drop_in_place(&mut *self.as_mut_ptr().add(read)) };
        let mut g = PanicGuard {
            v: self,
            read: read + 1,
            write: read,
            original_len,
        };""")])
M("c06_extract_if_index_before_predicate", ["C06"], ["C06.R2b"], [
    ("src/owned_slice/extract_if.rs", """                let drained = (self.filter)(value_ptr.as_mut());

                // Update the index *after* the predicate is called. If the index
                // is updated prior and the predicate panics, the element at this
                // index would be leaked.
                self.index += 1;""", """                self.index += 1;
                let drained = (self.filter)(value_ptr.as_mut());""")])
M("c06_extend_with_without_set_len_guard", ["C06"], ["C06.R2"], [
    ("src/fixed_bump_vec.rs", """            let mut local_len = self.initialized.set_len_on_drop();

            // Write all elements except the last one
            for _ in 1..n {
                pointer::write_with(ptr, || value.clone());
                ptr = ptr.add(1);

                // Increment the length in every step in case clone() panics
                local_len.increment_len(1);
            }

            if n > 0 {
                // We can write the last element directly without cloning needlessly
                ptr.write(value);
                local_len.increment_len(1);
            }""", """            let mut written = 0;
            // Write all elements except the last one
            for _ in 1..n {
                pointer::write_with(ptr, || value.clone());
                ptr = ptr.add(1);
                written += 1;
            }

            if n > 0 {
                // We can write the last element directly without cloning needlessly
                ptr.write(value);
                written += 1;
            }
            let new_len = self.len() + written;
            self.set_len(new_len);""")])
M("c06_bump_box_drop_forgets_pointee", ["C06"], ["C06.R4"], [
    ("src/bump_box.rs", """impl<T: ?Sized> Drop for BumpBox<'_, T> {
    #[inline(always)]
    fn drop(&mut self) {
        unsafe { self.ptr.drop_in_place() }""", """impl<T: ?Sized> Drop for BumpBox<'_, T> {
    #[inline(always)]
    fn drop(&mut self) {
        let _ = &self.ptr;
        if false { unsafe { self.ptr.drop_in_place() } }""")])

# ---------------------------------------------------------------- C08
M("c08_bump_vec_swap_remove_delegates_to_remove", ["C08"], ["C08.R1"], [
    ("src/bump_vec.rs", """    pub fn swap_remove(&mut self, index: usize) -> T {
        unsafe { self.fixed.cook_mut() }.swap_remove(index)""", """    pub fn swap_remove(&mut self, index: usize) -> T {
        unsafe { self.fixed.cook_mut() }.remove(index)""")])
M("c08_rev_remove_shift_off_by_one", ["C08"], ["C08.R3"], [
    ("src/mut_bump_vec_rev.rs", """            if index != 0 {
                start.copy_to(start.add(1), index);
            }""", """            if index != 0 {
                start.copy_to(start.add(1), index - 1);
            }""")])
M("c08_remove_bounds_gt", ["C08"], ["C08.R2"], [
    ("src/bump_box.rs", """        if index >= self.len() {
            assert_failed(index, self.len());
        }

        unsafe {
            let start = self.as_mut_ptr();
            let value_ptr = start.add(index);

            // copy it out, unsafely having a copy of the value on""", """        if index > self.len() {
            assert_failed(index, self.len());
        }

        unsafe {
            let start = self.as_mut_ptr();
            let value_ptr = start.add(index);

            // copy it out, unsafely having a copy of the value on""")])
M("c08_swap_remove_copy_before_dec", ["C08"], ["C08.R3"], [
    ("src/bump_box.rs", """            let value = value_ptr.read();
            self.dec_len(1);

            start.add(self.len()).copy_to(value_ptr, 1);
            value""", """            let value = value_ptr.read();
            start.add(self.len()).copy_to(value_ptr, 1);
            self.dec_len(1);
            value""")])
M("c08_insert_shifts_one_too_few", ["C08"], ["C08.R3"], [
    ("src/bump_vec.rs", """            if index != self.len() {
                let len = self.len() - index;
                ptr::copy(pos, pos.add(1), len);
            }

            pos.write(element);
            self.inc_len(1);
            Ok(&mut *pos)""", """            if index != self.len() {
                let len = self.len() - index - 1;
                ptr::copy(pos, pos.add(1), len);
            }

            pos.write(element);
            self.inc_len(1);
            Ok(&mut *pos)""")])
M("c08_reserve_grows_when_equal", ["C08"], ["C08.R4"], [
    ("src/bump_vec.rs", """    pub(crate) fn generic_reserve<E: ErrorBehavior>(&mut self, additional: usize) -> Result<(), E> {
        if additional > (self.capacity() - self.len()) {""", """    pub(crate) fn generic_reserve<E: ErrorBehavior>(&mut self, additional: usize) -> Result<(), E> {
        if additional >= (self.capacity() - self.len()) {""")])
M("c08_rev_insert_writes_wrong_slot", ["C08"], ["C08.R3"], [
    ("src/mut_bump_vec_rev.rs", """                ptr::copy(start, start_sub, index);
                self.len += 1;
                start_sub.add(index)""", """                ptr::copy(start, start_sub, index);
                self.len += 1;
                start.add(index)""")])
M("c08_exact_growth_doubles", ["C08"], ["C08.R4"], [
    ("src/mut_bump_vec.rs", """        let Some(required_cap) = self.len().checked_add(additional) else {
            return Err(E::capacity_overflow())?;
        };

        unsafe { self.generic_grow_to(required_cap) }""", """        let Some(required_cap) = self.len().checked_add(additional) else {
            return Err(E::capacity_overflow())?;
        };

        unsafe { self.generic_grow_to(required_cap.max(self.capacity() * 2)) }""")])

# ---------------------------------------------------------------- C09
M("c09_insert_str_without_boundary_check", ["C09"], ["C09.R1"], [
    ("src/bump_string.rs", """    pub(crate) fn generic_insert_str<E: ErrorBehavior>(&mut self, idx: usize, string: &str) -> Result<(), E> {
        self.assert_char_boundary(idx);""", """    pub(crate) fn generic_insert_str<E: ErrorBehavior>(&mut self, idx: usize, string: &str) -> Result<(), E> {
        assert!(idx <= self.len());""")])
M("c09_replace_range_checks_start_only", ["C09"], ["C09.R1"], [
    ("src/mut_bump_string.rs", """        self.assert_char_boundary(start);
        self.assert_char_boundary(end);

        let range_len = end - start;""", """        self.assert_char_boundary(start);

        let range_len = end - start;""")])
M("c09_from_utf8_skips_validation_for_ascii_len", ["C09"], ["C09.R2"], [
    ("src/bump_string.rs", """        match str::from_utf8(vec.as_slice()) {
            // SAFETY: `BumpVec<u8>` and `BumpString` have the same representation;
            // only the invariant that the bytes are utf8 is different.
            Ok(_) => Ok(unsafe { transmute_value(vec) }),""", """        if vec.len() < 2 { return Ok(unsafe { transmute_value(vec) }); }
        match str::from_utf8(vec.as_slice()) {
            // SAFETY: `BumpVec<u8>` and `BumpString` have the same representation;
            // only the invariant that the bytes are utf8 is different.
            Ok(_) => Ok(unsafe { transmute_value(vec) }),""")])
M("c09_truncate_without_boundary", ["C09"], ["C09.R1"], [
    ("src/bump_box.rs", """        if new_len <= self.len() {
            self.assert_char_boundary(new_len);
            unsafe { self.as_mut_bytes().truncate(new_len) }""", """        if new_len <= self.len() {
            unsafe { self.as_mut_bytes().truncate(new_len) }""")])
M("c09_into_cstr_truncates_before_nul", ["C09"], ["C09.R4"], [
    ("src/bump_string.rs", "Some(nul) => unsafe { self.fixed.cook_mut().as_mut_vec().truncate(nul + 1) },",
     "Some(nul) => unsafe { self.fixed.cook_mut().as_mut_vec().truncate(nul) },")])
M("c09_cstr_from_str_writes_nul_one_early", ["C09"], ["C09.R4"], [
    ("src/traits/bump_allocator_typed_scope.rs", """                core::ptr::copy_nonoverlapping(src.as_ptr(), dst.as_ptr(), src.len());
                dst.as_ptr().add(src.len()).write(0);

                let bytes = core::slice::from_raw_parts(dst.as_ptr(), src.len() + 1);
                CStr::from_bytes_with_nul_unchecked(bytes)""", """                core::ptr::copy_nonoverlapping(src.as_ptr(), dst.as_ptr(), src.len());
                dst.as_ptr().add(src.len().saturating_sub(1)).write(0);

                let bytes = core::slice::from_raw_parts(dst.as_ptr(), src.len() + 1);
                CStr::from_bytes_with_nul_unchecked(bytes)""")])
M("c09_new_unvalidated_constructor", ["C09"], ["C09.R2"], [
    ("src/bump_box.rs", """    pub const EMPTY_STR: Self = unsafe { BumpBox::from_utf8_unchecked(BumpBox::<[u8]>::EMPTY) };""",
     """    pub const EMPTY_STR: Self = unsafe { BumpBox::from_utf8_unchecked(BumpBox::<[u8]>::EMPTY) };

    /// Lossless "fast" conversion for short inputs.
    pub fn from_short_bytes(bytes: BumpBox<'a, [u8]>) -> Self {
        unsafe { BumpBox::from_utf8_unchecked(bytes) }
    }""")])
M("c09_retain_without_guard", ["C09", "C06"], ["C09.R3", "C06.R2"], [
    ("src/bump_box.rs", """        let len = self.len();
        let mut guard = SetLenOnDrop {
            s: self,
            idx: 0,
            del_bytes: 0,
        };""", """        let len = self.len();
        let mut guard = core::mem::ManuallyDrop::new(SetLenOnDrop {
            s: self,
            idx: 0,
            del_bytes: 0,
        });"""),
    ("src/bump_box.rs", """            // Point idx to the next char
            guard.idx += ch_len;
        }

        drop(guard);""", """            // Point idx to the next char
            guard.idx += ch_len;
        }

        drop(core::mem::ManuallyDrop::into_inner(guard));""")])

# ---------------------------------------------------------------- C04
M("c04_guard_scope_returns_long_lifetime", ["C04"], ["C04.W"], [
    ("src/bump_scope_guard.rs", """    pub fn scope(&mut self) -> &mut BumpScope<'_, A, S> {""", """    pub fn scope(&mut self) -> &mut BumpScope<'a, A, S> {""")])
M("c04_bump_stats_static", ["C04"], ["C04.W"], [
    ("src/bump.rs", """    pub fn stats(&self) -> Stats<'_, A, S> {
        self.as_scope().stats()""", """    pub fn stats(&self) -> Stats<'static, A, S> {
        unsafe { core::mem::transmute(self.as_scope().stats()) }""")])
M("c04_bump_send_without_bound", ["C04"], ["C04.W", "C04.R1"], [
    ("src/bump.rs", """unsafe impl<A, S> Send for Bump<A, S>
where
    A: Send + Allocator,""", """unsafe impl<A, S> Send for Bump<A, S>
where
    A: Allocator,""")])
M("c04_scoped_passes_long_scope", ["C04"], ["C04.W"], [
    ("src/traits/bump_allocator.rs", """    fn scoped<R>(&mut self, f: impl FnOnce(&mut BumpScope<'_, Self::Allocator, Self::Settings>) -> R) -> R {
        let mut guard = self.scope_guard();
        f(guard.scope())
    }""", """    fn scoped<R>(&mut self, f: impl FnOnce(&mut BumpScope<'static, Self::Allocator, Self::Settings>) -> R) -> R {
        let mut guard = self.scope_guard();
        f(unsafe { core::mem::transmute(guard.scope()) })
    }""")])
M("c04_borrow_with_settings_drops_min_align_assert", ["C04", "C18"], ["C04.W", "C18.R4"], [
    ("src/raw_bump.rs", """            assert!(
                NewS::MIN_ALIGN == S::MIN_ALIGN,
                "can't change minimum alignment using `Bump(Scope)::borrow_with_settings`"
            );
""", "")])
M("c04_pool_reset_takes_shared_ref", ["C04"], ["C04.W"], [
    ("src/bump_pool.rs", """    pub fn reset(&mut self) {
        for bump in self.bumps() {
            bump.reset();
        }
    }""", """    pub fn reset(&self) {
        for bump in self.lock().iter_mut() {
            bump.reset();
        }
    }""")])
M("c04_reset_to_start_takes_shared_ref", ["C04"], ["C04.W"], [
    ("src/bump.rs", """    pub fn reset_to_start(&mut self) {
        self.raw.reset_to_start();""", """    pub fn reset_to_start(&self) {
        self.raw.reset_to_start();""")])

# ---------------------------------------------------------------- C01.R6 / R7 (bump primitives)
M("c01_bump_up_no_final_min_align", ["C01"], ["C01.R6"], [
    ("src/bumping.rs", """        // can't exceed `range.end` and thus also can't overflow.
        new_pos = up_align_unchecked(new_pos, min_align);""", """        // can't exceed `range.end` and thus also can't overflow.
        new_pos = up_align_unchecked(new_pos, 1);""")])
M("c01_bump_down_generic_arm_no_fit_test", ["C01"], ["C01.R7"], [
    ("src/bumping.rs", """        end = end.saturating_sub(layout.size());
        end = down_align(end, layout.align().max(min_align));

        // Note that `end` being `0` is an invalid value for `end` and we MUST return None.
        // Due to `start` being `NonNull`, it can't be `0`.
        // Thus when `end` is `0` this will always return None.
        if unlikely(end < start) {
            return None;
        }""", """        end = end.saturating_sub(layout.size());
        end = down_align(end, layout.align().max(min_align));

        if unlikely(end == 0) {
            return None;
        }""")])
M("c01_bump_up_weak_elision_predicate", ["C01"], ["C01.R6"], [
    ("src/bumping.rs", """    if (align_is_const && size_is_multiple_of_align && layout.align() >= min_align)
        || (size_is_const && (layout.size() % min_align == 0))""", """    if (align_is_const && size_is_multiple_of_align)
        || (size_is_const && (layout.size() % min_align == 0))""")])
M("c01_bump_down_elides_layout_align_wrongly", ["C01"], ["C01.R6"], [
    ("src/bumping.rs", "let can_elide_aligning_for_layout = size_is_multiple_of_align && align_is_const && layout.align() <= min_align;",
     "let can_elide_aligning_for_layout = size_is_multiple_of_align && align_is_const;")])
M("c01_bump_up_fast_path_align_with_min_align", ["C01"], ["C01.R6"], [
    ("src/bumping.rs", """            start = up_align_unchecked(start, layout.align());
        }

        if size_is_const && layout.size() < MIN_CHUNK_ALIGN {""", """            start = up_align_unchecked(start, min_align);
        }

        if size_is_const && layout.size() < MIN_CHUNK_ALIGN {""")])
M("c01_prepare_down_no_remaining_check", ["C01"], ["C01.R7"], [
    ("src/bumping.rs", """    // DUMMY_CHUNK: `end - start` will always return `-16`
    let remaining = end.wrapping_sub(start) as isize;

    if unlikely(layout.size() as isize > remaining) {
        return None;
    }""", """    // DUMMY_CHUNK: `end - start` will always return `-16`
    let remaining = end.wrapping_sub(start) as isize;

    if unlikely(remaining < 0) {
        return None;
    }""")])
M("c01_prepare_up_end_not_aligned", ["C01"], ["C01.R6"], [
    ("src/bumping.rs", """    let end = down_align(end, layout.align());

    let remaining = end.wrapping_sub(start) as isize;

    if unlikely(layout.size() as isize > remaining) {
        return None;
    }

    debug_assert_aligned!(start, layout.align());
    debug_assert_aligned!(end, layout.align());""", """    let remaining = end.wrapping_sub(start) as isize;

    if unlikely(layout.size() as isize > remaining) {
        return None;
    }

    debug_assert_aligned!(start, layout.align());""")])
M("c02_extend_zeroed_rev_zeroes_wrong_end", ["C02"], ["C02.R3"], [
    ("src/features/bytemuck_or_zerocopy.rs", """                        let new_len = self.len() + additional;
                        self.end.sub(new_len).write_bytes(0, additional);""", """                        let new_len = self.len() + additional;
                        self.end.sub(additional).write_bytes(0, additional);""")], tier="thorough")
M("c02_extend_zeroed_sets_len_before_zeroing", ["C02"], ["C02.R3"], [
    ("src/features/bytemuck_or_zerocopy.rs", """                        ptr.add(len).write_bytes(0, additional);
                        self.set_len(len + additional);
                    }

                    Ok(())
                }

                #[inline]
                fn generic_resize_zeroed<E: ErrorBehavior>(&mut self, new_len: usize) -> Result<(), E> {
                    let len = self.len();

                    if new_len > len {
                        self.generic_extend_zeroed(new_len - len)
                    } else {
                        self.truncate(new_len);
                        Ok(())
                    }
                }
            }

            impl<T: $trait, A: BumpAllocatorTyped> PrivateVecExt for BumpVec<T, A> {""", """                        self.set_len(len + additional);
                        ptr.add(len + 1).write_bytes(0, additional - 1);
                    }

                    Ok(())
                }

                #[inline]
                fn generic_resize_zeroed<E: ErrorBehavior>(&mut self, new_len: usize) -> Result<(), E> {
                    let len = self.len();

                    if new_len > len {
                        self.generic_extend_zeroed(new_len - len)
                    } else {
                        self.truncate(new_len);
                        Ok(())
                    }
                }
            }

            impl<T: $trait, A: BumpAllocatorTyped> PrivateVecExt for BumpVec<T, A> {""")], tier="thorough")

M("c06_zst_drain_double_drop_revert", ["C06"], ["C06.R5"], [
    ("src/owned_slice/drain.rs", """                let drop_len = iter.len();
                mem::forget(iter);
""", """                let drop_len = iter.len();
""")])

M("c07_in_another_chunk_commit_revert", ["C07"], ["C07.R6"], [
    ("src/raw_bump.rs", """                    if let Some(ptr) = f(chunk.raw, layout) {
                        // Only switch chunks once the request is satisfied: if appending a new
                        // chunk fails below, the current chunk must still be the one we started in.
                        self.chunk.set(chunk.raw);
                        return Ok(ptr);""", """                    self.chunk.set(chunk.raw);
                    if let Some(ptr) = f(chunk.raw, layout) {
                        return Ok(ptr);""")])

M("c14_claimed_reported_as_alloc_failure_vec", ["C14"], ["C14.R5"], [
    ("src/bump_vec.rs", """                    return Err(if self.allocator.is_claimed() {
                        E::claimed()
                    } else {
                        E::allocation(new_layout)
                    });""", """                    return Err(E::allocation(new_layout));""")])
M("c14_claimed_reported_as_alloc_failure_dyn", ["C14"], ["C14.R5"], [
    ("src/traits/bump_allocator_typed.rs", """        let Ok(range) = bump.prepare_allocation_rev(layout) else {
            return Err(request_failed(&bump, layout));""", """        let Ok(range) = bump.prepare_allocation_rev(layout) else {
            return Err(E::allocation(layout));""")])

M("c04_anychunk_from_detached_lifetime_revert", ["C04"], ["C04.R3", "C04.W", "C04.R4"], [
    ("src/stats/any.rs", """impl<'a, A, S> From<Chunk<'a, A, S>> for AnyChunk<'a>""", """impl<A, S> From<Chunk<'_, A, S>> for AnyChunk<'_>"""),
    ("src/stats/any.rs", """    fn from(value: Chunk<'a, A, S>) -> Self {""", """    fn from(value: Chunk<'_, A, S>) -> Self {""")])

M("c08_rev_insert_ptr_cached_across_reserve", ["C08"], ["C08.R5"], [
    ("src/mut_bump_vec_rev.rs", """        self.generic_reserve_one()?;

        unsafe {
            let ptr = if index == 0 {
                self.len += 1;
                self.as_mut_ptr()
            } else {
                let start = self.as_mut_ptr();""", """        let start = self.as_mut_ptr();
        self.generic_reserve_one()?;

        unsafe {
            let ptr = if index == 0 {
                self.len += 1;
                self.as_mut_ptr()
            } else {""")])
M("c09_insert_str_ptr_cached_across_reserve", ["C09"], ["C09.R5"], [
    ("src/bump_string.rs", """        let additional_len = given_len.saturating_sub(range_len);
        self.generic_reserve(additional_len)?;""", """        let additional_len = given_len.saturating_sub(range_len);
        let stale = self.as_mut_ptr();
        self.generic_reserve(additional_len)?;
        unsafe { stale.write(0) };""")])

M("c14_as_non_dummy_guaranteed_shortcut", ["C14"], ["C14.R6"], [
    ("src/raw_bump.rs", """    pub(crate) fn as_non_dummy(self) -> Option<NonDummyChunk<A, S>> {
""", """    pub(crate) fn as_non_dummy(self) -> Option<NonDummyChunk<A, S>> {
        if S::GUARANTEED_ALLOCATED {
            return Some(NonDummyChunk { raw: self });
        }
""")])
M("neg_c14_as_non_dummy_guaranteed_and_unclaimed", ["C14"], [], [
    ("src/raw_bump.rs", """    pub(crate) fn as_non_dummy(self) -> Option<NonDummyChunk<A, S>> {
""", """    pub(crate) fn as_non_dummy(self) -> Option<NonDummyChunk<A, S>> {
        if S::GUARANTEED_ALLOCATED && !self.is_claimed() {
            return Some(NonDummyChunk { raw: self });
        }
""")], negative=True)
M("c14_reclaim_only_non_dummy", ["C14"], ["C14.R1"], [
    ("src/raw_bump.rs", """        self.chunk.set(claimant.chunk.get());
    }""", """        if let Some(chunk) = claimant.chunk.get().as_non_dummy() {
            self.chunk.set(chunk.raw);
        }
    }""")])

# ---------------------------------------------------------------- rules added in the second session (section 8b)
M("c01_is_last_down_masks_ptr", ["C01"], ["C01.R3"], [
    ("src/allocator_impl.rs", """        ptr == bump.chunk.get().pos()
    }
}""", """        crate::down_align_usize(ptr.addr().get(), S::MIN_ALIGN) == bump.chunk.get().pos().addr().get()
    }
}""")])
M("c13_grow_room_measured_from_pos", ["C13"], ["C13.R3"], [
    ("src/allocator_impl.rs", """                let remaining = chunk_end.addr().get() - old_ptr.addr().get();

                if new_layout.size() <= remaining {""", """                let remaining = chunk_end.addr().get() - chunk.pos().addr().get();

                if new_layout.size() <= remaining {""")])
M("neg_c13_grow_room_other_algebra", ["C13"], [], [
    ("src/allocator_impl.rs", """                let remaining = chunk_end.addr().get() - old_ptr.addr().get();

                if new_layout.size() <= remaining {""", """                if old_ptr.addr().get() + new_layout.size() <= chunk_end.addr().get() {""")], negative=True)
M("c05_size_step_header_align_only_when_up", ["C05", "C12"], ["C05.R6", "C12.R4"], [
    ("src/chunk/size_config.rs", """        let size_step = max(ASSUMED_PAGE_SIZE, chunk_header_layout.align());""",
     """        let size_step = if self.up { max(ASSUMED_PAGE_SIZE, chunk_header_layout.align()) } else { ASSUMED_PAGE_SIZE };""")])
M("c07_mut_string_write_str_panics", ["C07"], ["C07.R2"], [
    ("src/mut_bump_string.rs", """    fn write_str(&mut self, s: &str) -> fmt::Result {
        self.try_push_str(s).map_err(|_| fmt::Error)
    }""", """    fn write_str(&mut self, s: &str) -> fmt::Result {
        self.push_str(s);
        Ok(())
    }""")])
M("c07_bump_down_wrapping_sub", ["C07"], ["C07.R7"], [
    ("src/lib.rs", """    let subtracted = addr.get().saturating_sub(size);""", """    let subtracted = addr.get().wrapping_sub(size);""")])
M("c18_align_guard_remembers_position_owner", ["C18"], ["C18.R2"], [
    ("src/bump_align_guard.rs", """    pub(crate) scope: &'b mut BumpScope<'a, A, S>,
}""", """    pub(crate) scope: &'b mut BumpScope<'a, A, S>,
    first: crate::raw_bump::RawChunk<A, S>,
}"""),
    ("src/bump_align_guard.rs", """        if let Some(chunk) = self.scope.raw.chunk.get().as_non_dummy() {""", """        if let Some(chunk) = self.first.as_non_dummy() {"""),
    ("src/bump_align_guard.rs", """        Self { scope }""", """        let first = scope.raw.chunk.get();
        Self { scope, first }""")])
M("c04_without_shrink_scope_for_any_B", ["C04"], ["C04.R5", "C04.W"], [
    ("src/traits/bump_allocator_core_scope.rs", """unsafe impl<'a, B: BumpAllocatorCoreScope<'a>> BumpAllocatorCoreScope<'a> for WithoutShrink<B> {}""",
     """unsafe impl<'a, B: BumpAllocatorCore> BumpAllocatorCoreScope<'a> for WithoutShrink<B> {}""")])
M("c15_direction_query_before_prepare_rev", ["C15", "C17"], ["C15.R5", "C17.R6"], [
    ("src/traits/bump_allocator_typed.rs", """        let Ok(range) = bump.prepare_allocation_rev(layout) else {""", """        let up = is_upwards_allocating(&bump);
        let Ok(range) = bump.prepare_allocation_rev(layout) else {"""),
    ("src/traits/bump_allocator_typed.rs", """        let ptr = if is_upwards_allocating(&bump) {
            unsafe { range.start.cast::<T>().add(cap) }""", """        let ptr = if up {
            unsafe { range.start.cast::<T>().add(cap) }""")])
M("c06_rev_extend_from_within_len_after_loop", ["C06"], ["C06.R6"], [
    ("src/mut_bump_vec_rev.rs", """                dst.write((*src).clone());

                self.len += 1;
            }
        }""", """                dst.write((*src).clone());
            }

            self.len += count;
        }""")])

M("c10_reset_to_without_realign_revert", ["C10", "C01"], ["C10.R1", "C01.R8"], [
    ("src/raw_bump.rs", """            let addr = align_pos(S::UP, S::MIN_ALIGN, checkpoint.address.get());
            chunk.set_pos_addr(addr);""", """            let _ = chunk;""")])

M("c06_zst_slice_fill_forgets_clones_revert", ["C06"], ["C06.R7"], [
    ("src/bump_box.rs", """        // The initializer drops the clones made so far if `clone` panics.
        BumpBox::uninit_zst_slice(len).init_fill(value)""", """        for _ in 1..len {
            mem::forget(value.clone());
        }
        mem::forget(value);
        unsafe { BumpBox::zst_slice_from_len(len) }""")])

M("c09_split_off_empty_shortcut_before_asserts_revert", ["C09"], ["C09.R7"], [
    ("src/fixed_bump_string.rs", """            self.assert_char_boundary(start);
            self.assert_char_boundary(end);

            if start == end {
                return FixedBumpString::new();
            }""", """            if start == end {
                return FixedBumpString::new();
            }

            self.assert_char_boundary(start);
            self.assert_char_boundary(end);""")])
M("c09_box_str_split_off_prefix_arm_unchecked", ["C09"], ["C09.R7", "C09.R1"], [
    ("src/bump_box.rs", """        if start == 0 {
            self.assert_char_boundary(end);
""", """        if start == 0 {
""")])

M("c01_prepare_down_trims_after_fit_test_revert", ["C01"], ["C01.R7"], [
    ("src/bumping.rs", """    let start = up_align_unchecked(start, layout.align());

    // REGULAR_CHUNK: `start` and `end` must be part of the same allocated object.
    // Allocated objects can't have a size greater than `isize::MAX`, so this doesn't overflow.
    //
    // DUMMY_CHUNK: `end - start` will always return `-16`
    let remaining = end.wrapping_sub(start) as isize;

    if unlikely(layout.size() as isize > remaining) {
        return None;
    }
""", """    let remaining = end.wrapping_sub(start) as isize;

    if unlikely(layout.size() as isize > remaining) {
        return None;
    }

    let start = up_align_unchecked(start, layout.align());
""")])

M("c17_dyn_reserve_without_restore_revert", ["C17"], ["C17.R8"], [
    ("src/traits/bump_allocator_typed.rs", """                unsafe { bump.reset_to(checkpoint) };
                Ok(())""", """                let _ = checkpoint;
                Ok(())""")])

# ---------------------------------------------------------------- rules added after the second seeding round
M("c08_keep_rest_tail_offset_without_head", ["C08", "C06"], ["C08.R7", "C06.R8"], [
    ("src/owned_slice/drain.rs", """                    let dst = start_ptr.add(unyielded_len);""", """                    let dst = slice_ptr.add(start).add(this.iter.len() + 1);""")])
M("c08_from_uninit_forgets_zst_capacity", ["C08"], ["C08.R4"], [
    ("src/fixed_bump_vec.rs", """        let capacity = if T::IS_ZST { usize::MAX } else { uninitialized.len() };""", """        let capacity = uninitialized.len();""")])
M("c16_box_slice_split_off_rotates_prefix_in_else_arm", ["C16", "C09"], ["C16.R4", "C09.R8"], [
    ("src/bump_box.rs", """                self.as_mut_slice().get_unchecked_mut(start..).rotate_left(range_len);""",
     """                self.as_mut_slice().get_unchecked_mut(..end).rotate_left(range_len);""")])
M("c16_merge_zst_other_not_consumed", ["C16", "C06"], ["C16.R5", "C06.R9"], [
    ("src/bump_box.rs", """            let _ = self.into_raw();
            let _ = other.into_raw();
""", """            let _ = self.into_raw();
""")])
M("c09_try_cstr_whole_input_when_last_byte_is_nul", ["C09"], ["C09.R4"], [
    ("src/traits/bump_allocator_typed_scope.rs", """    fn try_alloc_cstr_from_str(&self, src: &str) -> Result<&'a CStr, AllocError> {
        let src = src.as_bytes();
""", """    fn try_alloc_cstr_from_str(&self, src: &str) -> Result<&'a CStr, AllocError> {
        let src = src.as_bytes();

        if src.last() == Some(&0) {
            return self.try_alloc_cstr(unsafe { CStr::from_bytes_with_nul_unchecked(src) });
        }
""")])
M("c07_fixed_string_reserve_plain_add", ["C07"], ["C07.R5"], [
    ("src/fixed_bump_vec.rs", """        if additional > (self.capacity() - self.len()) {""", """        if additional + self.len() > self.capacity() {""")])
M("c18_by_value_copies_before_make_allocated", ["C18", "C10", "C05"], ["C18.R5", "C10.R6", "C05.R7"], [
    ("src/bump_scope.rs", """        panic_on_error(self.raw.make_allocated());

        BumpScope {
            raw: self.raw.clone(),
            marker: PhantomData,
        }""", """        let raw = self.raw.clone();
        panic_on_error(self.raw.make_allocated());

        BumpScope {
            raw,
            marker: PhantomData,
        }""")])
M("c10_try_with_down_arm_rounds_up", ["C10", "C01", "C02"], ["C10.R1d", "C01.R12", "C02.R7"], [
    ("src/bump_scope.rs", """                            let pos = value.addr().get();
                            down_align_usize(pos, S::MIN_ALIGN)""", """                            let pos = value.addr().get();
                            up_align_usize_unchecked(pos, S::MIN_ALIGN)""")])

# ---------------------------------------------------------------- rules added after the third seeding round
M("c06_splice_fill_counts_after_loop", ["C06"], ["C06.R6"], [
    ("src/bump_vec/splice.rs", """                        ptr::write(place, new_item);
                        vec.inc_len(1);
                    }
                    _ => {
                        return false;
                    }
                }
            }
            true""", """                        ptr::write(place, new_item);
                        n += 1;
                    }
                    _ => {
                        vec.inc_len(n);
                        return false;
                    }
                }
            }
            vec.inc_len(n);
            true"""),
    ("src/bump_vec/splice.rs", """            for place in range_slice {
                match replace_with.next() {""", """            let mut n = 0;
            for place in range_slice {
                match replace_with.next() {""")])
M("c06_new_ranged_zst_counts_from_zero", ["C06"], ["C06.R10"], [
    ("src/owned_slice/into_iter.rs", """                Self::new_zst(range.end - range.start)""", """                Self::new_zst(range.len() + range.start)""")])
M("c06_retain_guard_starts_at_dropped_element", ["C06"], ["C06.R10", "C06.R2"], [
    ("src/bump_box.rs", """            read: read + 1,
            write: read,
            original_len,
        };""", """            read,
            write: read,
            original_len,
        };
        g.read += 1;""")])
M("c09_str_retain_cursor_moves_before_predicate", ["C09"], ["C09.R3"], [
    ("src/bump_box.rs", """            // Point idx to the next char
            guard.idx += ch_len;
        }""", """        }"""),
    ("src/bump_box.rs", """            let ch_len = ch.len_utf8();
""", """            let ch_len = ch.len_utf8();
            let at = guard.idx;
            guard.idx += ch_len;
""")])
M("c08_shrink_to_fit_ignores_returned_pointer", ["C08", "C01"], ["C08.R9", "C01.R14"], [
    ("src/bump_vec.rs", """            if let Some(new_ptr) = allocator.shrink_slice(ptr, cap, len) {
                fixed.set_ptr(new_ptr);""", """            if let Some(_new_ptr) = allocator.shrink_slice(ptr, cap, len) {""")])
M("c08_map_in_place_gate_drops_align_test", ["C08", "C01"], ["C08.R10", "C01.R15"], [
    ("src/bump_vec.rs", """        if !T::IS_ZST && !U::IS_ZST && T::ALIGN >= U::ALIGN && T::SIZE >= U::SIZE {""", """        if !T::IS_ZST && !U::IS_ZST && T::SIZE >= U::SIZE {""")])
M("c16_vec_split_off_rotates_after_set_len", ["C16"], ["C16.R4", "C16.R1"], [
    ("src/fixed_bump_vec.rs", """                self.as_mut_slice().get_unchecked_mut(start..).rotate_left(range_len);
""", """"""),
    ("src/fixed_bump_vec.rs", """                self.set_ptr(lhs);
                self.set_len(lhs_len);
                self.set_cap(lhs_cap);

                FixedBumpVec {""", """                self.set_ptr(lhs);
                self.set_len(lhs_len);
                self.set_cap(lhs_cap);
                self.as_mut_slice().get_unchecked_mut(start..).rotate_left(range_len);

                FixedBumpVec {""")])
M("c19_guard_drop_only_when_lock_clean", ["C19", "C05"], ["C19.R2", "C05.R9"], [
    ("src/bump_pool.rs", """        let bump = unsafe { ManuallyDrop::take(&mut self.bump) };
        self.pool.lock().push(bump);""", """        if !self.pool.bumps.is_poisoned() {
            let bump = unsafe { ManuallyDrop::take(&mut self.bump) };
            self.pool.lock().push(bump);
        }""")])
M("c09_mut_string_insert_gate_differs_from_twin", ["C09"], ["C09.R9"], [
    ("src/mut_bump_string.rs", """        if range_len != given_len {
            unsafe {
                let src = self.as_ptr().add(end);""", """        if range_len > given_len || range_len < given_len && end < self.len() {
            unsafe {
                let src = self.as_ptr().add(end);""")])

M("c12_prepare_allocation_without_padding_revert", ["C12", "C01"], ["C12.R6", "C01.R16"], [
    ("src/traits/bump_allocator_core.rs", """        // this only works out when the size is a multiple of the alignment.
        let layout = layout.pad_to_align();
""", """        // this only works out when the size is a multiple of the alignment.
""")])

# ---------------------------------------------------------------- rules added after the fourth seeding round
M("c13_without_shrink_loses_grow_override", ["C13"], ["C13.R6"], [
    ("src/without_dealloc.rs", """    #[inline(always)]
    unsafe fn grow(&self, ptr: NonNull<u8>, old_layout: Layout, new_layout: Layout) -> Result<NonNull<[u8]>, AllocError> {
        unsafe { self.0.grow(ptr, old_layout, new_layout) }
    }

    #[inline(always)]
    unsafe fn grow_zeroed(
        &self,
        ptr: NonNull<u8>,
        old_layout: Layout,
        new_layout: Layout,
    ) -> Result<NonNull<[u8]>, AllocError> {
        unsafe { self.0.grow_zeroed(ptr, old_layout, new_layout) }
    }

    #[inline(always)]
    unsafe fn shrink(&self, ptr: NonNull<u8>, old_layout: Layout, new_layout: Layout) -> Result<NonNull<[u8]>, AllocError> {
        #[cold]""", """    #[inline(always)]
    unsafe fn grow_zeroed(
        &self,
        ptr: NonNull<u8>,
        old_layout: Layout,
        new_layout: Layout,
    ) -> Result<NonNull<[u8]>, AllocError> {
        unsafe { self.0.grow_zeroed(ptr, old_layout, new_layout) }
    }

    #[inline(always)]
    unsafe fn shrink(&self, ptr: NonNull<u8>, old_layout: Layout, new_layout: Layout) -> Result<NonNull<[u8]>, AllocError> {
        #[cold]""")])
M("c13_without_shrink_typed_shrink_slice_forwards", ["C13"], ["C13.R6", "C13.R2", "C17.R2"], [
    ("src/traits/bump_allocator_typed.rs", """        _ = (ptr, old_len, new_len);
        None""", """        unsafe { B::shrink_slice(&self.0, ptr, old_len, new_len) }""")])
M("c14_stats_current_chunk_unchecked_when_guaranteed", ["C14"], ["C14.R7"], [
    ("src/stats.rs", """        Some(Chunk {
            chunk: self.chunk.as_non_dummy()?,
            marker: self.marker,
        })""", """        let chunk = if S::GUARANTEED_ALLOCATED { unsafe { self.chunk.as_non_dummy_unchecked() } } else { self.chunk.as_non_dummy()? };
        Some(Chunk { chunk, marker: self.marker })""")])
M("c12_first_chunk_sized_by_hint", ["C12"], ["C12.R7"], [
    ("src/raw_bump.rs", """                ChunkSize::from_capacity(*layout).ok_or_else(E::capacity_overflow)?,
                None,
                // When this bump allocator is unallocated, `A` is guaranteed to implement `Default`,
                // `default_or_panic` will not panic.
                A::default_or_panic(),
            ),
            ChunkClass::NonDummy(mut chunk) => {""", """                ChunkSize::from_hint(layout.size() + 16).ok_or_else(E::capacity_overflow)?,
                None,
                // When this bump allocator is unallocated, `A` is guaranteed to implement `Default`,
                // `default_or_panic` will not panic.
                A::default_or_panic(),
            ),
            ChunkClass::NonDummy(mut chunk) => {""")])


# ---------------------------------------------------------------- round-5 rules
M("c06_dedup_by_drops_before_advancing_read", ["C06", "C08"], ["C06.R11", "C08.R12"], [
    ("src/bump_box.rs", """                    gap.read += 1;
                    /* We have found duplicate, drop it in-place */
                    ptr::drop_in_place(read_ptr);""", """                    /* We have found duplicate, drop it in-place */
                    ptr::drop_in_place(read_ptr);
                    gap.read += 1;""")])
M("c08_dedup_by_compares_with_previous_read_slot", ["C08", "C06"], ["C08.R12", "C06.R11"], [
    ("src/bump_box.rs", """                let prev_ptr = ptr.add(gap.write.wrapping_sub(1));""",
     """                let prev_ptr = read_ptr.sub(1);""")])
M("c06_dedup_by_method_form_drop", ["C06", "C08"], [], [
    ("src/bump_box.rs", """                    /* We have found duplicate, drop it in-place */
                    ptr::drop_in_place(read_ptr);""", """                    /* We have found duplicate, drop it in-place */
                    read_ptr.drop_in_place();""")], negative=True)
M("c08_keep_rest_tail_move_needs_unyielded", ["C08", "C06"], ["C08.R7", "C06.R8"], [
    ("src/owned_slice/drain.rs", """                if tail != (start + unyielded_len) {
                    let src = slice_ptr.add(tail);""", """                if unyielded_len != 0 && tail != (start + unyielded_len) {
                    let src = slice_ptr.add(tail);""")])
M("c02_alloc_try_with_compares_old_chunk", ["C02"], ["C02.R9"], [
    ("src/bump_scope.rs", """        let pos = if S::UP { self.raw.chunk.get().pos() } else { ptr.cast() };

        Ok(unsafe {
            non_null::write_with(ptr, f);

            // If `f` made allocations on this bump allocator we can't shrink the allocation.
            let can_shrink = pos == self.raw.chunk.get().pos();""", """        let chunk_before = self.raw.chunk.get();
        let pos = if S::UP { chunk_before.pos() } else { ptr.cast() };

        Ok(unsafe {
            non_null::write_with(ptr, f);

            // If `f` made allocations on this bump allocator we can't shrink the allocation.
            let can_shrink = pos == chunk_before.pos();""")])
M("c02_alloc_try_with_chunk_read_once_after_callback", ["C02"], [], [
    ("src/bump_scope.rs", """            non_null::write_with(ptr, f);

            // If `f` made allocations on this bump allocator we can't shrink the allocation.
            let can_shrink = pos == self.raw.chunk.get().pos();""", """            non_null::write_with(ptr, f);

            // If `f` made allocations on this bump allocator we can't shrink the allocation.
            let chunk_after = self.raw.chunk.get();
            let can_shrink = pos == chunk_after.pos();"""),
    ("src/bump_scope.rs", """                        // The allocation of was successful, so our chunk must be allocated.
                        let chunk = self.raw.chunk.get().as_non_dummy_unchecked();
                        chunk.set_pos_addr(new_pos);
                    }

                    BumpBox::from_raw(value)""", """                        // The allocation of was successful, so our chunk must be allocated.
                        let chunk = chunk_after.as_non_dummy_unchecked();
                        chunk.set_pos_addr(new_pos);
                    }

                    BumpBox::from_raw(value)""")], negative=True)
M("c09_fixed_string_split_off_suffix_arm_capacity", ["C09", "C16", "C02"], ["C09.R10", "C16.R1", "C02.R6"], [
    ("src/fixed_bump_string.rs", """                let lhs_cap = remaining_len;""", """                let lhs_cap = range_len;""")])
M("c09_bump_string_display_writes_raw", ["C09"], ["C09.R11"], [
    ("src/bump_string.rs", """        Display::fmt(self.as_str(), f)""", """        f.write_str(self.as_str())""")])
M("c09_fixed_string_debug_prints_unquoted", ["C09"], ["C09.R11"], [
    ("src/fixed_bump_string.rs", """        Debug::fmt(self.as_str(), f)""", """        Display::fmt(self.as_str(), f)""")])
M("c19_pool_bumps_unwraps_poison", ["C19", "C07"], ["C19.R6", "C07.R11"], [
    ("src/bump_pool.rs", """        self.bumps.get_mut().unwrap_or_else(PoisonError::into_inner)""", """        self.bumps.get_mut().unwrap()""")])
M("c01_bump_down_wrapping_sub", ["C01", "C07"], ["C01.R17", "C07.R7"], [
    ("src/lib.rs", """    let subtracted = addr.get().saturating_sub(size);""", """    let subtracted = addr.get().wrapping_sub(size);""")])
M("c10_grow_size_doubles_capacity", ["C10", "C12"], ["C10.R8", "C12.R3"], [
    ("src/raw_bump.rs", """        let Some(size) = self.size().get().checked_mul(2) else {""", """        let Some(size) = self.capacity().checked_mul(2) else {""")])
M("c09_display_via_formatter_pad", ["C09"], [], [
    ("src/bump_string.rs", """        Display::fmt(self.as_str(), f)""", """        f.pad(self.as_str())""")], negative=True)
M("c19_pool_lock_recovers_with_match", ["C19", "C07"], [], [
    ("src/bump_pool.rs", """        self.bumps.lock().unwrap_or_else(PoisonError::into_inner)""", """        match self.bumps.lock() {
            Ok(guard) => guard,
            Err(poisoned) => poisoned.into_inner(),
        }""")], negative=True)
