#!/usr/bin/env python3
"""Self-test of the checker, both ways: every mutant (one small edit of /repo/src applied to a scratch copy outside
/repo and /verif) must compile and must make its expected rule fire; negative controls must stay silent.
Not part of quick/thorough.  Usage: selftest/run.py [name-substring ...] [--keep] [--jobs N]"""
import os, sys, shutil, subprocess, tempfile, json, re
from concurrent.futures import ThreadPoolExecutor
HERE = os.path.dirname(os.path.abspath(__file__))
VERIF = os.path.dirname(HERE)
sys.path.insert(0, HERE)
from mutants import MUTANTS


def make_copy():
    d = tempfile.mkdtemp(prefix="bsv-mutant-")
    subprocess.check_call(["rsync", "-a", "--exclude", "target", "--exclude", ".git", "--exclude", "fuzz",
                           "/repo/", d + "/"])
    return d


def apply(d, edits):
    for (path, old, new) in edits:
        p = os.path.join(d, path)
        s = open(p).read()
        if s.count(old) < 1:
            raise RuntimeError(f"edit anchor not found in {path}: {old[:60]!r}")
        s = s.replace(old, new, 1)
        open(p, "w").write(s)


def run_one(m):
    d = make_copy()
    try:
        try:
            apply(d, m["edits"])
        except RuntimeError as e:
            return m, "STALE", str(e)
        env = dict(os.environ, BSV_REPO=d, BSV_REPORTS=os.path.join(d, "_reports"), BSV_EVIDENCE=os.path.join(d, "_ev"))
        outs = []
        fired = set()
        for prop in m["props"]:
            p = subprocess.run([os.path.join(VERIF, "check"), prop, "--tier", m.get("tier", "quick")], env=env, cwd=VERIF,
                               stdout=subprocess.PIPE, stderr=subprocess.STDOUT, text=True)
            outs.append(p.stdout)
            if p.returncode == 3:
                return m, "NOCOMPILE", p.stdout[-1500:]
            for line in p.stdout.splitlines():
                mm = re.match(r"\s+rule (\S+):", line)
                if mm:
                    fired.add(mm.group(1))
        exp = set(m.get("expect", []))
        if m.get("negative"):
            return m, ("OK" if not fired else "FALSE-ALARM"), ",".join(sorted(fired))
        if exp & fired or (not exp and fired):
            return m, "OK", ",".join(sorted(fired))
        return m, "MISSED", ",".join(sorted(fired)) + "\n" + "\n".join(o[-600:] for o in outs)
    finally:
        shutil.rmtree(d, ignore_errors=True)


def main():
    args = [a for a in sys.argv[1:] if not a.startswith("--")]
    ms = [m for m in MUTANTS if not args or any(a in m["name"] for a in args)]
    bad = 0
    with ThreadPoolExecutor(max_workers=8) as ex:
        for m, verdict, info in ex.map(run_one, ms):
            print(f"{verdict:12} {m['name']:55} expect={m.get('expect')} fired={info.splitlines()[0] if info else ''}")
            if verdict not in ("OK",):
                bad += 1
                if verdict != "OK":
                    print("    " + info.replace("\n", "\n    ")[:1500])
    print(f"{len(ms)} mutants, {bad} not OK")
    sys.exit(1 if bad else 0)


if __name__ == "__main__":
    main()
