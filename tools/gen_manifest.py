#!/usr/bin/env python3
"""Regenerates MANIFEST.json from the table below (claimed checks only list properties whose rule module exists)."""
import json, os
HERE = os.path.dirname(os.path.dirname(os.path.abspath(__file__)))
TECH = "static analysis: custom MIR rules (dataflow/provenance, dominance, control dependence, call graph) via a rustc_private driver"
NOTE = ("Trusts rustc nightly (type check, MIR construction, trait resolution), the fact exporter and the rule primitives; "
        "decides necessary structural conditions on the polymorphic MIR (all settings types S and base allocators A), "
        "not the run-time behaviour; library target only. ")

CHECKS = {
 "C01": ("Structural discipline of the bump position: single writer family with classified value provenance (R1), hand-out <=> bump in the allocation primitive and no write in prepare primitives (R2), is-last/align_fits gates on every in-place path (R3), slow-path ordering (R4). Added later: is_last compares exact boundaries (R3), the chunk that satisfied the request becomes current (R4), bump primitives align and fit-test every success path and measure the range they return (R6/R7), every written position is min-aligned incl. re-aligned checkpoint restores (R8), rounded towards the free side (R12); shared: split partitions (R9), reclaim boundary (R10), settings conversions (R11). Round 5: the downward bump helper subtracts with saturating/checked arithmetic (R17 = C07.R7).",
         "Not decided: the integer arithmetic of bump_up/bump_down (C11), users' unsafe contracts."),
 "C03": ("Checkpoint = (chunk, position) and its restore write (R1); scope-guard protocol incl. drop on return and on unwind of the user closure, checkpoint before align in scoped_aligned (R2); reset_to restores position and current chunk on every path, reset_to_start rewinds to the first chunk (R3); no chunk is freed on any scope-exit path (R4); new chunks only after later chunks were tried (R5); alloc_try_with(_mut) checkpoint-before-allocate and Err rewind (R6). A missing checkpoint/rewind in alloc_try_with(_mut) is a violation (R6).",
         "Not decided: numeric equality of allocated() before/after, that reset loops stop requesting chunks after finitely many rounds."),
 "C04": ("Exploration of a generated program space with rustc as the oracle: every witness (producer x handle x escape route; Send/Sync; settings conversions) must be rejected with an expected diagnostic, every twin accepted; compiled against the rlib built from the working tree in the same run. Supporting MIR rules: bounds on unsafe impl Send/Sync (R1), enumeration/coverage of lifetime-laundering functions (R2); type-level signature rules over all safe functions: every lifetime of a return type is anchored in the arguments (R3), a by-value handle argument keeps its lifetime in a handle-returning function (R4). Owner-overwrite witnesses (an owned BumpScope value stored into an owning arena's storage) - five of them compile on the current tree and are listed as known findings.",
         "Not decided: safe programs outside the generated grammar; code using `unsafe`. Trusts rustc's borrow checker, trait solver and const evaluation."),
 "C05": ("Who may call the base allocator: one allocate and one deallocate site, never from unallocated constructors (R1); drop releases every chunk exactly once on every path, walks read links before freeing, into_raw suppresses the drop (R2); reset keeps exactly the last chunk (R3); release layout agrees with the request: same alignment atom, pointer chunk_start, size chunk_end-chunk_start, no header read after the release (R4); a failed chunk creation links nothing (R5). Added later: requested sizes are multiples of the header alignment (R6), by_value allocates before copying the handle (R7), rounding order of the size computation (R8). Round 5: no plain + or * in the chunk-size computations (R10 = C12.R1).",
         "Not decided: 'released size >= requested size' as a number (arithmetic of C12); behaviour of a faulty base allocator."),
 "C14": ("Claim protocol: diverging already-claimed test, replace with the CLAIMED constant, reclaim of the claimant's current chunk on guard drop, guard not Clone and built in one place (R1); every classifier consumer separates Claimed from NonDummy and fallible ones return E::claimed() before any effect (R2); geometry of the four dummy headers read from the statics' MIR (capacity -16, self-contained, no links) and direction selection (R3); guard derefs to its claimant scope (R4); a handle's refusal becomes E::allocation (abort under the panicking API) only after is_claimed() was false, else E::claimed (R5).",
         "Not decided: that is_last is false for the dummy position for every user pointer (provenance argument, not computed); numeric behaviour of the bump primitives on the dummy range (C11)."),
 "C15": ("Interface discipline of MutBumpVec/MutBumpVecRev/MutBumpString and the *_mut helpers incl. helper functions they reach: only prepare/statistics calls, commit only in finalisers, tabled fast-path exceptions (R1); no position write reachable from the prepare primitives except the lazy reset of a later chunk (R2); drop glue reaches no allocator method (R3); prepared commits and growth copies as affine normal forms relative to the prepared range, up/down x forward/reverse (R4). Added later: direction query only after a successful prepare on type-erased paths (R5), wrapper impls forward to their namesake (R6).",
         "Not decided: the numbers (padding bounds), contents of the elements."),
 "C16": ("Partition identities by affine value numbering on every return path of BumpBox<[T]>/<str>::split_off, FixedBumpVec::split_off, split_at_unchecked, split_first/last, split_at_spare: adjacency, length and capacity sums, ZST arms, rotate amounts; merge form and contiguity gate; into_flattened len*N (R1); range / bound validation dominates pointer arithmetic (R2); the allocator reads no per-block metadata, so sub-blocks are legal blocks (R3). Added later: rotation scheme agreed by the four split_off implementations (R4), merge consumes both operands (R5). Round 5: R1 also covers FixedBumpString::split_off; reclaim boundary of deallocate/shrink for sub-blocks (R8 = C13.R3).",
         "Not decided: element contents after rotation (delegated to core::slice::rotate_*), follow-up operation histories on the parts, partition (callback-driven)."),
 "C17": ("Sibling agreement of all entry points: forward_methods! instances call their namesake with parameters in order (R1); reference/wrapper/Bump->scope and foreign-Allocator impls forward to their namesake, exceptions tabled (R2); every m/try_m twin pair has the same normalised callee sequence and argument skeleton (R3); layout hint types only from truthful sources, BumpProps copies hints, fast and slow paths agree on T/len (R4); trait-object helpers use the same primitives (R5). Added later: direction after prepare (R6), primitives (R7), reserve never switches the current chunk (R8), alloc_try_with twins rewind alike (R9), min-aligned positions on every path incl. trait objects (R10).",
         "Not decided: 'same offset and byte count' as numbers (needs the hint-independence of C11's arithmetic); value-level equality of results."),
 "C18": ("Raise: aligning call dominates the type-changing transmute which dominates the closure (R1); lower: BumpAlignGuard constructed before the closure and dropped on return and unwind, its drop aligns with the outer MIN_ALIGN (R2); scoped_aligned takes the checkpoint before aligning (R3); conversions: run-time panics exactly under their stated conditions, shared-borrow conversion writes nothing, the compile-time assertions of every ensure_* are read from the inline-const MIR and every mutable conversion aligns on every path (R4). Added later: the align guard re-aligns the chunk current at drop time (R2), by_value / make_allocated protocol (R5), min-aligned positions (R6).",
         "Not decided: numbers; disjointness across alignment regions (C01); that rustc rejects the violating conversions is exercised by C04's witnesses."),
 "C19": ("Ownership protocol of the pool, which discharges the schedule quantifier statically: idle stack only behind the mutex and no stray unsafe (R1); pop -> guard(ManuallyDrop, no Clone) -> take in Drop -> push, guard constructed only in the get family (R2); constructor calls only after pop() returned None (R3); pool-wide reset forwards (R5). Lifetime / Send / Sync clauses are decided by rustc on the witness corpus (R4, with C04). The pool part of the witness corpus is run by this check itself (C19.W); two Stats-vs-guard witnesses compile today and are known findings. Round 5: poisoning of the pool's mutex is recovered at every lock/get_mut (R6).",
         "Not decided: fairness and timing; 'number of arenas never exceeds the peak' as a number (follows from R2+R3, not computed)."),
 "C06": ("Shape rules behind exactly-once dropping: length store dominates every in-place slice drop (R1); critical sections discovered over the call graph (raw operation followed by user code, directly or through helpers/closures): tabled instances must drop their guard on the unwind path of the callback, safe-order instances tabled with reason, new ones reported UNCLASSIFIED (R2); ExtractIf index update between predicate and read (R2b); append hand-over order reserve -> copy -> take_owned_slice (R3); owners' Drop reaches drop_in_place on their buffer (R4). Added later: no element range accounted twice in Drain::drop (R5), clone loops count per iteration (R6), no mem::forget of callback results while user code can still run (R7), keep_rest compaction (R8), merge consumes both operands (R9). Round 5: dedup_by advances gap.read before dropping the duplicate and compares with the retained slot (R11); keep_rest may skip a move only under the matching already-in-place condition (R8 extended).",
         "Not decided: exact drop counts over histories; leaks the statement allows; panics thrown by Drop itself; iterator adaptors' internal protocols beyond the tabled ones."),
 "C07": ("The panicking error behaviour is uninhabited and its constructors diverge (R1); binding-aware call-graph proof that no try_* function and no allocator-interface method reaches the allocation-failure panic set or binds an ErrorBehavior parameter to Infallible (R2); failed chunk creation links nothing (R3); reserve-before-write in every single-operation E-generic collection method (R4); checked size computations with error-constructing failure edges, never unwrapped (R5); the current-chunk cell is committed only after the last E-fallible step of the slow path (R6). Added later: fmt::Write sinks are roots, PanicsOnAlloc only under B::PANICS_ON_ALLOC; no plain +/* on caller counts (R5); current chunk committed after the last fallible step (R6); saturating address subtraction (R7). Round 5: every LockResult of the pool's mutex is recovered with PoisonError::into_inner (R11 = C19.R6).",
         "Not decided: the post-failure values (previous length and contents) beyond what the ordering implies; multi-step iterator-driven operations; leaks/double drops after failure (see C06)."),
 "C08": ("Claimed narrowly: facade methods delegate to the same-named shared slice implementation (R1); index-derived raw accesses are gated by std's bound relation with a diverging failure arm (R2); element shuffles of remove / swap_remove / insert against Vec's contract in affine normal form, forward and mirrored for the reverse vector (R3); capacity promises: grow only when needed, amortised vs exact policy, ZST never grows / capacity MAX (R4). Added later: ZST capacity in every FixedBumpVec constructor (R4), stale buffer pointers across growth (R5), sibling agreement on IS_ZST (R6), keep_rest compaction (R7), length lowered before drop (R8). Round 5: dedup_by protocol (R12 = C06.R11); keep_rest skip conditions (R7 extended).",
         "NOT decided: equivalence with Vec over operation sequences, iterators (drain/splice/extract_if results), sort/dedup outcomes, lengths after multi-step operations."),
 "C09": ("Claimed narrowly: every index flowing into a byte-level editor of a string is covered by a dominating char-boundary check on that value (R1); bytes become str only after core::str::from_utf8 succeeded or at tabled sites with checked operand class (R2); retain's length guard covers the predicate, drain is lazy (R3); C-string constructors end at the first NUL or append exactly one (R4). Added later: CStr views of the input only at the first NUL (R4), stale pointers across growth (R5), decoder siblings (R6), split_off checks both ends on all paths (R7), rotation scheme of the split_off siblings (R8). Round 5: FixedBumpString::split_off partitions length and capacity on every arm (R10 = C16.R1 extended); Display/Debug of the string types delegate to <str as Display/Debug>::fmt only (R11).",
         "NOT decided: equivalence with std::string::String over operation sequences, lossy decoders' output, formatting results."),
 "C10": ("Every written position value is min-aligned by construction and the aligner helpers have their canonical form (R1, R1c); accounting identities allocated+remaining=capacity, size-capacity=header size and the Stats/AnyStats sum shapes (R2, affine value numbering); typed == type-erased accessors as affine normal forms (R3) and no size-dependent arithmetic on the erased header (R3b); chunk list link protocol (R4); recorded chunk size = aligned granted size (R5). Added later: checkpoint restores are re-aligned (R1), aligner direction (R1d), by_value ordering (R6). Round 5: growth doubles the chunk size, not its capacity (R8 = C12.R3).",
         "Not decided: the numbers themselves (position inside the chunk, strict growth of chunk sizes, multiples of 16)."),
 "C12": ("Claimed narrowly: no plain/wrapping/unchecked + or * in the size computations, plain - only where tabled (R1); failures become None/capacity_overflow, nothing unwrapped (R2); slow path sizes by max(hint for layout, checked doubling) (R3); rounding order and presence of every summand of the capacity hint (overhead, header, bytes + worst-case padding, MIN_CHUNK_ALIGN slack) for up and down, min raise, align_size after the overhead subtraction (R4, value numbering).",
         "NOT decided (stated plainly): that the rounded number really is >= header + padding + request for all layouts x header layouts x granted sizes; multiples of 16; '>= 2 x previous - 16'. These are value-level and out of reach of a sound static argument here."),
 "C13": ("Settings gates: position writes of deallocate bodies depend on S::DEALLOCATES, of shrink bodies on S::SHRINKS (R1); WithoutDealloc/WithoutShrink are no-ops exactly where promised (R2); reclaim writes the block's boundary, in-place upward grow keeps the address (R3); only tabled operations can move the position backwards (R4). Added later: in-place grow room test (R3), is_last exactness (R5).",
         "Not decided: 'the same address again' as a number (needs the arithmetic of C11)."),
 "C02": ("Copy length/source of every reallocation (R1), overlap-aware copies (R2), zeroing extents and zeroed->zeroed forwarding (R3), no raw writes reachable from non-reallocating arena operations (R4). Added later: reclaim boundary / grow room test (R5), split partitions do not overlap (R6), aligner direction (R7). Round 5: after a user callback the position is written, and alloc_try_with's unchanged-position test is made, through a chunk handle read after the callback (R9).",
         "Not decided: byte values themselves."),
}
NOT_APPLICABLE = {
 "C11": "pure value-level arithmetic over all addresses/layouts/min-alignments; no clause is both structural and necessary in itself (DESIGN.md section 5); its code is still watched structurally by C01.R6/R7 and C10.R1b",
}
ALL = ["C%02d" % i for i in range(1, 20)]

def main():
    checks = []
    for pid in ALL:
        if pid in CHECKS and os.path.exists(os.path.join(HERE, "bsv", "rules", pid.lower() + ".py")):
            text, nd = CHECKS[pid]
            level = "exploration" if pid == "C04" else "other"
            checks.append({
                "property_id": pid,
                "quick_cmd": f"./check {pid} --tier quick",
                "thorough_cmd": f"./check {pid} --tier thorough",
                "evidence_file": f"evidence/{pid}.json",
                "replay_cmd_template": f"./check {pid} --explain {{path}}",
                "engine": "witness" if pid == "C04" else "mirfacts",
                "level_claimed": {"category": level, "text": text, "design_ref": f"DESIGN.md section 3, {pid}"},
                "level_note": NOTE + nd,
                "technique": TECH if pid != "C04" else "static analysis: generated compile-fail/compile-pass witness corpus judged by rustc's borrow and trait checkers, plus MIR rules on unsafe impls",
            })
    claimed = {c["property_id"] for c in checks}
    na = [{"property_id": p, "reason": r} for p, r in NOT_APPLICABLE.items()]
    for pid in ALL:
        if pid not in claimed and pid not in NOT_APPLICABLE:
            na.append({"property_id": pid, "reason": "not claimed yet: its static rules are still being built (see DESIGN.md section 3); no verdict is given"})
    m = {
        "version": 1,
        "setup_cmd": "cd driver && cargo build --release --offline",
        "hooks": {
            "guard": "bump_scope_verif",
            "enable": "none needed: static analysis reads /repo's working tree through a rustc_private driver; no hooks are compiled into bump-scope",
            "baseline_off_cmd": "cd /repo && cargo test --workspace --no-fail-fast --offline",
            "source_commits": [],
            "add_only": True,
        },
        "engines": [
            {"name": "mirfacts", "path": "driver/ + bsv/", "serves_properties": sorted(claimed - {"C04"}),
             "kind_free_text": "rustc_private driver (RUSTC_WORKSPACE_WRAPPER under cargo +nightly check) exporting the type-checked program and MIR of bump_scope as JSON facts; Python rule library: binding-aware call graph, dominance / must-pass-through by edge removal, control dependence, reaching-definition PROV expression trees, unwind walks with drop-flag propagation"},
            {"name": "avn", "path": "bsv/sym.py", "serves_properties": ["C01", "C05", "C08", "C10", "C12", "C15", "C16"],
             "kind_free_text": "value numbering of loop-free MIR (ite trees, bounded inlining, store-to-load forwarding, versioned state readers) with an affine normaliser; identities and expected forms, no solver, no path feasibility reasoning"},
            {"name": "witness", "path": "bsv/witness.py", "serves_properties": ["C04", "C18", "C19"],
             "kind_free_text": "generated compile-fail witnesses with compile-pass twins (borrow, Send/Sync, settings conversions) judged by rustc against the rlib built from the working tree"},
        ],
        "checks": checks,
        "not_applicable": na,
        "notes": "Every check rebuilds its fact base from /repo's working tree on each run (fresh scratch target dir, removed afterwards). `./check all --tier quick` evaluates all properties on one extraction. selftest/run.py applies mutants to scratch copies (not part of quick/thorough).",
    }
    with open(os.path.join(HERE, "MANIFEST.json"), "w") as f:
        json.dump(m, f, indent=1)
    print("claimed:", sorted(claimed))

if __name__ == "__main__":
    main()
