#!/usr/bin/env python3
"""Render the catch matrix of the seeded changes (/verif/seeded/*/meta.json) as a markdown table (stdout)."""
import json, os, sys

ROOT = os.path.join(os.path.dirname(os.path.abspath(__file__)), "..", "seeded")


def main():
    rows = []
    for n in sorted(os.listdir(ROOT)):
        p = os.path.join(ROOT, n, "meta.json")
        if not os.path.exists(p):
            continue
        m = json.load(open(p))
        fired = [f for f in m.get("checks_fired", []) if "(thorough)" not in f]
        thor = [f.replace(" (thorough)", "") for f in m.get("checks_fired", []) if "(thorough)" in f]
        own = sorted({f for f in fired + thor if f.startswith(m["property"] + ".")})
        other = sorted({f for f in fired if not f.startswith(m["property"] + ".")})
        rows.append((n, str(m.get("round", 1)), m["property"], "yes" if m.get("confirmed") else "NO", ", ".join(own) or "—", ", ".join(other) or "—",
                     m.get("first_run_caught_by", "")))
    print("| seeded change | round | property | confirmed | fired: own property's check | fired: other properties (quick) | before strengthening |")
    print("|---|---|---|---|---|---|---|")
    for r in rows:
        print("| " + " | ".join(r) + " |")
    n_own = sum(1 for r in rows if r[4] != "—")
    print(f"\n{len(rows)} seeded changes, {n_own} caught by their own property's check, "
          f"{sum(1 for r in rows if r[4] == '—' and r[5] != '—')} only by another property's check, "
          f"{sum(1 for r in rows if r[4] == '—' and r[5] == '—')} missed.")


if __name__ == "__main__":
    main()
