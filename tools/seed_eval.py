#!/usr/bin/env python3
"""Confirm and evaluate a seeded change produced by an independent sub-agent.

usage: tools/seed_eval.py <worktree> <diff> <demo.rs> <name> <property> [--no-suite]
 1. in the scratch worktree: demo passes on the clean tree, fails with the change; the full suite passes with the change
 2. applies the change to /repo, runs every claimed check (quick, and thorough for the property's own check), undoes it
 3. writes /verif/seeded/<name>/{patch.diff, demo.rs, meta.json}"""
import json, os, subprocess, sys, shutil, re, time

def sh(cmd, cwd=None, timeout=3600):
    p = subprocess.run(cmd, cwd=cwd, shell=True, stdout=subprocess.PIPE, stderr=subprocess.STDOUT, text=True, timeout=timeout)
    return p.returncode, p.stdout

def main():
    wt, diff, demo, name, prop = sys.argv[1:6]
    nosuite = "--no-suite" in sys.argv
    confirm_only = "--confirm-only" in sys.argv
    check_only = "--check-only" in sys.argv
    diff, demo = os.path.abspath(diff), os.path.abspath(demo)
    meta = {"name": name, "property": prop, "ran": []}
    d = os.path.join("/verif/seeded", name)
    os.makedirs(d, exist_ok=True)
    if check_only:
        meta = json.load(open(os.path.join(d, "meta.json")))
        ok_clean = fails = suite_ok = None
    # --- 1. confirm in the scratch worktree
    if not check_only:
      confirm(wt, diff, demo, name, meta, nosuite)
      ok_clean, fails, suite_ok = meta["_c"]
      del meta["_c"]
      meta["confirmed"] = bool(ok_clean and fails and (suite_ok or nosuite))
      shutil.copy(diff, os.path.join(d, "patch.diff"))
      shutil.copy(demo, os.path.join(d, "demo.rs"))
      json.dump(meta, open(os.path.join(d, "meta.json"), "w"), indent=1)
    if confirm_only:
        return
    check(diff, name, prop, meta, d)


def confirm(wt, diff, demo, name, meta, nosuite):
    sh("git checkout -- src", cwd=wt)
    for f in os.listdir(os.path.join(wt, "tests")):
        if f.startswith("seed_demo"):
            os.remove(os.path.join(wt, "tests", f))
    tname = "seedcheck_" + re.sub(r"\W", "_", name)
    shutil.copy(demo, os.path.join(wt, "tests", tname + ".rs"))
    rc0, out0 = sh(f"cargo test --offline --test {tname} 2>&1 | tail -40", cwd=wt)
    ok_clean = "test result: ok" in out0 and "FAILED" not in out0
    if "--clean-must-not-compile" in sys.argv:
        # compile-time property: on the clean tree the demonstration must be REJECTED by rustc
        ok_clean = bool(re.search(r"^error(\[E\d+\])?:", out0, re.M)) and "could not compile" in out0 and "test result" not in out0
        meta["clean_expectation"] = "demo must be rejected by rustc on the clean tree and compile (and fail at run time) with the change"
    meta["ran"].append({"cmd": f"cargo test --offline --test {tname} (clean tree)", "passed": ok_clean})
    rc, out = sh(f"git apply {diff}", cwd=wt)
    if rc != 0:
        print("patch does not apply:", out); sys.exit(2)
    rc1, out1 = sh(f"cargo test --offline --test {tname} 2>&1 | tail -25", cwd=wt)
    fails = "FAILED" in out1 or "error" in out1.lower() and "test result: ok" not in out1
    if "--clean-must-not-compile" in sys.argv:
        fails = "could not compile" not in out1 and ("FAILED" in out1 or "test result" in out1)
    meta["ran"].append({"cmd": f"cargo test --offline --test {tname} (with change)", "failed_as_expected": fails, "tail": out1[-600:]})
    os.remove(os.path.join(wt, "tests", tname + ".rs"))
    suite_ok = None
    if not nosuite:
        rc2, out2 = sh("cargo test --workspace --no-fail-fast --offline 2>&1", cwd=wt)
        nres = len(re.findall(r"^test result: ok", out2, re.M))
        nfail = len(re.findall(r"^test result: FAILED", out2, re.M)) + len(re.findall(r"^error(\[|:)", out2, re.M))
        npass = sum(int(x) for x in re.findall(r"^test result: ok\. (\d+) passed", out2, re.M))
        suite_ok = nfail == 0 and nres > 20
        meta["ran"].append({"cmd": "cargo test --workspace --no-fail-fast --offline (with change, demo removed)", "passed": suite_ok,
                            "summary": f"{nres} test binaries ok, {npass} tests passed, {nfail} failed/errors"})
    sh("git checkout -- src", cwd=wt)
    print(f"[{name}] demo clean={ok_clean} demo-with-change-fails={fails} suite-with-change-passes={suite_ok}")
    meta["_c"] = (ok_clean, fails, suite_ok)


def check(diff, name, prop, meta, d):
    # --- 2. run the checks against it
    rc, out = sh(f"git -C /repo apply {diff}")
    if rc != 0:
        # the diff was taken at an earlier commit of /repo: fall back to patch(1) with fuzz, never leave rejects behind
        rc2, out2 = sh(f"cd /repo && patch -p1 -s -F3 < {diff}")
        sh("cd /repo && find . -name '*.orig' -not -path './target/*' -delete; find . -name '*.rej' -not -path './target/*' -delete")
        if rc2 != 0:
            sh("git -C /repo checkout -- .")
            print("patch does not apply to /repo:", out, out2); sys.exit(2)
        meta["applied_with_fuzz"] = True
    fired = {}
    try:
        rc, out = sh("./check all --tier quick", cwd="/verif")
        for line in out.splitlines():
            m = re.match(r"\s+rule (\S+):", line)
            if m:
                fired.setdefault(m.group(1), 0); fired[m.group(1)] += 1
        harness = "HARNESS-ERROR" in out
        rc_t, out_t = sh(f"./check {prop} --tier thorough", cwd="/verif")
        for line in out_t.splitlines():
            m = re.match(r"\s+rule (\S+):", line)
            if m:
                fired.setdefault(m.group(1) + " (thorough)", 0)
    finally:
        sh("git -C /repo checkout -- .")
        sh("git -C /repo status --short")
    # restore evidence written during the seeded run
    sh("git checkout -- evidence", cwd="/verif")
    meta["checks_fired"] = sorted(fired)
    meta["caught"] = bool(fired)
    meta["harness_error"] = harness
    json.dump(meta, open(os.path.join(d, "meta.json"), "w"), indent=1)
    print(f"[{name}] fired: {sorted(fired)}")

if __name__ == "__main__":
    main()
