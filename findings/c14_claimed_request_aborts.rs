use bump_scope::{Bump, BumpVec, bump_vec, traits::BumpAllocatorScope, traits::BumpAllocatorCore, traits::BumpAllocatorTyped};
use std::panic::{catch_unwind, AssertUnwindSafe};

#[test]
fn push_on_claimed_handle_unwinds() {
    let bump: Bump = Bump::new();
    let mut v: BumpVec<u64, _> = bump_vec![in &bump; 1, 2, 3];
    let g = bump.claim();
    let r = catch_unwind(AssertUnwindSafe(|| v.push(4)));
    assert!(r.is_err());
    drop(g);
    assert_eq!(&*v, &[1, 2, 3]);
}

#[test]
fn dyn_alloc_on_claimed_handle_unwinds() {
    let bump: Bump = Bump::new();
    let g = bump.claim();
    let d: &dyn BumpAllocatorCore = &bump;
    let r = catch_unwind(AssertUnwindSafe(|| { d.allocate_slice::<u64>(3); }));
    assert!(r.is_err());
    drop(g);
}
