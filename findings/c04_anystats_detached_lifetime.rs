//! NOT a seeded bug: this compiles and misbehaves on the UNCHANGED library (HEAD afdac9a).
//!
//! src/stats/any.rs:
//!     impl<A, S> From<Stats<'_, A, S>> for AnyStats<'_>            (line 15)
//!     impl<A, S> From<Chunk<'_, A, S>> for AnyChunk<'_>            (line 152)
//!     impl<A, S> From<ChunkPrevIter<'_, A, S>> for AnyChunkPrevIter<'_>   (line 346)
//!     impl<A, S> From<ChunkNextIter<'_, A, S>> for AnyChunkNextIter<'_>   (line 383)
//! In an impl header every `'_` is a fresh, independent lifetime, so the conversion turns a
//! `Stats<'short, ..>` into an `AnyStats<'static>`: a C04 violation ("Stats value ... after the Bump is dropped").
//!
//! cp _result/extra_genuine/upstream_anystats_detached_lifetime.rs tests/x.rs && cargo test --offline --test x
//! observed on the unchanged library: compiles; panics with arithmetic overflow inside
//! `AnyChunk::allocated` (src/stats/any.rs:252) because it reads the freed chunk header.
use bump_scope::{Bump, stats::AnyStats};

#[test]
fn any_stats_outlives_bump() {
    let any: AnyStats<'static> = {
        let bump: Bump = Bump::new();
        bump.alloc_str("hello");
        AnyStats::from(bump.stats())
    };
    // `bump` is dropped; this reads the freed chunk header
    println!("{}", any.allocated());
}
