// Pre-existing (unchanged library): `alloc_slice_fill` of a zero-sized type loses the
// clones it already made when a later `Clone::clone` panics.
//
// Run with:   cargo test --offline --test seed_preexisting
//
// `BumpBox::zst_slice_fill` (src/bump_box.rs) does `mem::forget(value.clone())` in a loop
// and only conjures the slice up once all clones succeeded. If the k-th clone panics,
// the k-1 clones made before are forgotten and never dropped; only `value` itself is
// dropped by the unwinding. For sized types the same operation goes through
// `BumpBoxSliceInitializer`, which drops what was written so far.

use std::{
    cell::Cell,
    panic::{AssertUnwindSafe, catch_unwind},
};

use bump_scope::Bump;

thread_local! {
    static LIVE: Cell<isize> = const { Cell::new(0) };
    static CLONES_UNTIL_PANIC: Cell<usize> = const { Cell::new(0) };
}

struct Zst;

impl Zst {
    fn new() -> Self {
        LIVE.set(LIVE.get() + 1);
        Zst
    }
}

impl Clone for Zst {
    fn clone(&self) -> Self {
        if CLONES_UNTIL_PANIC.get() == 0 {
            panic!("injected: clone panics");
        }

        CLONES_UNTIL_PANIC.set(CLONES_UNTIL_PANIC.get() - 1);
        Zst::new()
    }
}

impl Drop for Zst {
    fn drop(&mut self) {
        LIVE.set(LIVE.get() - 1);
    }
}

/// Same thing with a size, for comparison.
struct Sized_(#[allow(dead_code)] u8);

impl Sized_ {
    fn new() -> Self {
        LIVE.set(LIVE.get() + 1);
        Sized_(0)
    }
}

impl Clone for Sized_ {
    fn clone(&self) -> Self {
        if CLONES_UNTIL_PANIC.get() == 0 {
            panic!("injected: clone panics");
        }

        CLONES_UNTIL_PANIC.set(CLONES_UNTIL_PANIC.get() - 1);
        Sized_::new()
    }
}

impl Drop for Sized_ {
    fn drop(&mut self) {
        LIVE.set(LIVE.get() - 1);
    }
}

#[test]
fn sized_alloc_slice_fill_clone_panic() {
    let bump: Bump = Bump::new();

    LIVE.set(0);
    CLONES_UNTIL_PANIC.set(3);

    let result = catch_unwind(AssertUnwindSafe(|| {
        _ = bump.alloc_slice_fill(10, Sized_::new());
    }));

    assert!(result.is_err());
    assert_eq!(LIVE.get(), 0);
}

#[test]
fn zst_alloc_slice_fill_clone_panic() {
    let bump: Bump = Bump::new();

    LIVE.set(0);
    CLONES_UNTIL_PANIC.set(3);

    let result = catch_unwind(AssertUnwindSafe(|| {
        _ = bump.alloc_slice_fill(10, Zst::new());
    }));

    assert!(result.is_err());

    // fails on the unchanged library: left is 3, the three successful clones were never dropped
    assert_eq!(LIVE.get(), 0, "values that were created but never dropped");
}
