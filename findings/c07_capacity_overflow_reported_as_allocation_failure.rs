//! Pre-existing behaviour (unchanged library), see NOTES.md, section 'Pre-existing'.
//!
//! Copy to `examples/seed_preexisting.rs` and run:
//!
//!     cargo run --offline --example seed_preexisting -- direct   # unwinding panic "capacity overflow"
//!     cargo run --offline --example seed_preexisting -- vec      # process abort (handle_alloc_error)
//!     cargo run --offline --example seed_preexisting -- string   # process abort (handle_alloc_error)
//!
//! The request is the same in all three cases: a byte block whose `Layout` is valid, but for which no
//! chunk size can be computed (the chunk would be larger than `isize::MAX`). No base allocator call is made.

use std::{alloc::Layout, panic::catch_unwind};

use bump_scope::{Bump, BumpString, BumpVec, traits::BumpAllocatorTyped};

const HUGE: usize = isize::MAX as usize - 8;

fn main() {
    let which = std::env::args().nth(1).unwrap_or_default();

    let result = catch_unwind(|| {
        let bump: Bump = Bump::new();

        match which.as_str() {
            "direct" => {
                bump.allocate_layout(Layout::from_size_align(HUGE, 1).unwrap());
            }
            "vec" => {
                let mut vec: BumpVec<u8, _> = BumpVec::new_in(&bump);
                vec.push(1);
                vec.reserve(HUGE);
            }
            "dyn" => {
                let d: &dyn bump_scope::traits::BumpAllocatorCore = &bump;
                d.allocate_layout(Layout::from_size_align(HUGE, 1).unwrap());
            }
            "dyn_slice" => {
                let d: &dyn bump_scope::traits::BumpAllocatorCore = &bump;
                d.allocate_slice::<u8>(HUGE);
            }
            "dyn_reserve" => {
                let d: &dyn bump_scope::traits::BumpAllocatorCore = &bump;
                d.reserve(HUGE);
            }
            "string" => {
                let mut string = BumpString::from_str_in("a", &bump);
                string.reserve(HUGE);
            }
            _ => panic!("usage: capov direct|vec|string|dyn|dyn_slice|dyn_reserve"),
        }
    });

    // only reached when the failure was reported by unwinding
    println!("unwound: {}", result.is_err());
}
