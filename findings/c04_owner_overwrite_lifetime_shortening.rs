//! PRE-EXISTING violation of C04 in the UNCHANGED library (no seeded change needed).
//!
//! Run with:   cp _result/preexisting.rs tests/seed_preexisting.rs && cargo test --offline --test seed_preexisting
//! Outcome on the unchanged library: both tests FAIL (they assert that the hole is closed).
//! There is no `unsafe` in this file.
//!
//! Root cause: `<BumpScope<'a, A, S> as BumpAllocator>::as_mut_scope(&mut self) -> &mut BumpScope<'_, A, S>`
//! (src/traits/bump_allocator.rs, "SAFETY: we shorten the lifetime that allocations will have which is sound")
//! turns a `&'s mut BumpScope<'a>` into a `&'s mut BumpScope<'s>`. `&mut T` is invariant in `T` for a reason:
//! the caller may now *write* a `BumpScope<'s>` into the place of the `BumpScope<'a>`, e.g. with `mem::swap`.
//! `BumpScopeGuard::scope`, the `scoped*` closures and `BumpPoolGuard::deref_mut` hand out `&mut BumpScope`
//! values to which the same trick applies.
//!
//! Swapping in the scope of a short-lived `Bump` exchanges the chunk lists of the two allocators. The short-lived
//! `Bump` then owns (and frees on drop) the chunks that hold allocations of the long-lived scope, which are still
//! usable for `'a`.

use bump_scope::{Bump, BumpScope, traits::BumpAllocator};

#[test]
fn live_allocation_is_freed_by_another_bump() {
    let mut outer: Bump = Bump::new();
    let outer_scope: &mut BumpScope = outer.as_mut_scope();

    // lives as long as `outer` is borrowed
    let x: &mut [u64] = outer_scope.alloc_slice_fill(4, 0x1111_1111_1111_1111u64).into_mut();
    let chunk_of_x = outer_scope.stats().current_chunk().unwrap().chunk_start();

    {
        let mut inner: Bump = Bump::new();
        let inner_scope: &mut BumpScope = inner.as_mut_scope();
        let shortened: &mut BumpScope = BumpAllocator::as_mut_scope(outer_scope);
        core::mem::swap(shortened, inner_scope);
        // `inner` is dropped here and frees the chunk that `x` points into
    }

    let chunk_now = outer_scope.stats().current_chunk().unwrap().chunk_start();

    // reuse the freed memory
    let filler: Vec<Vec<u8>> = (0..64).map(|_| vec![0xEEu8; 512]).collect();

    println!("chunk of x: {chunk_of_x:?}, chunk of outer now: {chunk_now:?}, x = {x:x?}");
    drop(filler);

    assert_eq!(
        chunk_of_x, chunk_now,
        "the chunk holding the live allocation `x` was handed to (and freed by) another Bump"
    );
}

#[test]
fn scope_guard_resets_into_freed_chunk() {
    let mut outer: Bump = Bump::new();
    let before = outer.stats().current_chunk().unwrap().chunk_start();

    outer.scoped(|scope| {
        let mut inner: Bump = Bump::new();
        core::mem::swap(BumpAllocator::as_mut_scope(scope), inner.as_mut_scope());
        // `inner` now owns `outer`'s chunk and frees it when this closure returns;
        // afterwards the scope guard of `scoped` resets to a checkpoint inside that freed chunk
        // (debug builds: the debug assertion in `RawBump::reset_to` fires instead).
    });

    let after = outer.stats().current_chunk().unwrap().chunk_start();
    assert_eq!(before, after);
}
