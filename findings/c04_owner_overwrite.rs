//! Safe programs (no `unsafe`) that the UNCHANGED library accepts and that end in a double free or a use after free:
//! an owned `BumpScope<'x>` value (from `by_value`, `BumpScopeGuard::scope`, or behind `DerefMut` of a claim guard) can be
//! `mem::swap`ped with the storage of an *owning* arena, reachable as `&mut BumpScope` through `Bump::as_mut_scope`
//! (also via `BumpPoolGuard`'s `DerefMut`) or with a claim guard's claimant.
//! Run each test on its own: `cargo test --test c04_owner_overwrite <name>` (they abort the process).
use bump_scope::{Bump, BumpPool};
use bump_scope::traits::{BumpAllocator, BumpAllocatorScope};

#[test]
fn o1_by_value_copy_swapped_into_owner() {
    let mut bump1: Bump = Bump::new();
    let mut bump2: Bump = Bump::new();
    {
        let s2 = bump2.as_mut_scope();
        let mut copy = s2.by_value();
        core::mem::swap(bump1.as_mut_scope(), &mut copy);
    }
    drop(bump1); // frees bump2's chunks
    drop(bump2); // frees them again
}

#[test]
fn o2_guard_scope_swapped_into_owner() {
    let mut bump1: Bump = Bump::new();
    let mut bump2: Bump = Bump::new();
    {
        let mut guard = bump2.scope_guard();
        let mut scope = guard.scope();
        core::mem::swap(bump1.as_mut_scope(), &mut scope);
    }
    drop(bump1);
    drop(bump2);
}

#[test]
fn o5_claim_guard_swapped_with_owner_use_after_free() {
    let mut bump1: Bump = Bump::new();
    let bump2: Bump = Bump::new();
    let x = bump2.alloc_str("still borrowed from bump2");
    let chunks_before = bump2.stats().count();
    {
        let mut g = bump2.claim();
        core::mem::swap(bump1.as_mut_scope(), &mut *g);
    }
    // bump1 now owns the chunk `x` lives in
    assert_eq!(bump2.stats().count(), chunks_before);
    assert!(bump2.stats().allocated() >= x.len(), "x is no longer accounted for in bump2: its chunk belongs to bump1");
    drop(bump1);
    println!("{x}");
}

#[test]
fn o7_pool_guard_arena_overwritten() {
    let pool: BumpPool = BumpPool::new();
    let mut bump2: Bump = Bump::new();
    {
        let mut g1 = pool.get();
        let mut guard = bump2.scope_guard();
        let mut scope = guard.scope();
        core::mem::swap(g1.as_mut_scope(), &mut scope);
    }
    drop(pool);
    drop(bump2);
}

#[test]
fn o9_claimant_swapped_with_foreign_scope() {
    let bump2: Bump = Bump::new();
    let mut bump3: Bump = Bump::new();
    {
        let mut guard = bump3.scope_guard();
        let mut scope = guard.scope();
        let mut g = bump2.claim();
        core::mem::swap(&mut *g, &mut scope);
    }
    drop(bump2);
    drop(bump3);
}
