use bump_scope::BumpPool;
use std::panic::{AssertUnwindSafe, catch_unwind};

// P1: a `Stats<'a>` taken through a guard outlives the guard and keeps reading the arena
// (chunk header `pos` / `next` cells) while the arena belongs to another guard / thread.
#[test]
fn stats_outlive_the_guard_and_alias_the_next_users_arena() {
    let pool: BumpPool = BumpPool::new();
    let stats = pool.get().stats(); // guard dropped here, `stats: Stats<'pool, ..>` lives on
    let before = stats.allocated();

    std::thread::scope(|s| {
        s.spawn(|| {
            let guard = pool.get(); // same arena, now owned by this thread
            guard.alloc_str("xxxx");
            // a concurrent `stats.allocated()` on the main thread would be an unsynchronised read
            // of the `Cell` this thread is writing
        });
    });

    assert_eq!(stats.allocated(), before, "a non-guard handle observes the arena of another live guard");
}

