//! Pre-existing (unchanged library): `BumpAllocatorCore::prepare_allocation` (safe, public) with a layout whose
//! size is not a multiple of its alignment creates a chunk that does not fit the request.
//!
//! Run: cargo test --offline --test seed_pre

use std::{alloc::Layout, ptr::NonNull};

use bump_scope::{
    Bump,
    alloc::{AllocError, Allocator, Global},
    settings::BumpSettings,
    traits::BumpAllocatorCore,
};

/// A base allocator that hands out blocks at `OFFSET` bytes after a page boundary
/// (`OFFSET = 0`: like an mmap based allocator, `OFFSET = 16`: like glibc's malloc for mmapped blocks).
#[derive(Clone, Default)]
struct PageAlloc<const OFFSET: usize>;

fn page<const OFFSET: usize>(layout: Layout) -> Layout {
    assert!(layout.align() <= 16);
    Layout::from_size_align(layout.size() + OFFSET, 4096).unwrap()
}

unsafe impl<const OFFSET: usize> Allocator for PageAlloc<OFFSET> {
    fn allocate(&self, layout: Layout) -> Result<NonNull<[u8]>, AllocError> {
        let ptr = Global.allocate(page::<OFFSET>(layout))?.cast::<u8>();
        Ok(NonNull::slice_from_raw_parts(unsafe { ptr.add(OFFSET) }, layout.size()))
    }

    unsafe fn deallocate(&self, ptr: NonNull<u8>, layout: Layout) {
        unsafe { Global.deallocate(ptr.sub(OFFSET), page::<OFFSET>(layout)) }
    }
}

fn run<const UP: bool, const OFFSET: usize>() {
    let bump: Bump<PageAlloc<OFFSET>, BumpSettings<1, UP>> = Bump::new_in(PageAlloc);
    assert_eq!(bump.stats().count(), 1);

    // Any size that is not a multiple of the alignment will do, the effect is most visible with a big alignment.
    let layout = Layout::from_size_align(1, 4096).unwrap();

    // The first chunk (512 bytes) has no room, so a chunk is created for `layout` (8192 - 16 bytes).
    // `prepare_allocation` aligns BOTH ends of the free range to 4096; the new chunk was only sized for
    // `size + (align - 16) + 16` bytes of payload, so nothing is left between the two aligned ends and the
    // `unreachable_unchecked()` in `RawBump::in_another_chunk` is reached (debug builds abort, release: UB).
    let range = bump.prepare_allocation(layout).unwrap();
    let len = range.end.addr().get() - range.start.addr().get();
    assert!(len >= 1);
    assert_eq!(bump.stats().count(), 2);
}

#[test]
fn up() {
    run::<true, 0>();
}

#[test]
fn down() {
    run::<false, 16>();
}
