//! Pre-existing difference (UNCHANGED library): `reserve` through a trait object versus `reserve` on `Bump`.
//!
//! Run with: copy to `tests/preexisting_reserve.rs`, then `cargo test --offline --test preexisting_reserve`.
//! Fails on the unchanged library: after the same `reserve` and the same follow-up allocation the two arenas
//! differ in (chunk index, chunk count, allocated, capacity).

use std::alloc::Layout;

use bump_scope::{
    Bump,
    alloc::Global,
    settings::BumpSettings,
    traits::{BumpAllocatorCore, BumpAllocatorTyped},
};

fn snapshot<const UP: bool>(bump: &Bump<Global, BumpSettings<1, UP>>) -> (usize, usize, usize, usize) {
    let stats = bump.stats();
    let current = stats.current_chunk().unwrap();
    (
        current.iter_prev().count(),
        stats.count(),
        stats.allocated(),
        stats.capacity(),
    )
}

fn reserve_lock_step<const UP: bool>() {
    let a: Bump<Global, BumpSettings<1, UP>> = Bump::with_size(512);
    let b: Bump<Global, BumpSettings<1, UP>> = Bump::with_size(512);

    a.alloc_slice_fill(100, 0u8);
    b.alloc_slice_fill(100, 0u8);
    assert_eq!(snapshot(&a), snapshot(&b));

    let remaining = a.stats().remaining();
    let additional = remaining + 4000;

    // same request: typed entry point vs. trait object
    a.reserve(additional);
    (&b as &dyn BumpAllocatorCore).reserve(additional);

    std::eprintln!("after reserve: typed {:?} dyn {:?}", snapshot(&a), snapshot(&b));

    // same follow-up request on both
    let layout = Layout::from_size_align(4100, 1).unwrap();
    let pa = a.allocate_layout(layout);
    let pb = b.allocate_layout(layout);
    _ = (pa, pb);

    std::eprintln!("after alloc:   typed {:?} dyn {:?}", snapshot(&a), snapshot(&b));
    assert_eq!(snapshot(&a), snapshot(&b), "(chunk index, chunk count, allocated, capacity)");
}

#[test]
fn reserve_up() {
    reserve_lock_step::<true>();
}

#[test]
fn reserve_down() {
    reserve_lock_step::<false>();
}
