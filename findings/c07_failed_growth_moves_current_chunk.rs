//! NOT one of the seeded changes: a probe for a defect that is already present in the UNCHANGED
//! library and also violates C07 (found while looking for seeding spots).
//!
//! `RawBump::in_another_chunk` walks the cached `next` chunks and does `self.chunk.set(next)` for each of
//! them before it knows whether the request can be satisfied. If none fits and appending a new chunk is
//! refused by the base allocator, the call returns `Err`, but the bump allocator's current chunk is now
//! the last cached chunk. A `MutBumpVec` (`MutBumpVecRev`, `MutBumpString`) whose growth failed this way
//! still has its buffer in the *earlier* chunk; `into_slice` / `into_boxed_slice` then calls
//! `allocate_prepared`, which sets the bump position of the *current* chunk to an address inside the
//! earlier chunk.
//!
//! Run (file placed at `tests/preexisting_probe.rs`): `cargo test --offline --test preexisting_probe`
//! Observed on the unchanged library: debug build -> `assertion failed: self.contains_addr_or_end(addr)`
//! (src/raw_bump.rs:1100); release build (`--release`) -> "double free or corruption (out)", SIGABRT.
#![cfg(all(feature = "std", feature = "panic-on-alloc"))]

use std::{alloc::Layout, cell::Cell, ptr::NonNull};

use bump_scope::{
    Bump, MutBumpVec,
    alloc::{AllocError, Allocator, Global},
};

#[derive(Default)]
struct Switch {
    fail: Cell<bool>,
}

unsafe impl Allocator for &Switch {
    fn allocate(&self, layout: Layout) -> Result<NonNull<[u8]>, AllocError> {
        if self.fail.get() {
            return Err(AllocError);
        }
        Global.allocate(layout)
    }

    unsafe fn deallocate(&self, ptr: NonNull<u8>, layout: Layout) {
        unsafe { Global.deallocate(ptr, layout) }
    }
}

#[test]
fn mut_vec_failed_growth_then_into_slice() {
    let base = Switch::default();
    let mut bump: Bump<&Switch> = Bump::with_size_in(512, &base);
    bump.alloc_slice_fill(600, 0u8); // creates chunk 2
    assert_eq!(bump.stats().count(), 2);
    bump.reset_to_start(); // back to chunk 1, chunk 2 stays cached

    base.fail.set(true);

    bump.scoped(|mut scope| {
        let mut vec: MutBumpVec<u8, _> = MutBumpVec::with_capacity_in(100, &mut scope);
        while vec.len() < vec.capacity() {
            vec.push(7);
        }
        let len = vec.len();

        // chunk 1 and the cached chunk 2 are too small, a third chunk is refused
        assert!(vec.try_reserve(100_000).is_err());
        assert_eq!(vec.len(), len);

        let slice = vec.into_slice();
        assert!(slice.iter().all(|&b| b == 7));
        let more = scope.try_alloc_slice_fill(16, 1u8).unwrap();
        assert!(slice.iter().all(|&b| b == 7));
        assert!(more.iter().all(|&b| b == 1));
    });
}
