//! NOT a demo for a seeded change: this shows a defect of the UNCHANGED library that was
//! found while looking for seeding sites (C06, zero-sized element types).
//!
//! `owned_slice::Drain::drop` (src/owned_slice/drain.rs) takes `self.iter` out with `mem::take`,
//! and in the `T::IS_ZST` branch drops the un-yielded elements via `set_len` + `truncate` and then
//! returns, at which point the local `iter` (an `owned_slice::IntoIter`, which has a `Drop` impl
//! that drops its remaining elements) is dropped too. Every drained-but-not-yielded ZST is
//! therefore dropped twice.
//!
//!     cp to tests/preexisting_zst_drain_double_drop.rs; cargo test --offline --test preexisting_zst_drain_double_drop
//!
//! FAILS on the unchanged library.

use std::cell::Cell;

use bump_scope::{Bump, BumpVec};

thread_local! {
    static DROPS: Cell<usize> = const { Cell::new(0) };
}

struct Zst;

impl Drop for Zst {
    fn drop(&mut self) {
        DROPS.set(DROPS.get() + 1);
    }
}

#[test]
fn zst_drain_dropped_unconsumed() {
    DROPS.set(0);
    let bump: Bump = Bump::new();
    let mut vec: BumpVec<Zst, _> = BumpVec::new_in(&bump);
    vec.extend((0..5).map(|_| Zst));

    drop(vec.drain(1..4));
    assert_eq!(vec.len(), 2);
    assert_eq!(DROPS.get(), 3, "the three drained elements must have been dropped exactly once");

    drop(vec);
    assert_eq!(DROPS.get(), 5, "every element must be dropped exactly once");
}
