//! Pre-existing (UNCHANGED library): `BumpAllocatorCore::prepare_allocation` can return `Ok` with a
//! range that is SMALLER than `layout.size()` when `layout.size()` is not a multiple of
//! `layout.align()`, although its documentation promises "a pointer range of free space ... with
//! a size of at least `layout.size()`".
//!
//! Run with:
//!     cp _result/preexisting_prepare.rs tests/seed_pre.rs
//!     cargo test --offline --test seed_pre -- --nocapture
//!
//! Observed on the unchanged library: both tests FAIL, e.g.
//!     UP=false remaining=32 size=8 align=64: prepared range has 0 bytes
//!     UP=true remaining=16 size=8 align=32: prepared range has 0 bytes
//! (`bump_prepare_up` trims `end` down to `layout.align()` AFTER the size check, and
//! `bump_prepare_down` aligns `start` up AFTER the size check. With a size that is a multiple of
//! the alignment - all the crate's own callers - the trimmed range is still large enough.)
use std::alloc::Layout;

use bump_scope::{
    Bump,
    alloc::{Allocator, Global},
    settings::BumpSettings,
    traits::BumpAllocatorCore,
};

fn run<const UP: bool>() {
    let mut violations = 0;

    for remaining in 1..256usize {
        for align in [1usize, 2, 4, 8, 16, 32, 64, 128] {
            for size in [1usize, 3, 8, 24, 40, 100] {
                if size > remaining {
                    continue;
                }

                let bump: Bump<Global, BumpSettings<1, UP>> = Bump::new();

                // leave exactly `remaining` bytes in the first chunk
                let free = bump.stats().current_chunk().unwrap().remaining();
                bump.allocate(Layout::from_size_align(free - remaining, 1).unwrap()).unwrap();

                let layout = Layout::from_size_align(size, align).unwrap();
                let range = bump.prepare_allocation(layout).unwrap();
                let got = range.end.addr().get() - range.start.addr().get();

                if got < size {
                    if violations < 5 {
                        eprintln!("UP={UP} remaining={remaining} size={size} align={align}: prepared range has {got} bytes");
                    }
                    violations += 1;
                }
            }
        }
    }

    assert_eq!(violations, 0, "prepare_allocation returned ranges smaller than requested");
}

#[test]
fn up() {
    run::<true>();
}

#[test]
fn down() {
    run::<false>();
}

