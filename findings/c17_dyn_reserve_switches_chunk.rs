// Pre-existing divergence (UNCHANGED library): `reserve` through a trait object versus the concrete type.
//
// Run with:   cp _result/preexisting.rs tests/seed_preexisting.rs && cargo test --offline --test seed_preexisting
//
// Both tests FAIL on the unchanged library.

use bump_scope::{
    Bump,
    traits::{BumpAllocatorCore, BumpAllocatorTyped},
};

#[test]
fn reserve_concrete_vs_dyn() {
    let a: Bump = Bump::with_size(512);
    let b: Bump = Bump::with_size(512);

    a.alloc_str("hello");
    b.alloc_str("hello");

    // same request, more than what remains in the first chunk
    a.reserve(1000);
    (&b as &dyn BumpAllocatorCore).reserve(1000);

    let offset = |bump: &Bump| {
        let chunk = bump.stats().current_chunk().unwrap();
        (chunk.iter_prev().count(), chunk.bump_position().addr().get() - chunk.chunk_start().addr().get())
    };

    // concrete: still in chunk 0 with 5 bytes allocated
    // dyn:      switched to chunk 1, `allocated` counts the whole first chunk
    assert_eq!(a.stats().allocated(), b.stats().allocated());
    assert_eq!(offset(&a), offset(&b));
}

