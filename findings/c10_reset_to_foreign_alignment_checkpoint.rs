//! Pre-existing (UNCHANGED library): `reset_to` with a checkpoint that was taken while a *lower*
//! minimum alignment was in force leaves the bump position misaligned for the current settings,
//! although every documented safety condition of `reset_to` is met.
//!
//! How to run (from /tmp/seed2/C10, unchanged src):
//!     cp _result/preexisting.rs tests/seed_preexisting.rs
//!     cargo test --offline --test seed_preexisting            # debug: position assertion fails
//!     cargo test --offline --release --test seed_preexisting  # release: same

use bump_scope::{Bump, alloc::Global, settings::BumpSettings, traits::BumpAllocatorCore};

fn position<const MIN_ALIGN: usize, const UP: bool>(bump: &bump_scope::BumpScope<'_, Global, BumpSettings<MIN_ALIGN, UP>>) -> usize
where
    bump_scope::settings::MinimumAlignment<MIN_ALIGN>: bump_scope::settings::SupportedMinimumAlignment,
{
    bump.stats().current_chunk().unwrap().bump_position().addr().get()
}

/// checkpoint taken at `MIN_ALIGN = 1`, used inside `aligned::<8>`
fn checkpoint_from_outside<const UP: bool>() {
    let mut bump: Bump<Global, BumpSettings<1, UP>> = Bump::new();
    bump.alloc(1u8);
    let checkpoint = bump.checkpoint(); // position is odd
    bump.alloc(2u8);

    bump.as_mut_scope().aligned::<8, ()>(|bump| {
        assert_eq!(position(bump) % 8, 0);

        // - created by this bump allocator, - not reset since, - no references to allocations made since,
        // - same GUARANTEED_ALLOCATED, - unclaimed
        unsafe { bump.reset_to(checkpoint) };

        assert_eq!(position(bump) % 8, 0, "bump position is not a multiple of the minimum alignment in force (8)");
    });
}

/// checkpoint taken inside `aligned::<1>`, used outside where `MIN_ALIGN = 8`
fn checkpoint_from_inside<const UP: bool>() {
    let mut bump: Bump<Global, BumpSettings<8, UP>> = Bump::new();

    let checkpoint = bump.as_mut_scope().aligned::<1, _>(|bump| {
        bump.alloc(1u8);
        let checkpoint = bump.checkpoint(); // position is odd
        bump.alloc(2u8);
        checkpoint
    });

    assert_eq!(position(bump.as_scope()) % 8, 0);
    unsafe { bump.reset_to(checkpoint) };
    assert_eq!(position(bump.as_scope()) % 8, 0, "bump position is not a multiple of the minimum alignment in force (8)");
}

#[test]
fn checkpoint_from_outside_up() {
    checkpoint_from_outside::<true>();
}

#[test]
fn checkpoint_from_outside_down() {
    checkpoint_from_outside::<false>();
}

#[test]
fn checkpoint_from_inside_up() {
    checkpoint_from_inside::<true>();
}

#[test]
fn checkpoint_from_inside_down() {
    checkpoint_from_inside::<false>();
}

/// Consequence: the next allocation of a type whose alignment is `<= MIN_ALIGN` trusts the position.
/// In debug builds this panics in `debug_assert_aligned!` (src/bumping.rs); in release builds the returned
/// reference is misaligned (run with `--release`).
#[test]
fn consequence_misaligned_allocation_up() {
    let mut bump: Bump<Global, BumpSettings<1, true>> = Bump::new();
    bump.alloc(1u8);
    let checkpoint = bump.checkpoint();

    bump.as_mut_scope().aligned::<8, ()>(|bump| {
        unsafe { bump.reset_to(checkpoint) };
        let x = bump.alloc(0x1122_3344_5566_7788_u64);
        // go through the raw pointer: the optimizer may assume that a `&u64` is aligned
        let addr = std::hint::black_box(bump_scope::BumpBox::into_raw(x)).addr().get();
        assert_eq!(addr % 8, 0, "`&u64` at {addr:#x} is misaligned");
    });
}
