// Demonstration for the C02 finding: WithoutShrink::shrink to a stricter alignment copies old_layout.size()
// bytes into a block of new_layout.size() bytes, overwriting a neighbouring live allocation.
// Run as an example of a scratch crate that path-depends on /repo (see findings/README.md).
use bump_scope::{alloc::Allocator, settings::BumpSettings, Bump, WithoutShrink};
use core::alloc::Layout;

type DownBump = Bump<bump_scope::alloc::Global, <BumpSettings as bump_scope::settings::BumpAllocatorSettings>::WithUp<false>>;

fn main() {
    let bump: DownBump = Bump::new();
    let l41 = Layout::from_size_align(4, 1).unwrap();
    let l81 = Layout::from_size_align(8, 1).unwrap();
    let l48 = Layout::from_size_align(4, 8).unwrap();
    unsafe {
        let _pad = bump.allocate(l41).unwrap();
        let p = bump.allocate(l81).unwrap().cast::<u8>();
        p.as_ptr().write_bytes(0x22, 8);
        let y = bump.allocate(l81).unwrap().cast::<u8>();
        y.as_ptr().write_bytes(0x33, 8);
        assert!(p.as_ptr() as usize % 8 != 0, "test needs a misaligned p");
        let w = WithoutShrink(&bump);
        let q = w.shrink(p, l81, l48).unwrap().cast::<u8>();
        let yb = core::slice::from_raw_parts(y.as_ptr(), 8);
        println!("p={:p} y={:p} q={:p} y bytes after shrink: {:02x?}", p, y, q, yb);
        assert!(yb.iter().all(|b| *b == 0x33), "live block y was overwritten by shrink of p");
    }
    println!("OK: y intact");
}
