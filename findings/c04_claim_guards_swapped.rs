//! PRE-EXISTING (unchanged library): two claim guards can exchange their arenas in safe code.
//!
//! `BumpClaimGuard<'b, 'a, A, S>` is covariant in `'a` and hands out `&mut BumpScope<'a, A, S>` through `DerefMut`.
//! The scope lifetimes of two unrelated guards can therefore be shortened to a common one and
//! `mem::swap(&mut *g1, &mut *g2)` type-checks. When the guards are dropped each ORIGINAL handle "resumes" in the
//! OTHER allocator's chunk. (`mem::swap` of the two `&mut BumpScope` that `scoped` passes to its closures is
//! rejected, their lifetimes are invariant and distinct; the claim guard is the loophole.)
//!
//! Copy to tests/ and run
//!     cargo test --offline --test preexisting_swap              (debug)
//!     cargo test --offline --release --test preexisting_swap    (release)
//!
//! debug:   the scope exit of `b2` panics in `reset_to` ("this checkpoint does not refer to any chunk in this bump
//!          allocator"), a second panic in the outer scope guard during unwinding aborts the process.
//! release: no check, `y` (allocated through `s1`, alive) and `z` get the SAME address, the assertion fails
//!          (`y` reads "zzzzzzzzzzzzzzzz"): a live allocation made through the original handle after the claim
//!          ended is overwritten.
#![cfg(all(feature = "std", feature = "panic-on-alloc"))]
use bump_scope::{Bump, alloc::Global};

#[test]
fn swap_claimants_in_scopes() {
    let mut b1: Bump<Global> = Bump::new();
    let mut b2: Bump<Global> = Bump::new();

    b1.scoped(|s1| {
        b2.scoped(|s2| {
            let mut g1 = s1.claim();
            let mut g2 = s2.claim();
            core::mem::swap(&mut *g1, &mut *g2);
            // g1 hands b2's chunk to s1, g2 hands b1's chunk to s2
        });

        // the scope exit above put b2 back onto its own chunk; s1 still allocates in b2's chunk,
        // but b2 is not borrowed any more
        let y = s1.alloc_str("yyyyyyyyyyyyyyyy");
        b2.reset();
        let z = b2.alloc_str("zzzzzzzzzzzzzzzz");

        assert_ne!(y.as_ptr(), z.as_ptr(), "two live allocations share their memory");
        assert_eq!(&*y, "yyyyyyyyyyyyyyyy");
        assert_eq!(&*z, "zzzzzzzzzzzzzzzz");
    });
}
