use std::panic::{AssertUnwindSafe, catch_unwind};

use bump_scope::{Bump, BumpString, FixedBumpString};

#[test]
fn split_off_empty_range_inside_a_char() {
    let bump: Bump = Bump::new();

    // index 2 is inside of 'é' (bytes 1..3)
    let text = "aéb";
    assert!(!text.is_char_boundary(2));

    // std panics for the same (empty) range
    assert!(catch_unwind(|| { let mut s = String::from("aéb"); s.drain(2..2); }).is_err());
    assert!(catch_unwind(|| { let mut s = String::from("aéb"); s.replace_range(2..2, ""); }).is_err());
    assert!(catch_unwind(|| { let mut s = String::from("aéb"); drop(s.split_off(2)); }).is_err());

    // the sibling operations of the bump strings panic as well
    assert!(catch_unwind(|| { let mut s = BumpString::from_str_in("aéb", &bump); s.drain(2..2); }).is_err());
    assert!(catch_unwind(|| { let mut s = BumpString::from_str_in("aéb", &bump); s.replace_range(2..2, ""); }).is_err());

    // but split_off does not, although its documentation says
    // "Panics if the starting point or end point do not lie on a char boundary, or if they're out of bounds."
    let mut s = BumpString::from_str_in("aéb", &bump);
    let r = catch_unwind(AssertUnwindSafe(|| s.split_off(2..2)));
    assert!(r.is_err(), "BumpString::split_off(2..2) inside a char did not panic");
}

#[test]
fn split_off_empty_range_inside_a_char_fixed_and_box() {
    let bump: Bump = Bump::new();

    let mut s = FixedBumpString::with_capacity_in(8, &bump);
    s.push_str("aéb");
    let r = catch_unwind(AssertUnwindSafe(|| s.split_off(2..2)));
    let fixed_panicked = r.is_err();

    let mut s = bump.alloc_str("aéb");
    let r = catch_unwind(AssertUnwindSafe(|| s.split_off(2..2)));
    let box_panicked = r.is_err();

    assert!(fixed_panicked && box_panicked, "FixedBumpString panicked: {fixed_panicked}, BumpBox<str> panicked: {box_panicked}");
}
