// Demonstration for the C10 finding: the type-erased statistics (AnyStats / AnyChunk) computed the end of the chunk
// header as `header.add(1)` on NonNull<ChunkHeader<()>>; with a base allocator of non-zero size the real header
// is larger, so allocated()/capacity()/size() disagree with the typed statistics.
use bump_scope::{
    alloc::{AllocError, Allocator, Global},
    settings::{BumpAllocatorSettings, BumpSettings},
    stats::AnyStats,
    Bump,
};
use core::{alloc::Layout, ptr::NonNull};

#[derive(Clone, Default)]
struct Stateful(#[allow(dead_code)] u64);

unsafe impl Allocator for Stateful {
    fn allocate(&self, layout: Layout) -> Result<NonNull<[u8]>, AllocError> {
        Global.allocate(layout)
    }
    unsafe fn deallocate(&self, ptr: NonNull<u8>, layout: Layout) {
        unsafe { Global.deallocate(ptr, layout) }
    }
}

fn run<const UP: bool>() -> bool {
    let bump: Bump<Stateful, <BumpSettings as BumpAllocatorSettings>::WithUp<UP>> = Bump::new_in(Stateful(7));
    bump.alloc(1u8);
    let typed = bump.stats();
    let any = AnyStats::from(typed);
    println!(
        "UP={UP}: typed allocated={} capacity={} size={} remaining={} | any allocated={} capacity={} size={} remaining={}",
        typed.allocated(), typed.capacity(), typed.size(), typed.remaining(),
        any.allocated(), any.capacity(), any.size(), any.remaining()
    );
    typed.allocated() == any.allocated() && typed.capacity() == any.capacity() && typed.size() == any.size()
        && typed.remaining() == any.remaining()
}

fn main() {
    let a = run::<true>();
    let b = run::<false>();
    assert!(a && b, "type-erased statistics disagree with the typed statistics");
    println!("OK: typed and type-erased statistics agree");
}
